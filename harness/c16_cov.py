'''Line coverage of the anchored Python functions of C16 during tied
conversions (sys.settrace restricted to those code objects).  Information
only: the driver records it in the evidence and it never decides a verdict.'''
import linecache
import sys
import types


def _codes(func):
    out, stack = [func.__code__], [func.__code__]
    while stack:
        cur = stack.pop()
        for const in cur.co_consts:
            if isinstance(const, types.CodeType):
                out.append(const)
                stack.append(const)
    return out


class LineCov:
    def __init__(self, funcs):
        self.codes = {}
        for func in funcs:
            func = getattr(func, '__func__', func)
            for code in _codes(func):
                self.codes[code] = func.__qualname__
        self.hit = {code: set() for code in self.codes}
        self._prev = None

    def _global(self, frame, event, arg):
        if frame.f_code in self.codes:
            self.hit[frame.f_code].add(frame.f_lineno)
            return self._local
        return None

    def _local(self, frame, event, arg):
        if event == 'line':
            self.hit[frame.f_code].add(frame.f_lineno)
        return self._local

    def __enter__(self):
        self._prev = sys.gettrace()
        sys.settrace(self._global)
        return self

    def __exit__(self, *exc):
        sys.settrace(self._prev)
        return False

    def missing(self, unreachable):
        out, total = [], 0
        for code, name in self.codes.items():
            lines = {ln for _, _, ln in code.co_lines() if ln is not None}
            lines.discard(code.co_firstlineno)
            total += len(lines)
            for ln in sorted(lines - self.hit[code]):
                text = linecache.getline(code.co_filename, ln).strip()
                if not text or any(pat in text for pat in unreachable):
                    continue
                out.append((name, ln, text))
        return total, out


# lines the tied conversions cannot reach, with the reason
UNREACHABLE = [
    'if lim and n > lim',      # get_surfaces is always called with lim=None
    'break',
    # transformation(): an empty transformation never reaches it from a deck,
    # and quadrics (SQ / GQ) are not in C16's surface pool (C02 / C04 own them)
    'return surface',
    'surface = SurfaceMCNP(surface.boundary_cond, MS.GQ,',
    'surface.param_surface,',
    'sq_to_gq(surface.compl_param), surface.idorigin)',
    'frame = tuple(surface.param_surface)',
    'params = transformation_quad(surface.compl_param, trpl)',
]


def anchored_functions():
    from MIP.geom import surfaces
    from t4_geom_convert.Kernel.BoundaryCondition.\
        CConversionBoundaryCondition import CConversionBoundaryCondition as B
    from t4_geom_convert.Kernel.FileHandlers.Writer import WriteT4BoundCond
    from t4_geom_convert.Kernel.Surface import Duplicates
    from t4_geom_convert.Kernel.Surface.CollectionDict import CollectionDict
    from t4_geom_convert.Kernel.Transformation import Transformation
    from t4_geom_convert.Kernel.Volume import ConstructVolumeT4
    return [surfaces.get_surfaces, B.recuperateBoundaryCondition,
            B.conversionBoundCond, WriteT4BoundCond.writeT4BoundCond,
            Duplicates.remove_duplicate_surfaces, Duplicates.renumber_surfaces,
            CollectionDict.number_items, Transformation.transformation,
            ConstructVolumeT4.extract_tr_surf_ids,
            ConstructVolumeT4.remove_unused_volumes]
