'''Line coverage of the anchored Python functions of C16 during tied
conversions (sys.settrace restricted to those code objects).  Information
only: the driver records it in the evidence and it never decides a verdict.'''
import linecache
import sys
import types


def _codes(func):
    out, stack = [func.__code__], [func.__code__]
    while stack:
        cur = stack.pop()
        for const in cur.co_consts:
            if isinstance(const, types.CodeType):
                out.append(const)
                stack.append(const)
    return out


class LineCov:
    def __init__(self, funcs):
        self.codes = {}
        for func in funcs:
            func = getattr(func, '__func__', func)
            for code in _codes(func):
                self.codes[code] = func.__qualname__
        self.hit = {code: set() for code in self.codes}
        self._prev = None

    def _global(self, frame, event, arg):
        if frame.f_code in self.codes:
            self.hit[frame.f_code].add(frame.f_lineno)
            return self._local
        return None

    def _local(self, frame, event, arg):
        if event == 'line':
            self.hit[frame.f_code].add(frame.f_lineno)
        return self._local

    def __enter__(self):
        self._prev = sys.gettrace()
        sys.settrace(self._global)
        return self

    def __exit__(self, *exc):
        sys.settrace(self._prev)
        return False

    def missing(self, unreachable):
        out, total = [], 0
        for code, name in self.codes.items():
            lines = {ln for _, _, ln in code.co_lines() if ln is not None}
            lines.discard(code.co_firstlineno)
            total += len(lines)
            for ln in sorted(lines - self.hit[code]):
                text = linecache.getline(code.co_filename, ln).strip()
                if not text or any(pat in text for pat in unreachable):
                    continue
                out.append((name, ln, text))
        return total, out


# lines the tied conversions cannot reach, with the reason
UNREACHABLE = [
    'if lim and n > lim',      # get_surfaces is always called with lim=None
    'break',
    # transformation(): an empty transformation never reaches it from a deck
    'return surface',
]


def anchored_functions():
    '''(functions found, names not found).  Never raises: a function that a
    rewrite renamed or moved is skipped and reported.'''
    import importlib
    wanted = [
        ('MIP.geom.surfaces', 'get_surfaces'),
        ('t4_geom_convert.Kernel.BoundaryCondition.CConversionBoundaryCondition',
         'CConversionBoundaryCondition.recuperateBoundaryCondition'),
        ('t4_geom_convert.Kernel.BoundaryCondition.CConversionBoundaryCondition',
         'CConversionBoundaryCondition.conversionBoundCond'),
        ('t4_geom_convert.Kernel.FileHandlers.Writer.WriteT4BoundCond',
         'writeT4BoundCond'),
        ('t4_geom_convert.Kernel.Surface.Duplicates', 'remove_duplicate_surfaces'),
        ('t4_geom_convert.Kernel.Surface.Duplicates', 'renumber_surfaces'),
        ('t4_geom_convert.Kernel.Surface.CollectionDict',
         'CollectionDict.number_items'),
        ('t4_geom_convert.Kernel.Transformation.Transformation', 'transformation'),
        ('t4_geom_convert.Kernel.Volume.ConstructVolumeT4', 'extract_tr_surf_ids'),
        ('t4_geom_convert.Kernel.Volume.ConstructVolumeT4',
         'remove_unused_volumes'),
    ]
    found, absent = [], []
    for mod, path in wanted:
        try:
            obj = importlib.import_module(mod)
            for part in path.split('.'):
                obj = getattr(obj, part)
            getattr(obj, '__func__', obj).__code__
            found.append(obj)
        except Exception:       # pylint: disable=broad-except
            absent.append(f'{mod.split(".")[-1]}.{path}')
    return found, absent
