'''C02 — several surface cards in ONE deck, some carrying a TR number (a
TR-tilted torus among them), converted end to end and compared with the
reference semantics at points, with the surfaces READ BACK FROM THE WRITTEN
FILE (SURF / TRANSFORM lines): what one card's conversion writes must not leak
into the lines of the others.'''
import itertools
import random

import deck as deckmod
import geomcheck
import impl

MULTI_TAGS = ['px', 'py', 'pz', 'p', 'so', 's', 'sx', 'c/x', 'c/y', 'c/z', 'cx',
              'cz', 'kx', 'kz1', 'k/y', 'k/z1', 'sq', 'gq', 'tx', 'ty', 'tz',
              'x', 'z2', 'p3']


def multi_deck(rng, force_tilted_torus):
    from props import c02
    n_surf = rng.choice([2, 3, 3])
    ids = sorted(rng.sample(range(1, 60), n_surf))
    surfaces, transforms = [], {}
    for k, sid in enumerate(ids):
        tag = rng.choice(MULTI_TAGS)
        tr = None
        if force_tilted_torus and k == 0:
            tag = rng.choice(['tx', 'ty', 'tz'])
        mn, prm = c02.gen_card(rng, tag)
        while not c02.admissible(mn, prm):
            mn, prm = c02.gen_card(rng, tag)
        if (force_tilted_torus and k == 0) or rng.random() < 0.35:
            tr = 70 + k
            transforms[tr] = deckmod.random_tr(
                rng, translate_only=False if (force_tilted_torus and k == 0)
                else None)
            if force_tilted_torus and k == 0:
                # an oblique axis for sure: 30 degrees about an axis that is
                # not the torus' own
                axis = {'tx': 1, 'ty': 2, 'tz': 0}[mn]
                transforms[tr] = deckmod.make_tr(
                    [rng.choice([0, 1, -2, 0.5]) for _ in range(3)],
                    deckmod.rotation(axis, rng.choice([30, 60, -45, 15])),
                    rng.random() < 0.4)
        if mn == 'p' and len(prm) == 9 and c02.in_p3_band(prm):
            continue
        surfaces.append({'id': sid, 'mn': mn, 'params': [float(v) for v in prm],
                         'tr': tr, 'bc': ''})
    outer = 99
    surfaces.append({'id': outer, 'mn': 'so', 'params': [64.0], 'tr': None,
                     'bc': ''})
    S = deckmod.S
    cells = []
    sids = [s['id'] for s in surfaces[:-1]]
    for cid, signs in enumerate(itertools.product((-1, 1), repeat=len(sids)), 1):
        expr = ('*',) + tuple(S(sg * sid) for sg, sid in zip(signs, sids)) \
            + (S(-outer),)
        cells.append({'id': cid, 'mat': 0, 'rho': None, 'expr': expr,
                      'imp': {'n': 1}})
    cells.append({'id': 900, 'mat': 0, 'rho': None, 'expr': S(outer),
                  'imp': {'n': 0}})
    return {'title': 'C02 several surfaces', 'cells': cells,
            'surfaces': surfaces, 'transforms': transforms}


def ref_deck(dk):
    '''The deck handed to the reference semantics (same reading of the cards
    as the single-card sweep: five-entry tori, exact three-point planes).'''
    from props import c02
    out = dict(dk)
    out['surfaces'] = []
    for s in dk['surfaces']:
        mn, prm = c02.ref_params(s['mn'], s['params'])
        out['surfaces'].append(dict(s, mn=mn, params=prm))
    return out


def run_multi(res, rng, quick):
    n = 30 if quick else 300
    n_fail = 0
    for k in range(n):
        dk = multi_deck(rng, force_tilted_torus=(k % 2 == 0))
        text = deckmod.render(dk)
        res.seen(('multi', text), nontrivial=True)
        conv = impl.convert(text)
        if not conv.ok or conv.text is None:
            res.count('multi:rejected')
            res.violation('impl-violation',
                          f'multi-surface deck is not converted: {conv.exc} '
                          f'{(conv.msg or "")[:200]}',
                          {'input': {'deck': text}}, found_input=True)
            continue
        try:
            t4 = impl.T4File(conv.text)
            pts = geomcheck.sample_points(rng, 60 if quick else 150, half=6.0)
            checked, failures = geomcheck.compare(ref_deck(dk), t4, pts,
                                                  eps=1e-7)
        except (ValueError, ZeroDivisionError) as exc:
            res.count('multi:oracle-error')
            res.violation('harness-error', f'multi-surface oracle: {exc}',
                          {'input': {'deck': text}}, found_input=False)
            continue
        res.count('multi:' + ('ok' if not failures and not t4.errors
                              else 'wrong'))
        if failures or t4.errors:
            n_fail += 1
            if n_fail <= 6:
                res.violation(
                    'impl-violation',
                    'several surfaces in one deck (read back from the written '
                    f'file): {str(failures[:2] or t4.errors[:2])[:300]}',
                    {'input': {'deck': text},
                     'expected': 'every point in the cell of its sign pattern',
                     'observed': {'failures': failures[:3],
                                  'file_errors': t4.errors[:3],
                                  'checked': checked}},
                    found_input=True)
    res.obligation(f'sweep: {n} decks with several surface cards (a TR-tilted '
                   'torus first in every other one), read back from the '
                   'written file', True, f'{n_fail} failing decks')
