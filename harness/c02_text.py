'''C02 — the text-to-card path: generators and ties for Card.content(),
surfacecard.split, datacard.to_float, surfaces.get_surfaces and the dispatch of
to_surfaces_mcnp (model: coq/C02/Text.v).'''
import contextlib
import io

import common
from common import clist, cfloat, copt, cpair, cn, cz

WS = [' ', '  ', '\t', ' \t ', '   ']
MNEMS = ['px', 'py', 'pz', 'p', 'so', 's', 'sx', 'sy', 'sz', 'c/x', 'c/y',
         'c/z', 'cx', 'cy', 'cz', 'kx', 'ky', 'kz', 'k/x', 'k/y', 'k/z', 'sq',
         'gq', 'tx', 'ty', 'tz', 'x', 'y', 'z', 'c', 'k', 't']
OTHER_TYPES = ['rpp', 'box', 'SPH', 'qq', 'pxx', 'c/w', '/', 'kk/x', 'arb',
               'wed', 'zz']


def cstr_any(text):
    '''A Coq string term for any ASCII text (control characters included).'''
    parts, run = [], ''
    for ch in text:
        o = ord(ch)
        if 32 <= o < 127:
            run += '""' if ch == '"' else ch
        else:
            if o > 127:
                raise ValueError('non-ASCII text')
            if run:
                parts.append(f'"{run}"')
                run = ''
            parts.append(f'(String (Ascii.ascii_of_N {o}) "")')
    if run or not parts:
        parts.append(f'"{run}"')
    return '(' + ' ++ '.join(parts) + ')%string'


def mixed_case(rng, word):
    mode = rng.random()
    if mode < 0.4:
        return word
    if mode < 0.7:
        return word.upper()
    return ''.join(c.upper() if rng.random() < 0.5 else c for c in word)


def spell(rng, value):
    '''One of the spellings of a real number that MCNP (and to_float) read.
    At most 12 significant digits and a small exponent, so that the model's
    mantissa x power-of-ten evaluation is exact.'''
    mode = rng.random()
    if value == int(value) and abs(value) < 1e6 and mode < 0.3:
        return rng.choice(['%d', '%d.', '%d.0', '+%d'
                           if value >= 0 else '%d']) % int(value)
    if mode < 0.55:
        return repr(float(value))
    mant, exp = ('%.6e' % value).split('e')
    mant = mant.rstrip('0')
    exp = int(exp)
    form = rng.choice(['e', 'E', 'd', 'D', 'sign', 'e+', 'dsign'])
    if form in ('e', 'E', 'd', 'D'):
        return f'{mant}{form}{exp}'
    if form == 'e+':
        return f'{mant}e{exp:+d}'
    if form == 'dsign':
        return f'{mant}d{exp:+d}'
    return f'{mant}{exp:+d}'               # 6.40875-2


BAD_TOKENS = ['1.5d', '--1', '1e', '.', '+', '1..2', '1.5e3d2', '1-', 'd5',
              'abc', '1.5x', '1e+', '-', '+-1', '1d+', '.e5', 'e5', '1.2.3',
              '5+', '1,5', '1.5e3-2', '0x10']
GOOD_TOKENS = ['1', '-1', '+1', '1.', '.5', '-.5', '+.25', '0', '-0', '0.0',
               '1e3', '1E3', '1e+3', '1e-3', '1.e2', '.5e1', '1.5d3', '1.5D3',
               '1.5d+3', '1.5d-3', '1.5+3', '6.40875-2', '-6.40875-2',
               '+1.5+3', '1-5', '1+0', '.5-1', '5.d0', '007', '00.50',
               '123456789012', '1.25e-10', '9.5E+12']


def gen_params(rng, mn):
    from props import c02
    tags = [t for t in c02.PROPERTY_MNEMS + ['c', 'k']
            if t.rstrip('125') == mn or t == mn]
    if not tags:
        return [c02.dy(rng) for _ in range(rng.randint(1, 6))]
    _, prm = c02.gen_card(rng, rng.choice(tags))
    return prm


def gen_text(rng):
    '''(text, kind): a surface card as one line.'''
    mode = rng.random()
    name = str(rng.choice([rng.randint(1, 99), rng.randint(100, 99999)]))
    if rng.random() < 0.1:
        name = '0' * rng.randint(1, 2) + name
    flags = rng.choice(['', '', '', '*', '+', '*+', '+*'])
    lead = rng.choice(['', '', ' ', '   ', '\t'])
    if mode < 0.72:
        mn = rng.choice(MNEMS)
        prm = gen_params(rng, mn)
        toks = [spell(rng, v) for v in prm]
        kind = 'card'
    elif mode < 0.80:
        mn = rng.choice(OTHER_TYPES)
        toks = [spell(rng, rng.randint(-5, 5)) for _ in range(rng.randint(1, 4))]
        kind = 'type'
    elif mode < 0.90:
        mn = rng.choice(MNEMS)
        toks = [spell(rng, v) for v in gen_params(rng, mn)]
        k = rng.randrange(len(toks) + 1)
        toks.insert(k, rng.choice(BAD_TOKENS))
        kind = 'badtoken'
    else:
        kind = 'shape'
        return rng.choice([
            '', ' ', '1', '1 px', '1 px ', '1px 3', '1 2px 3', '1 -2 px 3',
            '1 +-2  px 3', '1 2 3 px 4', 'a px 3', '1 px3', '1 p x 3',
            '*1 so 5', '+ 1 so 5', '1 so 5 extra words', '1 c/x 1 2 3',
            '1 C/X 1 2 3', '12 3 SO 5', '1 2 so 5', '1 so\t5', '1 so 5 ',
            '  7   kz   0  1   -1  ', '1 2-px 3', '1 so  ', '-1 so 5',
            '1.5 so 5', '1 so 5\n', '1 so 5\n6']), kind
    body = lead + flags + name + rng.choice(WS)
    if rng.random() < 0.12:
        body += rng.choice(['3', '-3', '+12', '07', '-']) + rng.choice(['', ' ', '  '])
    body += mixed_case(rng, mn) + rng.choice(WS)
    body += rng.choice(WS).join(toks)
    if rng.random() < 0.2:
        body += rng.choice([' ', '  ', '\t'])
    return body, kind


def gen_lines(rng):
    '''A card as the list of lines Card holds: continuation lines, in-line
    comments.'''
    text, _ = gen_text(rng)
    words = text.split(' ')
    lines, cur = [], ''
    for word in words:
        cur = word if not cur else cur + ' ' + word
        if rng.random() < 0.25:
            mode = rng.random()
            if mode < 0.3:
                # continuation announced by & : the next line starts in
                # column 1 (only the blank inserted by content() separates
                # the two words)
                lines.append(cur + rng.choice(['&', '& more', '&$']))
                cur = ''
                continue
            if mode < 0.65:
                cur += rng.choice([' $ a comment', '$x', ' & ', '   $ 1 2 3'])
            lines.append(cur)
            cur = '     '
    lines.append(cur)
    return lines


class FakeInput:
    def __init__(self, cards):
        self._cards = cards

    def cards(self, blocks=None, skipcomments=True):
        yield from self._cards


def exc_name(exc):
    from props import c02
    if type(exc).__name__ == 'AttributeError':
        return 'EAttr'
    return c02.exc_class(exc)


def impl_split(text):
    from MIP.mip import surfacecard
    from props import c02
    try:
        with c02.traced():
            return tuple('<None>' if g is None else g
                         for g in surfacecard.split(text))
    except AttributeError:
        return None


def impl_to_float(token):
    from MIP.mip.datacard import to_float
    from props import c02
    try:
        with c02.traced():
            return float(to_float(token))
    except ValueError:
        return None


def impl_content(lines):
    from MIP.mip.main import Card
    from props import c02
    card = Card(lines=list(lines), position=0, type='s')
    if not hasattr(card, 'content'):    # helper renamed: same normal form
        import re
        return re.sub(r'\s+', ' ', ' '.join(lines))
    with c02.traced():
        return card.content()


def impl_parse(text):
    '''get_surfaces on a one-card input whose content() is `text`.'''
    from MIP.mip.main import Card
    from MIP.geom.surfaces import get_surfaces
    from props import c02
    card = Card(lines=[text], position=0, type='s')
    try:
        with contextlib.redirect_stdout(io.StringIO()), c02.traced():
            parsed = get_surfaces(FakeInput([card]))
    except Exception as exc:            # pylint: disable=broad-except
        return ('err', exc_name(exc))
    (name, (bc, tr, typ, params)), = parsed.items()
    tr = '<None>' if tr is None else tr     # a group that did not take part
    return ('ok', bc, name, tr, typ, [float(v) for v in params])


def impl_text_card(text):
    '''The whole path for one card text: get_surfaces, to_surfaces_mcnp,
    convert_mcnp_surface.'''
    from t4_geom_convert.Kernel.FileHandlers.Parser.ParseMCNPSurface import \
        to_surfaces_mcnp
    from t4_geom_convert.Kernel.Surface.ConversionSurfaceMCNPToT4 import \
        convert_mcnp_surface
    from props import c02
    parsed = impl_parse(text)
    if parsed[0] == 'err':
        return parsed, None
    _, bc, name, tr, typ, params = parsed
    try:
        with contextlib.redirect_stdout(io.StringIO()), c02.traced():
            surfs = to_surfaces_mcnp(name, (bc, tr, typ, params), {})
            coll = convert_mcnp_surface(name, surfs)
    except Exception as exc:            # pylint: disable=broad-except
        return parsed, ('err', exc_name(exc))
    out = []
    for sub_surf, side in coll.surfs:
        if sub_surf.transform is not None:
            return parsed, ('err', 'OTHER:transform')
        out.append((sub_surf.type_surface.name,
                    [float(v) for v in sub_surf.param_surface], int(side)))
    return parsed, ('ok', out)


def coq_parse_out(parsed):
    from props import c02
    if parsed[0] == 'err':
        return f'(Err {parsed[1]})'
    _, bc, name, tr, typ, params = parsed
    return '(Ok ' + cpair(cstr_any(bc), cn(name), cstr_any(tr), cstr_any(typ),
                          c02.coq_floats(params)) + ')'


MACROS = {'box', 'rpp', 'sph', 'rcc', 'hex', 'rhp', 'rec', 'trc', 'ell',
          'wed', 'arb'}


def run_ties(res, rng, quick):
    from props import c02
    header = c02.HEADER.replace('C02.Exec.', 'C02.Text C02.Exec.') \
        + 'From Coq Require Import String.\n'
    n_text = 300 if quick else 3500
    # helper-level ties are skipped (and recorded) when a helper was renamed or
    # removed; the public entry point get_surfaces (tie:parse, tie:textcard)
    # exercises the same code and stays mandatory
    import importlib

    def present(modname, *path):
        try:
            obj = importlib.import_module(modname)
            for name in path:
                obj = getattr(obj, name)
            return True
        except Exception:               # pylint: disable=broad-except
            res.extra['skipped'] = res.extra.get('skipped', []) + [
                f'helper {modname}.{".".join(path)} not present']
            return False
    have_split = present('MIP.mip.surfacecard', 'split')
    have_to_float = present('MIP.mip.datacard', 'to_float')
    have_content = present('MIP.mip.main', 'Card', 'content')

    # ---- content() ----
    cases = []
    for _ in range((80 if quick else 800) if have_content else 0):
        lines = gen_lines(rng)
        out = impl_content(lines)
        res.seen(('content', tuple(lines)))
        cases.append(cpair(clist(cstr_any(l) for l in lines), cstr_any(out)))
    bad, errs = common.run_case_files('c02_content', header, 'content_case',
                                      'check_content', cases) \
        if cases else ([], [])
    res.obligation(f'tie:content ({len(cases)} cards as line lists: model '
                   'content = Card.content())', not bad and not errs,
                   f'{len(bad)} disagreements {errs[:1]}')
    if bad or errs:
        res.violation('correspondence', 'Card.content() differs from the model',
                      {'theorem_or_correspondence': 'tie:content',
                       'input': {'n': len(bad)}}, found_input=False)

    # ---- texts ----
    texts = [gen_text(rng) for _ in range(n_text)]
    texts += [(t, 'corpus') for t in (
        '1 px 3', '*2 PY -1.5', '+3 so 6.40875-1', '  4   kz 0 1.0d0 -1',
        '5 c/x 1 2 3', '6 P 0 0 0 1 0 0 0 1 0', '7 y 2 1 0 0', '8 x 0 0 1 1',
        '9 sq -1 -1 -1 0 0 0 1 0 0 0', '10 3 so 5', '11 tz 1 2 3 4 1',
        '12 K/Y 1 2 3 .25 +1', '13 gq 1 2 3 .5 -.25 .75 -4 1 -2 -3')]
    split_cases, parse_cases, card_cases, card_meta = [], [], [], []
    for text, kind in texts:
        res.seen(('text', text), nontrivial=True)
        res.count('text:' + kind)
        if have_split:
            grp = impl_split(text)
            split_cases.append(cpair(cstr_any(text), copt(
                grp, lambda g: cpair(*(cstr_any(x) for x in g)))))
        content = impl_content([text])
        parsed, coll = impl_text_card(content)
        parse_cases.append(cpair(cstr_any(content), coq_parse_out(parsed)))
        if parsed[0] == 'err':
            res.count('text-impl:' + parsed[1])
            card_cases.append(cpair(cstr_any(content), f'(Err {parsed[1]})'))
            card_meta.append((content, parsed))
            continue
        _, bc, name, tr, typ, params = parsed
        if tr.strip() or typ in MACROS or '\n' in content:
            res.count('text-impl:outside-model')
            continue                       # TR cards (C04), macrobodies (C03)
        if coll[0] == 'ok' and c02.model_skips(typ, params, coll):
            continue
        if coll[0] == 'err' and coll[1].startswith('OTHER'):
            res.violation('correspondence',
                          f'text {text!r}: exception class outside the model '
                          f'{coll}', {'input': {'text': text},
                                      'theorem_or_correspondence':
                                      'tie:text-card'}, found_input=False)
            continue
        res.count('text-impl:' + (coll[1] if coll[0] == 'err' else 'ok'))
        card_cases.append(cpair(cstr_any(content), c02.coq_coll_out(coll)))
        card_meta.append((content, coll))
    for name, ctype, cfun, cases, what in (
            ('c02_split', 'split_case', 'check_split', split_cases,
             'model split_surface = surfacecard.split (groups or None)'),
            ('c02_parse', 'parse_case', 'check_parse', parse_cases,
             'model parse_surface_card = get_surfaces on Card.content()'),
            ('c02_textcard', 'textcard_case', 'check_textcard', card_cases,
             'model convert_text = get_surfaces + to_surfaces_mcnp + '
             'convert_mcnp_surface')):
        if not cases:
            continue
        bad, errs = common.run_case_files(name, header, ctype, cfun, cases)
        tie = 'tie:' + name[4:]
        res.obligation(f'{tie} ({len(cases)} card texts: {what})',
                       not bad and not errs,
                       f'{len(bad)} disagreements {errs[:1]}')
        for idx in bad[:6]:
            src = texts[idx][0] if name != 'c02_textcard' else card_meta[idx]
            res.violation('correspondence',
                          f'{tie}: model and implementation disagree on '
                          f'{src!r}', {'input': {'text': str(src)},
                                       'theorem_or_correspondence': tie},
                          found_input=False)
        if errs and not bad:
            res.violation('correspondence', f'{tie}: {errs[:1]}',
                          {'theorem_or_correspondence': tie},
                          found_input=False)

    # ---- to_float on single tokens ----
    if not have_to_float:
        return
    toks = list(GOOD_TOKENS) + list(BAD_TOKENS)
    for _ in range(150 if quick else 1500):
        toks.append(spell(rng, rng.choice([c02.dy(rng), c02.dy(rng) * 1e3,
                                           c02.dy(rng) * 1e-4,
                                           float(rng.randint(-999, 999))])))
    cases = []
    for tok in toks:
        val = impl_to_float(tok)
        res.seen(('token', tok))
        res.count('token:' + ('ok' if val is not None else 'ValueError'))
        cases.append(cpair(cstr_any(tok), copt(val, cfloat)))
    bad, errs = common.run_case_files('c02_tofloat', header, 'tofloat_case',
                                      'check_tofloat', cases)
    res.obligation(f'tie:to_float ({len(cases)} tokens incl. Fortran '
                   'spellings and malformed ones)', not bad and not errs,
                   f'bad={[toks[i] for i in bad[:5]]} {errs[:1]}')
    if bad or errs:
        res.violation('correspondence',
                      f'to_float differs from the model on '
                      f'{[toks[i] for i in bad[:5]]} {errs[:1]}',
                      {'theorem_or_correspondence': 'tie:to_float',
                       'input': {'tokens': [toks[i] for i in bad[:10]]}},
                      found_input=False)


# ---- the linked pipeline: a card with a TR number (coq/C02/LinkC04.v) ----

LINK_TAGS = ['px', 'py', 'pz', 'p', 'so', 's', 'sx', 'sy', 'sz', 'c/x', 'c/y',
             'c/z', 'cx', 'cy', 'cz', 'kx', 'ky', 'kz', 'k/x', 'k/y', 'k/z',
             'kx1', 'ky1', 'kz1', 'k/x1', 'k/y1', 'k/z1', 'sq', 'gq',
             'p3', 'x', 'y', 'z', 'x2', 'y2', 'z2', 'tx', 'ty', 'tz', 'tx5']


def gen_tr(rng):
    '''Twelve entries (origin, then the rows of an orthonormal matrix with
    exactly representable entries): signed permutations and 3-4-5 rotations.'''
    origin = [float(rng.choice([0, 1, -2, 0.5, 3.25])) for _ in range(3)]
    perm = rng.sample(range(3), 3)
    rows = []
    for k in range(3):
        row = [0.0, 0.0, 0.0]
        row[perm[k]] = rng.choice([1.0, -1.0])
        rows.append(row)
    if rng.random() < 0.4:
        c, s = rng.choice([(0.6, 0.8), (0.8, -0.6), (-0.6, 0.8), (0.28, 0.96)])
        i, j = rng.sample(range(3), 2)
        ri = [c * rows[i][k] + s * rows[j][k] for k in range(3)]
        rj = [-s * rows[i][k] + c * rows[j][k] for k in range(3)]
        rows[i], rows[j] = ri, rj
    return origin + [v for row in rows for v in row]


def impl_tr_card(mn, prm, tr):
    '''to_surface_mcnp with a transform_id + convert_mcnp_surface.'''
    from t4_geom_convert.Kernel.FileHandlers.Parser.ParseMCNPSurface import \
        to_surface_mcnp
    from t4_geom_convert.Kernel.Surface.ConversionSurfaceMCNPToT4 import \
        convert_mcnp_surface
    from t4_geom_convert.Kernel.Surface.ESurfaceTypeMCNP import string_to_enum
    try:
        with contextlib.redirect_stdout(io.StringIO()):
            surf = to_surface_mcnp(1, '', '5', string_to_enum(mn),
                                   [float(v) for v in prm], {5: list(tr)})
            coll = convert_mcnp_surface(1, [(surf, 1)])
    except Exception:                   # pylint: disable=broad-except
        return None
    out = []
    for sub_surf, side in coll.surfs:
        if sub_surf.transform is not None:
            return 'transform'
        out.append((sub_surf.type_surface.name,
                    [float(v) for v in sub_surf.param_surface], int(side)))
    return out


def run_link_tie(res, rng, quick):
    from props import c02
    header = c02.HEADER.replace('C02.Exec.', 'C02.Text C02.LinkC04 C02.Exec.')
    cases, meta = [], []
    for k in range(160 if quick else 1600):
        tag = LINK_TAGS[k % len(LINK_TAGS)]      # every form, evenly
        mn, prm = c02.gen_card(rng, tag)
        if rng.random() < 0.08:
            prm = prm[:-1] if rng.random() < 0.5 else prm + [1.0]
        tr = gen_tr(rng)
        out = impl_tr_card(mn, prm, tr)
        res.seen(('trcard', mn, tuple(prm), tuple(tr)), nontrivial=True)
        res.count('trcard:' + ('raised' if out is None else tag))
        if out == 'transform':
            if all(v in (0.0, 1.0, -1.0) for v in tr[3:]):
                # a signed permutation keeps the axis on a coordinate axis:
                # the linked model writes TORUSX/Y/Z without TRANSFORM
                res.violation('correspondence',
                              f'tie:link-C04: card {mn} {prm} under TR {tr}: '
                              'the implementation writes a TRANSFORM although '
                              'the moved axis is a coordinate axis',
                              {'input': {'mnemonic': mn, 'params': prm,
                                         'tr': tr},
                               'theorem_or_correspondence': 'tie:link-C04'},
                              found_input=False)
            continue
        if out and any(abs(sd) > 1 for _, _, sd in out):
            continue
        exp = copt(out, lambda o: clist(
            cpair(ty, c02.coq_floats(ps), cz(sd)) for ty, ps, sd in o))
        cases.append(cpair(c02.coq_floats(tr), c02.MNEM[mn],
                           c02.coq_floats(prm), exp))
        meta.append((mn, prm, tr, out))
    bad, errs = common.run_case_files('c02_trcard', header, 'trcard_case',
                                      'check_trcard', cases)
    res.obligation(f'tie:link-C04 ({len(cases)} cards with a TR number: C02 '
                   'to_surface_mcnp + bridge to_ms + C04 transformation/'
                   'convert = to_surface_mcnp(transform_id) + '
                   'convert_mcnp_surface)', not bad and not errs,
                   f'{len(bad)} disagreements {errs[:1]}')
    for idx in bad[:6]:
        res.violation('correspondence',
                      f'tie:link-C04: linked model and implementation '
                      f'disagree on {meta[idx]!r}'[:600],
                      {'input': {'mnemonic': meta[idx][0],
                                 'params': meta[idx][1], 'tr': meta[idx][2]},
                       'observed': str(meta[idx][3]),
                       'theorem_or_correspondence': 'tie:link-C04'},
                      found_input=False)
    if errs and not bad:
        res.violation('correspondence', f'tie:link-C04: {errs[:1]}',
                      {'theorem_or_correspondence': 'tie:link-C04'},
                      found_input=False)


# ---- macrobody card texts (coq/C02/LinkC03.v): C02's scanner + C03's body_t4 ----

def gen_body_text(rng, tr_number=None):
    import c03_gen as G
    mn, prm = rng.choice([
        lambda: ('box', G.gen_box(rng)), lambda: ('rpp', G.gen_rpp(rng)),
        lambda: ('sph', G.gen_sph(rng)), lambda: ('rcc', G.gen_rcc(rng)),
        lambda: ('rhp', G.gen_rhp(rng)), lambda: ('hex', G.gen_rhp(rng, False)),
        lambda: ('rec', G.gen_rec(rng)), lambda: ('trc', G.gen_trc(rng)),
        lambda: ('ell', G.gen_ell(rng)), lambda: ('wed', G.gen_wed(rng)),
        lambda: ('arb', G.gen_arb(rng))])()
    prm = [float(v) for v in prm]
    if mn == 'arb':
        toks = [spell(rng, v) for v in prm[:24]] + ['%d' % int(v) for v in prm[24:]]
    else:
        toks = [spell(rng, v) for v in prm]
    if rng.random() < 0.06:
        toks = toks[:-1] if rng.random() < 0.5 else toks + ['1']
    name = str(rng.randint(1, 9999))
    trpart = '' if tr_number is None else str(tr_number) + rng.choice(WS)
    text = (rng.choice(['', ' ']) + rng.choice(['', '*', '+']) + name
            + rng.choice(WS) + trpart + mixed_case(rng, mn) + rng.choice(WS)
            + rng.choice(WS).join(toks))
    return text


def impl_body_text(text, trs=None):
    '''get_surfaces + to_surfaces_mcnp (macrobody branch) + convert_mcnp_surface.'''
    from t4_geom_convert.Kernel.FileHandlers.Parser.ParseMCNPSurface import \
        to_surfaces_mcnp
    from t4_geom_convert.Kernel.Surface.ConversionSurfaceMCNPToT4 import \
        convert_mcnp_surface
    parsed = impl_parse(impl_content([text]))
    if parsed[0] == 'err':
        return None
    _, bc, name, tr, typ, params = parsed
    try:
        with contextlib.redirect_stdout(io.StringIO()):
            surfs = to_surfaces_mcnp(name, (bc, tr, typ, params), trs or {})
            coll = convert_mcnp_surface(name, surfs)
    except Exception:                   # pylint: disable=broad-except
        return None
    out = []
    for sub_surf, side in coll.surfs:
        if sub_surf.transform is not None:
            return 'transform'
        out.append((sub_surf.type_surface.name,
                    [float(v) for v in sub_surf.param_surface], int(side)))
    return out


def run_body_tie(res, rng, quick):
    from props import c02
    header = c02.HEADER.replace('C02.Exec.', 'C02.Text C02.LinkC03 C02.Exec.') \
        + 'From Coq Require Import String.\n'
    cases, meta = [], []
    for _ in range(120 if quick else 1500):
        text = gen_body_text(rng)
        content = impl_content([text])
        out = impl_body_text(text)
        res.seen(('bodytext', text), nontrivial=True)
        res.count('bodytext:' + ('raised' if out is None else 'ok'))
        if out == 'transform' or (out and any(
                v != v or abs(v) == float('inf') for _, ps, _ in out for v in ps)):
            continue
        exp = copt(out, lambda o: clist(
            cpair(ty, c02.coq_floats(ps), cz(sd)) for ty, ps, sd in o))
        cases.append(cpair(cstr_any(content), exp))
        meta.append((text, out))
    bad, errs = common.run_case_files('c02_bodytext', header, 'bodytext_case',
                                      'check_bodytext', cases)
    res.obligation(f'tie:link-C03 ({len(cases)} macrobody card texts: C02 '
                   'scanner + C03 body_t4 = get_surfaces + to_surfaces_mcnp + '
                   'convert_mcnp_surface)', not bad and not errs,
                   f'{len(bad)} disagreements {errs[:1]}')
    for idx in bad[:6]:
        res.violation('correspondence',
                      f'tie:link-C03: linked model and implementation disagree '
                      f'on {meta[idx]!r}'[:600],
                      {'input': {'text': meta[idx][0]},
                       'observed': str(meta[idx][1]),
                       'theorem_or_correspondence': 'tie:link-C03'},
                      found_input=False)
    if errs and not bad:
        res.violation('correspondence', f'tie:link-C03: {errs[:1]}',
                      {'theorem_or_correspondence': 'tie:link-C03'},
                      found_input=False)


def run_body_tr_tie(res, rng, quick):
    '''Macrobody card texts WITH a TR number: the with-TR half of LinkC03.v.'''
    from props import c02
    header = c02.HEADER.replace('C02.Exec.', 'C02.Text C02.LinkC03 C02.Exec.') \
        + 'From Coq Require Import String.\n'
    cases, meta = [], []
    for _ in range(100 if quick else 1200):
        text = gen_body_text(rng, tr_number=5)
        tr = gen_tr(rng)
        content = impl_content([text])
        out = impl_body_text(text, {5: list(tr)})
        res.seen(('bodytexttr', text, tuple(tr)), nontrivial=True)
        res.count('bodytexttr:' + ('raised' if out is None else 'ok'))
        if out == 'transform' or (out and any(
                v != v or abs(v) == float('inf') for _, ps, _ in out for v in ps)):
            continue
        exp = copt(out, lambda o: clist(
            cpair(ty, c02.coq_floats(ps), cz(sd)) for ty, ps, sd in o))
        cases.append(cpair(c02.coq_floats(tr), cstr_any(content), exp))
        meta.append((text, tr, out))
    bad, errs = common.run_case_files('c02_bodytexttr', header,
                                      'bodytexttr_case', 'check_bodytexttr',
                                      cases)
    res.obligation(f'tie:link-C03-TR ({len(cases)} macrobody card texts with a '
                   'TR number: C02 scanner + C03 body_t4 under the '
                   'transformation = get_surfaces + to_surfaces_mcnp(TR) + '
                   'convert_mcnp_surface)', not bad and not errs,
                   f'{len(bad)} disagreements {errs[:1]}')
    for idx in bad[:6]:
        res.violation('correspondence',
                      f'tie:link-C03-TR: linked model and implementation '
                      f'disagree on {meta[idx]!r}'[:600],
                      {'input': {'text': meta[idx][0], 'tr': meta[idx][1]},
                       'observed': str(meta[idx][2]),
                       'theorem_or_correspondence': 'tie:link-C03-TR'},
                      found_input=False)
    if errs and not bad:
        res.violation('correspondence', f'tie:link-C03-TR: {errs[:1]}',
                      {'theorem_or_correspondence': 'tie:link-C03-TR'},
                      found_input=False)
