'''Shared machinery of the checks: Coq build, Print Assumptions audit, hygiene
grep, generated correspondence files, replays, known findings, evidence.'''
import hashlib
import json
import os
import re
import subprocess
import sys
import time
from concurrent.futures import ThreadPoolExecutor
from pathlib import Path

VERIF = Path(__file__).resolve().parent.parent
REPO = Path(os.environ.get('T4GC_REPO', '/repo'))
COQ = VERIF / 'coq'
GEN = COQ / 'generated'
EVID = Path(os.environ.get('T4GC_EVIDENCE_DIR', VERIF / 'evidence'))
REPLAYS = VERIF / 'replays'
COQ_FLAGS = ['-Q', str(COQ), 'T4V', '-w',
             '-notation-overridden,-deprecated-hint-without-locality,'
             '-inexact-float']

# axioms of the standard library that a theorem may depend on (DESIGN §7)
ALLOWED_AXIOMS = {
    'ClassicalDedekindReals.sig_forall_dec',
    'ClassicalDedekindReals.sig_not_dec',
    'FunctionalExtensionality.functional_extensionality_dep',
    'Classical_Prop.classic',
}

HYGIENE = re.compile(
    r'\b(Admitted|admit|Axiom|Axioms|Parameter|Parameters|Conjecture|'
    r'Conjectures|Unset\s+Guard|bypass_check|Admit\s+Obligations|'
    r'type-in-type|impredicative-set)\b|Unset\s+(Positivity|Universe)\s+Checking')


def setup_impl():
    '''Make /repo importable and install the TatSu shim.'''
    for path in (str(REPO), str(VERIF / 'harness')):
        if path not in sys.path:
            sys.path.insert(0, path)
    import shim_peg
    shim_peg.install()


# --------------------------------------------------------------------------
# Coq side
# --------------------------------------------------------------------------

def sh(cmd, timeout, cwd=None):
    try:
        proc = subprocess.run(cmd, cwd=cwd, capture_output=True, text=True,
                              timeout=timeout)
        return proc.returncode, proc.stdout + proc.stderr
    except subprocess.TimeoutExpired as exc:
        out = (exc.stdout or b'')
        if isinstance(out, bytes):
            out = out.decode('utf-8', 'replace')
        return 124, out + '\nTIMEOUT'


def coq_sources():
    return sorted(p for p in COQ.rglob('*.v') if 'generated' not in p.parts)


def prop_closure(prop_id):
    '''Source files the property's theorems and executable model depend on:
    coq/<ID>/*.v, Properties/<ID>.v and, transitively, every T4V file they
    Require.  Falls back to the whole development when a Require cannot be
    resolved (fail closed).'''
    allsrc = {str(p.relative_to(COQ))[:-2].replace('/', '.'): p
              for p in coq_sources()}
    todo = [p for p in coq_sources()
            if p.parent.name == prop_id
            or (p.parent.name == 'Properties' and p.stem == prop_id)]
    seen = {}
    while todo:
        path = todo.pop()
        if path in seen:
            continue
        seen[path] = True
        text = re.sub(r'\(\*.*?\*\)', ' ', path.read_text(), flags=re.S)
        dirs = {k.split('.')[0] for k in allsrc}
        for m in re.finditer(r'(?:From\s+(\S+)\s+)?Require\s+(?:Import\s+|'
                             r'Export\s+)?(.*?)\.(?=\s|$)', text, flags=re.S):
            root = m.group(1)
            for tok in m.group(2).split():
                name = tok[4:] if tok.startswith('T4V.') else tok
                if root not in (None, 'T4V') and not tok.startswith('T4V.'):
                    continue
                if name in allsrc:
                    todo.append(allsrc[name])
                elif tok.startswith('T4V.') or (root == 'T4V') \
                        or name.split('.')[0] in dirs:
                    return coq_sources()
    return sorted(seen)


def build_coq(jobs=16, timeout=3000, prop_id=None):
    '''Full (.vo) incremental build.  With prop_id: only that property's
    files and everything they depend on (make resolves the dependencies), so
    a broken proof of another property cannot mask or break this one.'''
    files = [str(p.relative_to(COQ)) for p in coq_sources()]
    rc, out = sh(['coq_makefile', '-f', '_CoqProject', '-o', 'Makefile']
                 + files, 120, cwd=COQ)
    if rc != 0:
        return False, out
    targets = []
    if prop_id:
        targets = [f[:-2] + '.vo' for f in files
                   if f.startswith(prop_id + '/')
                   or f == f'Properties/{prop_id}.v']
    rc, out = sh(['make', f'-j{jobs}'] + targets, timeout, cwd=COQ)
    return rc == 0, out


def hygiene(prop_id=None):
    '''Forbidden vernacular anywhere in the files the property depends on
    (comments are stripped first).'''
    hits = []
    for path in (prop_closure(prop_id) if prop_id else coq_sources()):
        text = path.read_text()
        text = re.sub(r'\(\*.*?\*\)', lambda m: ' ' * len(m.group(0)), text,
                      flags=re.S)
        for num, line in enumerate(text.splitlines(), 1):
            if HYGIENE.search(line):
                hits.append(f'{path.relative_to(VERIF)}:{num}: {line.strip()}')
    return hits


def print_assumptions(prop_id):
    '''Re-check Properties/<id>.v and return {theorem: [axioms]} from its
    Print Assumptions output, plus the list of theorem names stated there.'''
    path = COQ / 'Properties' / f'{prop_id}.v'
    text = path.read_text()
    theorems = re.findall(r'^\s*(?:Theorem|Lemma|Corollary)\s+(\w+)', text,
                          flags=re.M)
    printed = re.findall(r'^\s*Print Assumptions\s+(\w+)\s*\.', text,
                         flags=re.M)
    rc, out = sh(['coqc'] + COQ_FLAGS + [str(path)], 1200, cwd=COQ)
    if rc != 0:
        return None, theorems, out
    # split output into one block per Print Assumptions, in order
    blocks = re.split(r'(?m)^(?=Closed under the global context|Axioms:)',
                      out)
    blocks = [b for b in blocks
              if b.startswith('Closed under') or b.startswith('Axioms:')]
    result = {}
    for name, block in zip(printed, blocks):
        if block.startswith('Closed under'):
            result[name] = []
        else:
            axioms = re.findall(r'(?m)^([A-Za-z_][\w.]*)\s*:', block)
            axioms = [a for a in axioms if a != 'Axioms']
            result[name] = axioms
    if len(blocks) != len(printed):
        return None, theorems, ('Print Assumptions output does not match the '
                                'number of commands\n' + out)
    return result, theorems, out


# ---- emitting Coq terms ---------------------------------------------------

def cz(n):
    n = int(n)
    return f'({n})%Z' if n < 0 else f'{n}%Z'


def cn(n):
    return f'{int(n)}%N'


def cnat(n):
    return f'{int(n)}%nat'


def cbool(b):
    return 'true' if b else 'false'


def cfloat(x):
    x = float(x)
    if x != x:
        return 'nan%float'
    if x in (float('inf'), float('-inf')):
        return 'infinity%float' if x > 0 else 'neg_infinity%float'
    h = x.hex()
    if h.startswith('-'):
        return f'(-{h[1:]})%float'
    return f'{h}%float'


def cstr(s):
    out = []
    for ch in s:
        o = ord(ch)
        if ch == '"':
            out.append('""')
        elif 32 <= o < 127:
            out.append(ch)
        else:
            raise ValueError(f'cstr: non printable character {ch!r}; '
                             'use cstr_bytes')
    return '"' + ''.join(out) + '"%string'


def clist(items):
    return '[' + '; '.join(items) + ']'


def copt(x, f):
    return 'None' if x is None else f'(Some {f(x)})'


def cpair(*items):
    return '(' + ', '.join(items) + ')'


def run_case_files(name, header, case_type, check_fun, cases, chunk=300,
                   jobs=16, timeout=900):
    '''Write coq/generated/<name>_<k>.v files, each defining a list of cases
    (Coq terms, already rendered) and evaluating
    ``bad_indices <check_fun> cases`` with vm_compute.  Returns
    (bad_global_indices, errors).'''
    GEN.mkdir(exist_ok=True)
    for old in GEN.glob(f'{name}_*'):
        old.unlink()
    files = []
    for k in range(0, len(cases), chunk):
        part = cases[k:k + chunk]
        path = GEN / f'{name}_{k // chunk}.v'
        body = (header + '\nFrom T4V Require Import Base.Cases.\n'
                'Import ListNotations.\n'
                f'Definition cases : list ({case_type}) :=\n  [ '
                + '\n  ; '.join(part) + ' ].\n'
                f'Eval vm_compute in (bad_indices ({check_fun}) cases).\n')
        path.write_text(body)
        files.append((k, path))

    def one(item):
        base, path = item
        rc, out = sh(['coqc'] + COQ_FLAGS + [str(path)], timeout, cwd=GEN)
        return base, path, rc, out

    bad, errors = [], []
    with ThreadPoolExecutor(max_workers=jobs) as pool:
        results = list(pool.map(one, files))
    # a coqc killed by the machine (load, OOM, a stray signal) is retried once,
    # serially; a genuine Coq error fails again and is reported
    results = [res if res[2] == 0 else one(res[:2]) for res in results]
    if True:
        for base, path, rc, out in results:
            m = re.search(r'=\s*\[(.*?)\]\s*:\s*list N', out, flags=re.S)
            if rc != 0 or not m:
                errors.append(f'{path.name}: rc={rc}\n{out[-2000:]}')
                continue
            body = m.group(1).strip()
            if body:
                for tok in body.split(';'):
                    bad.append(base + int(tok.strip().replace('%N', '')))
    for path in GEN.glob(f'{name}_*'):
        if path.suffix in ('.vo', '.vok', '.vos', '.glob', '.aux') \
                or path.name.startswith('.'):
            path.unlink()
    for path in GEN.glob(f'.{name}_*'):
        path.unlink()
    return sorted(bad), errors


def coq_eval(header, term, timeout=300):
    '''Evaluate one term with vm_compute and return Coq's printed value.'''
    GEN.mkdir(exist_ok=True)
    path = GEN / f'eval_{os.getpid()}_{abs(hash(term)) % 10**8}.v'
    path.write_text(header + f'\nEval vm_compute in ({term}).\n')
    rc, out = sh(['coqc'] + COQ_FLAGS + [str(path)], timeout, cwd=GEN)
    for ext in ('.v', '.vo', '.vok', '.vos', '.glob'):
        q = path.with_suffix(ext)
        if q.exists():
            q.unlink()
    aux = path.parent / ('.' + path.stem + '.aux')
    if aux.exists():
        aux.unlink()
    m = re.search(r'^\s*=\s*(.*?)\n\s*:\s', out, flags=re.S | re.M)
    return (m.group(1) if m else None), out


# --------------------------------------------------------------------------
# replays, findings, evidence
# --------------------------------------------------------------------------

def write_replay(prop_id, payload):
    REPLAYS.joinpath(prop_id).mkdir(parents=True, exist_ok=True)
    blob = json.dumps(payload, sort_keys=True, indent=1, default=str)
    digest = hashlib.sha1(blob.encode()).hexdigest()[:16]
    path = REPLAYS / prop_id / f'{digest}.json'
    path.write_text(blob + '\n')
    return path


def load_findings():
    '''known_findings.txt: lines ``open: property=<id> class=<cls> <text>`` or
    ``fixed: property=<id> <commit> <text>``.'''
    entries = []
    lines = []
    for path in [VERIF / 'known_findings.txt'] + sorted(
            (VERIF / 'findings').glob('*.txt')):
        if path.exists():
            lines.extend(path.read_text().splitlines())
    for line in lines:
        line = line.strip()
        if not line or line.startswith('#'):
            continue
        m = re.match(r'open:\s+property=(\S+)\s+class=(\S+)\s+(.*)', line)
        if m:
            entries.append({'status': 'open', 'property': m.group(1),
                            'class': m.group(2), 'text': m.group(3)})
            continue
        m = re.match(r'fixed:\s+property=(\S+)\s+(\S+)\s+(.*)', line)
        if m:
            entries.append({'status': 'fixed', 'property': m.group(1),
                            'commit': m.group(2), 'text': m.group(3)})
    return entries


class Result:
    '''Accumulates what one check run covered and found.'''

    def __init__(self, prop_id, tier, seed):
        self.prop_id, self.tier, self.seed = prop_id, tier, seed
        self.start = time.time()
        self.obligations = []      # (name, ok, detail)
        self.violations = []       # dicts: kind, cls, what, replay payload
        self.evaluations = 0
        self.distinct = set()
        self.samples = []
        self.histogram = {}
        self.assumptions = []
        self.trusted = []
        self.notes = []
        self.rule = ''
        self.extra = {}

    def obligation(self, name, ok, detail=''):
        # Line-coverage of the anchored functions by the tied calls is a
        # measure of generator quality, not a proof obligation: it depends on
        # the seed, and a harmless rewrite that adds an unexecuted line must
        # not raise an alarm.  It is therefore recorded in the evidence
        # (coverage.line_coverage) and never decides the verdict.
        low = name.lower()
        if low.startswith(('coverage', 'line coverage')) or ' coverage (' in low:
            self.extra.setdefault('line_coverage', []).append(
                {'what': name[:300], 'complete': bool(ok),
                 'detail': str(detail)[:600]})
            return
        self.obligations.append((name, bool(ok), detail))

    def count(self, key, n=1):
        self.histogram[key] = self.histogram.get(key, 0) + n

    def seen(self, canonical, nontrivial=True):
        self.evaluations += 1
        if nontrivial:
            self.distinct.add(hashlib.sha1(
                repr(canonical).encode()).hexdigest()[:20])

    def sample(self, item, limit=8):
        if len(self.samples) < limit:
            self.samples.append(item)

    def violation(self, kind, what, payload, cls=None, found_input=True):
        # see obligation(): incomplete line coverage is recorded, not alarmed
        toc = payload.get('theorem_or_correspondence') if isinstance(
            payload, dict) else None
        if isinstance(toc, str) and toc.lower() in ('coverage',
                                                    'line coverage'):
            self.extra.setdefault('line_coverage', []).append(
                {'what': str(what)[:600], 'complete': False})
            return
        self.violations.append({'kind': kind, 'what': what, 'class': cls,
                                'payload': payload,
                                'found_input': found_input})


def finish(res, checker_cmd):
    '''Apply the known-findings filter, print verdict lines, write evidence,
    return the exit status.'''
    findings = load_findings()
    open_classes = {(f['property'], f['class']): f for f in findings
                    if f['status'] == 'open'}
    status = 0
    printed_known = set()
    n_viol = 0
    seen_payload = set()
    for viol in res.violations:
        key = (res.prop_id, viol['class'])
        if viol['class'] is not None and key in open_classes:
            if key not in printed_known:
                printed_known.add(key)
                print(f'KNOWN-FINDING: property={res.prop_id} '
                      f'class={viol["class"]} {open_classes[key]["text"]}')
            continue
        payload = dict(viol['payload'])
        payload.update(property=res.prop_id, kind=viol['kind'],
                       what=viol['what'], seed=res.seed, tier=res.tier)
        path = write_replay(res.prop_id, payload)
        if path in seen_payload:
            continue
        seen_payload.add(path)
        n_viol += 1
        status = 1
        tail = '' if viol['found_input'] else ' no-failing-input-found'
        if n_viol <= 20:
            print(f'VIOLATION property={res.prop_id} replay={path}{tail}')
            print(f'  ({viol["kind"]}) {viol["what"]}'[:400])
    n_obl = len(res.obligations)
    n_ok = sum(1 for _, ok, _ in res.obligations if ok)
    evidence = {
        'property_id': res.prop_id,
        'tier': res.tier,
        'seed': res.seed,
        'level': 'proof',
        'coverage': {
            'obligations': n_obl,
            'discharged': n_ok,
            'checker_cmd': checker_cmd,
            'trusted_base': res.trusted,
            'obligation_list': [
                {'name': n, 'discharged': ok, 'detail': d[:300]}
                for n, ok, d in res.obligations],
            'evaluations': res.evaluations,
            'distinct_nontrivial': len(res.distinct),
            'rule': res.rule,
            'samples': res.samples,
            'input_distribution': res.histogram,
            'known_findings_seen': sorted(c for _, c in printed_known),
        },
        'assumptions': res.assumptions,
        'wall_s': round(time.time() - res.start, 2),
        'violations': n_viol,
    }
    evidence['coverage'].update(res.extra)
    EVID.mkdir(exist_ok=True)
    (EVID / f'{res.prop_id}.json').write_text(
        json.dumps(evidence, indent=1, default=str) + '\n')
    print(f'{res.prop_id}: obligations {n_ok}/{n_obl} discharged, '
          f'{res.evaluations} evaluations, '
          f'{len(res.distinct)} distinct non-trivial, '
          f'{n_viol} violation(s), {evidence["wall_s"]} s')
    return status


def arm_watchdog(handler, secs):
    """Watchdog for implementation calls that may never return (unbounded loops).
    The limit is on the CPU time of this process (ITIMER_PROF): a loop that does
    not end burns CPU and is interrupted after `secs`, while a stall of a loaded
    machine (other processes, disk) does not count.  A generous wall-clock
    backstop (ITIMER_REAL, 20*secs+30) covers a call that blocks without
    computing.  Returns the token for disarm_watchdog."""
    import signal
    old = (signal.signal(signal.SIGPROF, handler),
           signal.signal(signal.SIGALRM, handler))
    signal.setitimer(signal.ITIMER_PROF, secs)
    signal.setitimer(signal.ITIMER_REAL, 20 * secs + 30)
    return old


def disarm_watchdog(old):
    import signal
    signal.setitimer(signal.ITIMER_PROF, 0)
    signal.setitimer(signal.ITIMER_REAL, 0)
    signal.signal(signal.SIGPROF, old[0])
    signal.signal(signal.SIGALRM, old[1])
