'''C14 — abstract decks as token lists with typed glue, their canonical
rendering, random equivalence-preserving layouts, and the abstract content of
a written TRIPOLI-4 file.

A card is a list of (text, kind, glue) triples; glue says what may stand
between this token and the next:
  'sp'  at least one blank (canonical: one blank)
  'opt' nothing needed (canonical: nothing); blanks may be added
  'del' canonical one blank that may also be removed (next to a parenthesis)
  'fix' nothing, and nothing may be added
kinds: 'word' (letters: case is free), 'int', 'punct', 'dens' (cell density),
'frac' (material fraction), 'fnum' (surface / TR / FILL / TRCL parameter),
'impvals' (the whole entry list of an IMP data card: text is a tuple of ints),
'fillvals' (universe list of a lattice FILL array).
'''
import random
import re
from decimal import Decimal

import deck as shared
import impl

# ---------------------------------------------------------------------------
# generation
# ---------------------------------------------------------------------------
DENSITIES = ['-1.0', '-2.7', '-0.001', '-19.1', '0.1', '0.0602', '1.0',
             '-11.35', '2.5', '-7.85', '0.5', '-1']
FRACTIONS = ['1', '0.5', '2', '0.25', '1.0', '0.125', '3', '0.75', '2.5',
             '0.0625', '12', '100.0']
ZAIDS = ['1001', '8016', '92235', '92238', '13027', '26000', '6000', '1002',
         '82208', '94239']
SUFFIXES = ['', '', '.70c', '.80c', '.31c']


def T(text, kind='int', glue='sp'):
    return (str(text), kind, glue)


def expr_tokens(expr):
    '''Tokens of a cell expression (shared.expr_text layout as canonical).'''
    tag = expr[0]
    if tag == 's':
        return [T(expr[1])]
    if tag == '#c':
        return [T('#', 'punct', 'fix'), T(expr[1])]
    if tag == '#':
        return ([T('#', 'punct', 'fix'), T('(', 'punct', 'opt')]
                + relink(expr_tokens(expr[1]), 'opt') + [T(')', 'punct', 'sp')])
    if tag == '*':
        out = []
        for sub in expr[1:]:
            toks = expr_tokens(sub)
            if sub[0] == ':':
                toks = ([T('(', 'punct', 'opt')] + relink(toks, 'opt')
                        + [T(')', 'punct', 'sp')])
            out += relink(toks, 'sp')
        return out
    if tag == ':':
        out = []
        for k, sub in enumerate(expr[1:]):
            if k:
                out = relink(out, 'opt') + [T(':', 'punct', 'opt')]
            out += expr_tokens(sub)
        return out
    raise ValueError(expr)


def relink(toks, glue):
    '''Replace the glue after the last token.'''
    text, kind, _ = toks[-1]
    return toks[:-1] + [(text, kind, glue)]


def soften(toks):
    '''A blank next to a parenthesis may be removed: "1 (" , ") 2", ") (".
    Canonical text keeps it.'''
    out = []
    for k, (text, kind, glue) in enumerate(toks):
        nxt = toks[k + 1][0] if k + 1 < len(toks) else None
        if glue == 'sp' and (nxt in ('(', '#') or text == ')') and nxt is not None:
            # "#" directly after a number ("1#2") is left alone
            if nxt == '(' or (text == ')' and nxt != '#'):
                glue = 'del'
        out.append((text, kind, glue))
    return out


def random_expr(rng, sids, earlier_cells, depth=0):
    lit = lambda: ('s', rng.choice(sids) * rng.choice([1, -1]))
    roll = rng.random()
    if depth >= 2 or roll < 0.35:
        n = rng.randint(1, 3)
        lits = []
        for _ in range(n):
            x = lit()
            if all(abs(x[1]) != abs(y[1]) for y in lits):
                lits.append(x)
        return lits[0] if len(lits) == 1 else ('*',) + tuple(lits)
    if roll < 0.6:
        subs = tuple(random_expr(rng, sids, earlier_cells, depth + 1)
                     for _ in range(rng.randint(2, 3)))
        flat = []
        for s in subs:
            flat.extend(s[1:] if s[0] == ':' else [s])
        return (':',) + tuple(flat)
    if roll < 0.8:
        subs = []
        for _ in range(rng.randint(2, 3)):
            s = random_expr(rng, sids, earlier_cells, depth + 1)
            subs.extend(s[1:] if s[0] == '*' else [s])
        return ('*',) + tuple(subs)
    if roll < 0.9 and earlier_cells:
        return ('*', lit(), ('#c', rng.choice(earlier_cells)))
    inner = ('*', lit(), lit()) if rng.random() < 0.5 else (':', lit(), lit())
    return ('*', lit(), ('#', inner))


def option_tokens(name, value_toks, star=False):
    '''name=value ; blanks may surround "=".'''
    return ([T(('*' if star else '') + name, 'word', 'opt'),
             T('=', 'punct', 'opt')] + value_toks)


def paren_list(values, kind='fnum'):
    toks = [T('(', 'punct', 'opt')]
    toks += [T(v, kind, 'sp') for v in values]
    toks = relink(toks, 'opt') + [T(')', 'punct', 'sp')]
    return toks


def gen_deck(rng):
    n_tr = rng.choice([0, 1, 2])
    transforms = {}
    for n in rng.sample(range(1, 9), n_tr):
        transforms[n] = shared.random_tr(rng)
    n_surf = rng.randint(3, 7)
    surfaces = []
    sids = sorted(rng.sample(range(1, 40), n_surf))
    for sid in sids:
        surf = shared.random_surface(rng, sid)
        if transforms and rng.random() < 0.3:
            surf['tr'] = rng.choice(sorted(transforms))
        if rng.random() < 0.12:
            surf['bc'] = rng.choice(['*', '*', '+'])
        surfaces.append(surf)
    n_mat = rng.randint(1, 3)
    mats = {}
    for num in rng.sample(range(1, 30), n_mat):
        neg = rng.random() < 0.4
        toks = []
        for zaid in rng.sample(ZAIDS, rng.randint(1, 4)):
            toks.append(T(zaid + rng.choice(SUFFIXES), 'word', 'sp'))
            toks.append(T(('-' if neg else '') + rng.choice(FRACTIONS), 'frac'))
            if rng.random() < 0.1:
                toks.append(T('nlib=70c', 'word', 'sp'))
        mats[num] = (toks, neg)
    imp_on_cells = rng.random() < 0.55
    n_cells = rng.randint(2, 6)
    cell_ids = sorted(rng.sample(range(1, 60), n_cells + 1))
    cells, plain = [], []
    use_universe = rng.random() < 0.35 and n_cells >= 3
    for k, cid in enumerate(cell_ids[:-1]):
        card = [T(cid)]
        like = plain and rng.random() < 0.12
        univ = 1 if use_universe and k >= n_cells - 2 else 0
        if like:
            card += [T('like', 'word'), T(rng.choice(plain)), T('but', 'word')]
            roll = rng.random()
            if roll < 0.4:
                card += option_tokens('trcl', paren_list(
                    [shared.num(float(rng.choice([1, -2, 3, 0.5]))) for _ in range(3)]))
            elif roll < 0.7:
                num = rng.choice(sorted(mats))
                card += option_tokens('mat', [T(num)])
                card += option_tokens('rho', [T(rng.choice(DENSITIES), 'dens')])
            elif transforms:
                card += option_tokens('trcl', [T(rng.choice(sorted(transforms)))])
            elif rng.random() < 0.5:
                card += option_tokens('u', [T(7)])
            else:
                tr = shared.random_tr(rng, translate_only=False)
                card += option_tokens('trcl', paren_list(
                    [shared.num(v) for v in tr['print']]), star=tr['star'])
        else:
            if rng.random() < 0.3:
                card.append(T(0))
            else:
                num = rng.choice(sorted(mats))
                rho = rng.choice(DENSITIES)
                if mats[num][1] and not rho.startswith('-'):
                    rho = '-' + rho       # mass fractions need a mass density
                card += [T(num), T(rho, 'dens')]
            expr = random_expr(rng, sids, plain)
            card += relink(soften(relink(expr_tokens(expr), 'sp')), 'sp')
            plain.append(cid)
            if univ:
                card += option_tokens('u', [T(univ)])
            elif use_universe and k == 0:
                fill = [T(1)]
                roll = rng.random()
                star = False
                if roll < 0.3:
                    fill = relink(fill, 'del') + paren_list(
                        [shared.num(float(rng.choice([1, -2, 0.5]))) for _ in range(3)])
                elif roll < 0.5 and transforms:
                    fill = relink(fill, 'del') + paren_list(
                        [rng.choice(sorted(transforms))], 'int')
                elif roll < 0.8:
                    tr = shared.random_tr(rng, translate_only=False)
                    star = tr['star']
                    fill = relink(fill, 'del') + paren_list(
                        [shared.num(v) for v in tr['print']])
                card += option_tokens('fill', fill, star=star)
            elif transforms and rng.random() < 0.15:
                card += option_tokens('trcl', [T(rng.choice(sorted(transforms)))])
            elif rng.random() < 0.12:
                # inline TRCL / *TRCL with a rotation
                tr = shared.random_tr(rng, translate_only=False)
                card += option_tokens('trcl', paren_list(
                    [shared.num(v) for v in tr['print']]), star=tr['star'])
        if imp_on_cells:
            val = rng.choice([1, 1, 1, 2, 0.5]) if k else 1
            card += [T('imp:n', 'word', 'opt'), T('=', 'punct', 'opt'),
                     T(val, 'impnum')]
            if rng.random() < 0.2:
                card += [T('imp:p', 'word', 'opt'), T('=', 'punct', 'opt'),
                         T(rng.choice([0, 1]), 'impnum')]
        cells.append(relink(card, 'end'))
    # outside world
    last = [T(cell_ids[-1]), T(0)]
    last += relink(soften(relink(expr_tokens(
        (':',) + tuple(('s', s) for s in rng.sample(sids, 2))), 'sp')), 'sp')
    if imp_on_cells:
        last += [T('imp:n', 'word', 'opt'), T('=', 'punct', 'opt'), T(0, 'impnum')]
    cells.append(relink(last, 'end'))
    # sometimes a second zero-importance cell behind the outside world: an IMP
    # data card may then end "... 2 1 0 0", i.e. "2 1I 0 R" (a shorthand entry
    # directly after an interpolation)
    extra_zero = rng.random() < 0.3
    if extra_zero:
        zero = [T(cell_ids[-1] + 1), T(0), T(rng.choice(sids))]
        if imp_on_cells:
            zero += [T('imp:n', 'word', 'opt'), T('=', 'punct', 'opt'), T(0, 'impnum')]
        cells.append(relink(zero, 'end'))
    lattice = None
    if rng.random() < 0.25:
        lattice = add_lattice(rng, cells, surfaces, imp_on_cells, sorted(mats))
    data = []
    if not imp_on_cells:
        vals = [rng.choice([1, 1, 1, 2, 4, 3]) for _ in range(len(cells))]
        if rng.random() < 0.5:
            vals = sorted(vals)
        k_out = len(cell_ids) - 1
        vals[k_out] = 0
        if extra_zero:
            vals[k_out + 1] = 0
        vals[0] = max(vals[0], 1)
        if k_out >= 3 and rng.random() < 0.4:
            # an arithmetic descent into the zero of the outside cell: the
            # only place where interpolated importances show in the output
            vals[k_out - 2], vals[k_out - 1] = rng.choice([(2, 1), (4, 2), (6, 3)])
        data.append([T('imp:n', 'word'), (tuple(vals), 'impvals', 'end')])
        if rng.random() < 0.3:
            vals2 = [rng.choice([0, 1, 1]) for _ in vals]
            vals2[0] = 1
            vals2[k_out] = 0
            if extra_zero:
                vals2[k_out + 1] = 0
            data.append([T('imp:p', 'word'), (tuple(vals2), 'impvals', 'end')])
    for n, tr in sorted(transforms.items()):
        card = [T(('*' if tr['star'] else '') + f'tr{n}', 'word')]
        card += [T(shared.num(v), 'fnum') for v in tr['print']]
        data.append(relink(card, 'end'))
    for num, (toks, _) in sorted(mats.items()):
        data.append(relink([T(f'm{num}', 'word')] + toks, 'end'))
    extras = [[T('mode', 'word'), T('n', 'word', 'end')],
              [T('nps', 'word'), T(1000, 'int', 'end')],
              [T('sdef', 'word'), T('pos=0', 'word'), T(0), T(0),
               T('erg=1', 'word', 'end')],
              [T('print', 'word', 'end')]]
    for extra in extras:
        if rng.random() < 0.4:
            data.insert(rng.randrange(len(data) + 1), extra)
    surf_cards = []
    for surf in surfaces:
        card = [T(f'{surf.get("bc", "")}{surf["id"]}')]
        if surf.get('tr') is not None:
            card.append(T(surf['tr']))
        card.append(T(surf['mn'], 'word'))
        card += [T(shared.num(v), 'fnum') for v in surf['params']]
        surf_cards.append(relink(card, 'end'))
    return {'title': rng.choice(['generated deck', 'c14 deck $ not a comment',
                                 'Title With Case & ampersand', 'Message in a bottle',
                                 '     indented title']),
            'cells': cells, 'surfaces': surf_cards, 'data': data,
            'lattice': lattice}


def add_lattice(rng, cells, surfaces, imp_on_cells, mats):
    '''A 2x2x1 rectangular lattice (universe 3) in a box cell, filled with
    universes 4, 5 and 6 (one sphere cell + its outside each); the array is
    often an arithmetic run followed by a repeat (4 5 6 6), the shape in which
    a shorthand entry directly follows an interpolation (4 1I 6 R).'''
    def imp(card, val=1):
        if imp_on_cells:
            card += [T('imp:n', 'word', 'opt'), T('=', 'punct', 'opt'),
                     T(val, 'impnum')]
        return relink(card, 'end')
    base = 80
    for sid, mn, prm in [(81, 'px', [1.0]), (82, 'px', [-1.0]), (83, 'py', [1.0]),
                         (84, 'py', [-1.0]), (85, 'so', [0.5]), (86, 'so', [0.25]),
                         (88, 'so', [0.75]),
                         (87, 'rpp', [-1.0, 3.0, -1.0, 3.0, -5.0, 5.0])]:
        surfaces.append({'id': sid, 'mn': mn, 'params': prm, 'tr': None, 'bc': ''})
    second = rng.choice([4, 5])
    new = []
    new.append(imp([T(base), T(0), T(-87)] + option_tokens('fill', [T(3)])))
    lat = [T(base + 1), T(0), T(-81), T(82), T(-83), T(84)]
    lat += option_tokens('lat', [T(1)]) + option_tokens('u', [T(3)])
    third = rng.choice([4, 5, second])
    array = (4, second, third, third)
    if rng.random() < 0.5:
        array = rng.choice([(4, 5, 6, 6), (6, 5, 4, 4), (4, 5, 6, 5), (4, 4, 5, 6),
                            (6, 5, 4, 6), (4, 5, 6, 4)])
    lat += option_tokens('fill', [T('0:1', 'punct'), T('0:1', 'punct'),
                                  T('0:0', 'punct'), (array, 'fillvals', 'sp')])
    new.append(imp(lat))
    mat = mats[0]
    new.append(imp([T(base + 2), T(mat), T('-1.0', 'dens'), T(-85)]
                   + option_tokens('u', [T(4)])))
    new.append(imp([T(base + 3), T(0), T(85)] + option_tokens('u', [T(4)])))
    new.append(imp([T(base + 4), T(mat), T('-2.0', 'dens'), T(-86)]
                   + option_tokens('u', [T(5)])))
    new.append(imp([T(base + 5), T(0), T(86)] + option_tokens('u', [T(5)])))
    new.append(imp([T(base + 6), T(mat), T('-3.0', 'dens'), T(-88)]
                   + option_tokens('u', [T(6)])))
    new.append(imp([T(base + 7), T(0), T(88)] + option_tokens('u', [T(6)])))
    cells.extend(new)
    return {'cells': len(new)}


def lattice_args(deck):
    return []


def features(deck):
    '''Content categories of an abstract deck (for the evidence histogram).'''
    out = set()
    for card in deck['cells']:
        words = [t.lower() for t, kind, _ in card if kind == 'word']
        texts = [t for t, _, _ in card]
        if 'like' in words:
            out.add('like-but')
            for w in ('trcl', 'mat', 'rho', 'u'):
                if w in words:
                    out.add('like-but:' + w)
        for w in ('fill', '*fill', 'trcl', '*trcl', 'u', 'lat', 'imp:p'):
            if w in words:
                out.add('cell-option:' + w)
        if '#' in texts:
            out.add('complement')
        if ':' in texts:
            out.add('union')
        if any(kind == 'fillvals' for _, kind, _ in card):
            out.add('fill-array')
        fills = [k for k, (t, kd, _) in enumerate(card)
                 if kd == 'word' and t.lower() in ('fill', '*fill')]
        if fills and '(' in texts[fills[0]:]:
            out.add('fill-with-transformation')
    for card in deck['surfaces']:
        name = card[0][0]
        if name[0] in '*+':
            out.add('surface-mark:' + name[0])
        if card[1][1] == 'int':
            out.add('surface-with-tr')
        out.add('surface:' + [t for t, kind, _ in card if kind == 'word'][0].lower())
    for card in deck['data']:
        head = card[0][0].lower()
        key = head.rstrip('0123456789')
        out.add('data:' + key)
        if any(isinstance(t, tuple) for t, _, _ in card):
            out.add('imp-data-card')
            continue
        if any(t.lower().startswith('nlib') for t, _, _ in card):
            out.add('m-card-keyword')
        if any('.' in t and t.split('.')[0].isdigit() and t[-1] in 'cC' for t, kd, _ in card if kd == 'word'):
            out.add('zaid-suffix')
    if deck.get('lattice'):
        out.add('lattice')
    return sorted(out)


# ---------------------------------------------------------------------------
# number respelling (same decimal value)
# ---------------------------------------------------------------------------

def respell(rng, text, fortran, e0=False):
    '''Another spelling of the same decimal number. `fortran`: also the
    spellings only Fortran reads (d exponent, bare signed exponent). `e0`:
    a spelling with an exponent of zeros after a decimal point (the
    normalize_float_e0 class), otherwise such spellings are never produced.'''
    sign = ''
    body = text
    if body[0] in '+-':
        sign, body = body[0], body[1:]
    dec = Decimal(body)
    if e0 or (fortran and rng.random() < 0.12):
        mant = body if '.' in body else body + '.0'
        if 'e' in mant.lower() or 'd' in mant.lower():
            return text
        return sign + mant + rng.choice(['', '0', '00']) \
            + rng.choice(['e0', 'E0', '+0', '-0', 'd0', 'e00', 'D+00'])
    roll = rng.random()
    if roll < 0.2:
        return text
    if roll < 0.3 and '.' in body:
        return sign + body + '0' * rng.randint(1, 2)
    if roll < 0.4 and body.startswith('0.'):
        return sign + body[1:]
    if roll < 0.45 and '.' not in body and 'e' not in body.lower():
        return sign + body + rng.choice(['.', '.0'])
    if roll < 0.5 and not sign:
        return '+' + body
    if dec == 0:
        return text
    shift = rng.choice([-3, -2, -1, 1, 2, 3, 10, -12])
    mtxt = format(dec.scaleb(-shift), 'f')
    if '.' not in mtxt:
        mtxt += rng.choice(['.0', '.', ''])
    elif fortran and rng.random() < 0.3:
        mtxt += rng.choice(['0', '00'])      # 1.50e-3
    if mtxt.startswith('0.') and rng.random() < 0.3:
        mtxt = mtxt[1:]
    forms = [f'e{shift}', f'E{shift}']
    if shift > 0:
        forms.append(f'e+{shift}')
    if fortran:
        forms += [f'd{shift}', f'D{shift}', f'{shift:+d}']
    exp = rng.choice(forms)
    out = sign + mtxt + exp
    assert impl.mcnp_float(out) == float(text), (text, out)
    return out


# ---------------------------------------------------------------------------
# data-card shorthand
# ---------------------------------------------------------------------------

def shorthand(rng, vals, allow=('r', 'i', 'm')):
    '''Tokens of a list of integers using nR / nI / xM where they apply.'''
    out = [str(vals[0])]
    k = 1
    while k < len(vals):
        prev = vals[k - 1]
        # repeats
        n = 0
        while k + n < len(vals) and vals[k + n] == prev:
            n += 1
        if n and 'r' in allow and rng.random() < 0.7:
            take = rng.randint(1, n)
            out.append(('' if take == 1 and rng.random() < 0.5 else str(take))
                       + rng.choice('rR'))
            k += take
            continue
        # linear interpolation: prev, prev+d, ..., with at least one interior
        if 'i' in allow and k + 1 < len(vals) and rng.random() < 0.7:
            d = vals[k] - prev
            n = 1
            while k + n < len(vals) and vals[k + n] - vals[k + n - 1] == d:
                n += 1
            if d != 0 and n >= 2:
                inner = rng.randint(1, n - 1)
                out.append(('' if inner == 1 and rng.random() < 0.5
                            else str(inner)) + rng.choice('iI'))
                out.append(str(vals[k + inner]))
                k += inner + 1
                continue
        if 'm' in allow and prev > 0 and vals[k] % prev == 0 \
                and vals[k] // prev >= 2 and rng.random() < 0.7:
            out.append(str(vals[k] // prev) + rng.choice('mM'))
            k += 1
            continue
        out.append(str(vals[k]))
        k += 1
    return out


# ---------------------------------------------------------------------------
# layouts
# ---------------------------------------------------------------------------
COMMENTS = ['c', 'C', 'c a comment', 'C    1 so 5', '  c indented', '    c $ & x',
            'c\tTab', 'c -----', ' C imp:n=1', 'c &']
TRAILERS = [' $ trailing', '$x', ' $ with & inside', '  $', ' $ 1 2 3', '\t$ tab']


class Layout:
    '''Random equivalence-preserving layout choices. numbers=True also
    respells the numbers (see `number`).'''

    def __init__(self, rng, numbers=False, stream=None):
        self.rng = rng
        self.numbers = numbers or stream is not None
        self.stream = stream
        self.used = set()
        self.p_case = rng.choice([0, 0.3, 1])
        self.p_blank = rng.choice([0, 0.3, 0.8])
        self.p_tab = rng.choice([0, 0, 0.3])
        self.p_break = rng.choice([0, 0.15, 0.5])
        self.p_amp = rng.choice([0, 0.5, 1])
        self.p_comment = rng.choice([0, 0.2, 0.6])
        self.p_dollar = rng.choice([0, 0.2, 0.6])
        self.p_short = rng.choice([0, 1])
        self.p_noeq = rng.choice([0, 0, 0.5])
        self.p_num = rng.choice([0.3, 1]) if numbers else 0
        self.message = rng.random() < 0.3
        self.pending = stream      # one known-failing respelling to place

    def describe(self):
        return {'used': sorted(self.used), 'stream': self.stream}

    def word(self, text):
        if text and self.rng.random() < self.p_case:
            new = self.rng.choice([text.upper(), text.swapcase(),
                                   text.capitalize()])
            if new != text:
                self.used.add('case')
            return new
        return text

    def number(self, text, kind):
        '''Another spelling of the same number. Every Fortran form for
        densities, fractions, surface / TR / inline-transformation parameters
        IMP / FILL-array entries of data cards and importances on cell cards
        (MIP.mip.datacard.to_float, normalize_float).'''
        rng = self.rng
        if rng.random() >= self.p_num:
            return text
        new = respell(rng, text, fortran=True)
        if new != text:
            self.used.add('number:' + kind)
        return new

    def blanks(self, minimum):
        rng = self.rng
        if rng.random() >= self.p_blank:
            return ' ' * minimum
        if rng.random() < self.p_tab:
            self.used.add('tabs')
            return rng.choice(['\t', ' \t', '\t ', '  \t'])
        n = rng.randint(minimum, 4)
        if n != minimum:
            self.used.add('blanks')
        return ' ' * n

    def comment_lines(self):
        out = []
        while self.rng.random() < self.p_comment:
            out.append(self.rng.choice(COMMENTS))
            self.used.add('c-comment')
            if len(out) >= 2:
                break
        return out

    def trailer(self):
        if self.rng.random() < self.p_dollar:
            self.used.add('$-comment')
            return self.rng.choice(TRAILERS)
        return ''

    def continuation(self):
        '''(end of the current line, comment lines, start of the next).'''
        rng = self.rng
        if rng.random() < self.p_amp:
            self.used.add('&-continuation')
            end = rng.choice([' &', '&', '  &  ', ' &\t'])
            if rng.random() < self.p_dollar:
                self.used.add('$-comment')
                end += rng.choice([' $ after amp', '$', '  $ x & y'])
            start = rng.choice(['', ' ', '    ', '  ', '      '])
        else:
            self.used.add('5-blank-continuation')
            end = self.trailer()
            if rng.random() < self.p_tab + 0.1:
                self.used.add('tabs')
                start = rng.choice(['\t', ' \t', '    \t', '\t  ', '     \t'])
            else:
                start = ' ' * rng.randint(5, 12)
        return end, self.comment_lines(), start


def expand_card(card, layout):
    '''Replace the group tokens (IMP entries, FILL arrays) and respell.'''
    out = []
    for text, kind, glue in card:
        if kind in ('impvals', 'fillvals'):
            vals = list(text)
            if layout is not None and layout.rng.random() < layout.p_short:
                toks = shorthand(layout.rng, vals,
                                 ('r', 'i', 'm') if kind == 'impvals' else ('r', 'i'))
                if toks != [str(v) for v in vals]:
                    layout.used.add('shorthand:' + kind)
            else:
                toks = [str(v) for v in vals]
            if layout is not None and layout.numbers:
                # plain entries (not nR / nI / xM) in another spelling
                toks = [layout.number(t, kind) if re.fullmatch(r'-?\d+', t) else t
                        for t in toks]
            out += [(t, 'word', 'sp') for t in toks[:-1]] + [(toks[-1], 'word', glue)]
        elif layout is not None and kind in ('dens', 'frac', 'fnum', 'impnum') \
                and layout.numbers:
            out.append((layout.number(text, kind), kind, glue))
        else:
            out.append((text, kind, glue))
    # TR data card: repeated entries as nR (before any respelling, so that the
    # repeated entry is the same number)
    if layout is not None and card and card[0][1] == 'word' \
            and card[0][0].lstrip('*').lower().startswith('tr') \
            and layout.rng.random() < layout.p_short:
        new, k = [out[0]], 1
        while k < len(out):
            n = 0
            while k + n < len(out) and card[k + n][0] == card[k - 1][0] and k > 1:
                n += 1
            if n and layout.rng.random() < 0.7:
                take = layout.rng.randint(1, n)
                tok = ('' if take == 1 and layout.rng.random() < 0.5 else str(take)) \
                    + layout.rng.choice('rR')
                new.append((tok, 'word', out[k + take - 1][2]))
                layout.used.add('shorthand:tr')
                k += take
            else:
                new.append(out[k])
                k += 1
        out = new
    return out


def render_card(card, layout, first_card_of_block=False):
    '''Physical lines of one card.'''
    card = expand_card(card, layout)
    if layout is None:
        text = ''
        for tok, _, glue in card:
            text += tok + (' ' if glue in ('sp', 'del') else '')
        return shared.wrap(text.rstrip(' ')).split('\n')
    rng = layout.rng
    lines = []
    cur = rng.choice(['', '', ' ', '   ', '    ']) if rng.random() < layout.p_blank else ''
    if cur:
        layout.used.add('blanks')
    for k, (tok, kind, glue) in enumerate(card):
        if tok == '=' and kind == 'punct' and rng.random() < layout.p_noeq:
            # keyword value: the equal sign is optional
            layout.used.add('equal-sign-dropped')
            if not cur or not cur[-1].isspace():
                cur += ' '
            continue
        cur += layout.word(tok) if kind == 'word' else tok
        if k == len(card) - 1:
            break
        if glue == 'fix':
            continue
        if rng.random() < layout.p_break and len(cur.strip()) > 0:
            end, comments, start = layout.continuation()
            lines.append(cur + end)
            lines.extend(comments)
            cur = start
            continue
        if glue == 'sp':
            cur += layout.blanks(1)
        elif glue == 'opt':
            cur += layout.blanks(0)
        elif glue == 'del':
            if rng.random() < 0.5:
                layout.used.add('blank-next-to-parenthesis-removed')
            else:
                cur += layout.blanks(1)
    if rng.random() < layout.p_blank:
        cur += rng.choice([' ', '   ', '\t'])
    lines.append(cur + layout.trailer())
    return lines


def render(deck, layout):
    '''Deck text; layout None = canonical.'''
    out = []
    if layout is not None and layout.message:
        layout.used.add('message-block')
        out += layout.rng.choice([['message: outp=x.o'],
                                  ['MESSAGE: runtpe=r', '     mctal=m'],
                                  ['Message:'], ['message: a=b $ x']])
        out.append('')
    out.append(deck['title'])
    blocks = [deck['cells'], deck['surfaces'], deck['data']]
    for b, cards in enumerate(blocks):
        for k, card in enumerate(cards):
            if layout is not None:
                out.extend(layout.comment_lines())
            out.extend(render_card(card, layout))
        if layout is not None:
            out.extend(layout.comment_lines())
        if b < 2:
            if layout is not None and layout.rng.random() < layout.p_blank:
                layout.used.add('blank-line-with-blanks')
                out.append(layout.rng.choice(['  ', '\t', ' \t ', '     ']))
            else:
                out.append('')
    text = '\n'.join(out) + '\n'
    if layout is not None and layout.rng.random() < 0.3:
        layout.used.add('trailing-blank-line')
        text += layout.rng.choice(['\n', '  \n', '\n\n'])
    elif layout is not None and layout.rng.random() < 0.2:
        layout.used.add('no-final-newline')
        text = text[:-1]
    return text


# ---------------------------------------------------------------------------
# abstract content of a written file (numbers read, composition names
# resolved through GEOMCOMP)
# ---------------------------------------------------------------------------

def _num(tok):
    return float('%.11e' % impl.mcnp_float(tok))


def canonical(body_text):
    t4 = impl.T4File(body_text)
    comps = {}
    for comp in t4.compositions:
        comps.setdefault(comp['name'], []).append(
            (comp['type'], comp['temp'],
             None if comp['density'] is None else _num(comp['density']),
             comp['nb_atom'], tuple((iso, _num(a)) for iso, a in comp['items'])))
    assoc = {}
    for name, vols in t4.geomcomp:
        for vol in vols:
            assoc.setdefault(vol, []).append(tuple(comps.get(name, ['missing'])))
    surfs = {sid: (typ, tuple(float('%.11e' % p) for p in prm), tr)
             for sid, (typ, prm, tr) in t4.surfaces.items()}
    trs = {tid: tuple(float('%.11e' % p) for p in vals)
           for tid, vals in t4.transforms.items()}
    vols = {vid: (tuple(v['plus']), tuple(v['minus']), v['op'],
                  tuple(v['args']), v['fictive'])
            for vid, v in t4.volumes.items()}
    return (surfs, tuple(t4.surf_order), trs, vols, tuple(t4.vol_order), assoc,
            sorted({c for lst in comps.values() for c in lst}, key=repr),
            tuple(t4.boundary), tuple(t4.errors))
