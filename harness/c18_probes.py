'''C18 — self-test of the effect-footprint translator (audit only, no Coq):

    /venv/bin/python harness/c18_probes.py [repo]

Each probe is a small edit of a copy of the sources.  Probes named *ACCEPT*
are sound shapes the translator must classify as harmless; every other probe
must be flagged (python mirror of Audit.entry_ok with the allow-list of
coq/C18/Allow.v).  Exit status 0 iff every probe behaves as expected.'''
import re
import shutil
import sys
import tempfile
from pathlib import Path

HERE = Path(__file__).resolve().parent
sys.path.insert(0, str(HERE))
import c18_audit                      # noqa: E402


def allow_keys():
    text = (HERE.parent / 'coq' / 'C18' / 'Allow.v').read_text()
    keys = re.findall(r'mkAllowed "([^"]*)"\s+"([^"]*)"\s+"((?:[^"]|"")*)"',
                      text)
    return {(a, b, c.replace('""', '"')) for a, b, c in keys}


def entry_ok(ent, allow):
    if not ent['live']:
        return True
    c = ent['c']
    if c in ('CBinding ScModule VImmutable', 'CBinding ScClass VImmutable',
             'CMutDefault VImmutable', 'COpen WRead'):
        return True
    if c.startswith('CSetLoop'):
        _, kind, sink = c.split()
        if sink == 'SinkInsensitive' or kind == 'KInt':
            return True
    return (ent['file'], ent['func'], ent['text']) in allow \
        or (ent['file'], '*', ent['text']) in allow


K = 't4_geom_convert/Kernel/'
CV = K + 'Volume/ConstructVolumeT4.py'
VT = K + 'Volume/VolumeT4.py'
CC = K + 'Volume/CellConversion.py'
PS = K + 'FileHandlers/Parser/ParseMCNPSurface.py'
HEAD = "    dic_vol_t4 = DictVolumeT4()\n"
EMPTY = "        return bool(self.pluses & self.minuses)"
MIPT = "    mip_transf = mcnp2cad[mcnp_to_mip(enum_surface)]"
UNUSED = "    for key in unused:\n        del dic[key]"
SIDS = "    def surface_ids(self):"

PROBES = {
    'a_alias_of_global_table': (PS, MIPT, "    table = mcnp2cad\n    table['zz'] = None\n" + MIPT),
    'b_function_attribute_counter': (CV, HEAD, "    construct_volume_t4.calls = getattr(construct_volume_t4, 'calls', 0) + 1\n" + HEAD),
    'c_global_counter': (CV, HEAD, "    global _RUNS\n    _RUNS = 1\n" + HEAD),
    'd_lru_cache': (K + 'Utils.py', "def normalize_float(", "import functools\n@functools.lru_cache(maxsize=None)\ndef normalize_float("),
    'e_environ': (CV, HEAD, "    import os\n    if os.environ.get('T4_DEBUG'):\n        print('debug')\n" + HEAD),
    'f_literal_string_set_loop': (CV, HEAD, "    for name in {'a', 'b'}:\n        print(name)\n" + HEAD),
    'g_setattr_class': (CV, HEAD, "    setattr(CellConversion, 'last', None)\n" + HEAD),
    'h_dict_view_setop': (CV, HEAD, "    for k in dic_surface_t4.keys() - dic_surface_mcnp.keys():\n        print(k)\n" + HEAD),
    'i_list_of_set_index': (VT, EMPTY, "        first = list(self.pluses)[:1]\n" + EMPTY),
    'j_set_pop': (CV, "    unused = fictives - used\n", "    unused = fictives - used\n    first = unused.pop() if unused else None\n"),
    'k_class_store_via_type_self': (CC, "        self.new_cell_key = int_cell\n", "        self.new_cell_key = int_cell\n        type(self).last_key = int_cell\n"),
    'l_os_listdir': (CV, HEAD, "    import os\n    names = os.listdir('.')\n" + HEAD),
    'm_set_returned_in_tuple_not_unpacked': (CV, "    tr_surf_ids = extract_tr_surf_ids(mcnp_dict) - set(dic_surface_mcnp)", "    pair = _ids_and_count(mcnp_dict)\n    tr_surf_ids = pair[0] - set(dic_surface_mcnp)"),
    'o_time_read': (CV, HEAD, "    import time\n    stamp = time.time()\n" + HEAD),
    'p_random_read': (CV, HEAD, "    import random\n    jitter = random.random()\n" + HEAD),
    'q_uuid_read': (CV, HEAD, "    import uuid\n    run_id = uuid.uuid4()\n" + HEAD),
    'r_id_as_dict_key': (CV, HEAD, "    seen = {id(mcnp_parser): True}\n" + HEAD),
    's_hash_as_sort_key': (CV, HEAD, "    order = sorted(dic_surface_mcnp, key=hash)\n" + HEAD),
    't_pickle_cache_file': (CV, HEAD, "    import pickle\n    with open('/tmp/t4.cache', 'rb') as cache:\n        previous = pickle.load(cache)\n" + HEAD),
    'u_imported_module_attr_store': (CV, HEAD, "    import t4_geom_convert\n    t4_geom_convert.last_parser = mcnp_parser\n" + HEAD),
    'v_imported_module_dict_store': (PS, MIPT, "    mcnp2cad['zz'] = None\n" + MIPT),
    'w_getcwd': (CV, HEAD, "    import os\n    here = os.getcwd()\n" + HEAD),
    # display loops
    'x1_display_loop_starred_set': (VT, EMPTY, "        out = []\n        for kw, surfs in (('PLUS', self.pluses), ('MINUS', self.minuses)):\n            out += [kw, len(surfs), *surfs]\n" + EMPTY),
    'x2_display_loop_extend_set': (VT, EMPTY, "        out = []\n        for surfs in (self.pluses, self.minuses):\n            out.extend(surfs)\n" + EMPTY),
    'x3_display_loop_inner_iteration': (VT, EMPTY, "        out = []\n        for kw, surfs in (('PLUS', self.pluses),):\n            for s in surfs:\n                out.append(s)\n" + EMPTY),
    'x4_display_loop_nested_deeper': (VT, EMPTY, "        for kw, pair in (('P', (self.pluses, 1)), ('M', (self.minuses, 2))):\n            pass\n" + EMPTY),
    'x5_display_bound_to_a_name_first': (VT, EMPTY, "        pairs = (('PLUS', self.pluses), ('MINUS', self.minuses))\n        for kw, surfs in pairs:\n            n = len(surfs)\n" + EMPTY),
    'x6_display_loop_join_set': (VT, EMPTY, "        for kw, surfs in (('PLUS', self.pluses), ('MINUS', self.minuses)):\n            txt = ' '.join(map(str, surfs))\n" + EMPTY),
    'y1_ACCEPT_display_loop_len_sorted': (VT, EMPTY, "        total = 0\n        for surfs in (self.pluses, self.minuses):\n            if surfs:\n                total += len(surfs) + (1 if 3 in surfs else 0) + sorted(surfs)[0]\n" + EMPTY),
    # commutative bodies
    'z1_ACCEPT_delete_loop_over_difference': (CV, "    unused = fictives - used\n" + UNUSED, "    for key in fictives - used:\n        del dic[key]"),
    'z2_delete_loop_with_print': (CV, UNUSED, UNUSED + "\n        print(key)"),
    'z3_loop_appending_keys': (CV, UNUSED, "    order = []\n    for key in unused:\n        order.append(key)\n        del dic[key]"),
    'z4_delete_from_iterated_set_owner': (CV, UNUSED, "    for key in unused:\n        unused.discard(key)"),
    # tuples of sets across a function boundary
    't1_ACCEPT_tuple_of_sets_unpacked': (VT, SIDS, "    def both(self):\n        return self.pluses, self.minuses, 1\n\n    def total(self):\n        plus, minus, _one = self.both()\n        return len(plus) + len(minus) + (1 if 3 in plus else 0)\n\n" + SIDS),
    't2_tuple_of_sets_indexed': (VT, SIDS, "    def both(self):\n        return self.pluses, self.minuses\n\n    def first(self):\n        return list(self.both()[0])\n\n" + SIDS),
    't3_tuple_of_sets_unpacked_then_iterated': (VT, SIDS, "    def both(self):\n        return self.pluses, self.minuses\n\n    def flat(self):\n        plus, minus = self.both()\n        return [s for s in plus] + sorted(minus)\n\n" + SIDS),
    't4_tuple_of_sets_passed_on': (VT, SIDS, "    def both(self):\n        return self.pluses, self.minuses\n\n    def show(self):\n        print(self.both())\n\n" + SIDS),
    't5_tuple_of_sets_arity_mismatch': (VT, SIDS, "    def both(self):\n        if self.fictive:\n            return self.pluses, self.minuses\n        return self.pluses, self.minuses, 1\n\n    def count(self):\n        parts = self.both()\n        return len(parts)\n\n" + SIDS),
    't6_tuple_of_sets_starred_unpack': (VT, SIDS, "    def both(self):\n        return self.pluses, self.minuses, 1\n\n    def rest(self):\n        first, *others = self.both()\n        return others\n\n" + SIDS),
    't7_ACCEPT_parallel_assignment_of_sets': (K + 'Surface/Duplicates.py', "            volu.pluses = new_pluses\n            volu.minuses = new_minuses", "            volu.pluses, volu.minuses = new_pluses, new_minuses"),
    't8_set_factory_defaultdict': (CV, HEAD, "    from collections import defaultdict\n    groups = defaultdict(set)\n" + HEAD),
    # read-only tables
    'f1_ACCEPT_module_dispatch_table_read_only': (CV, "def extract_used_surfaces(volumes):", "_OPERATORS = {'INTE': 'intersection', 'UNION': 'union'}\n\n\ndef _operator_name(code):\n    return _OPERATORS[code] if code in _OPERATORS else _OPERATORS.get(code, '')\n\n\ndef extract_used_surfaces(volumes):"),
    'f2_module_table_mutated': (CV, "def extract_used_surfaces(volumes):", "_SEEN = {'INTE': 0}\n\n\ndef _note(code):\n    _SEEN[code] = _SEEN.get(code, 0) + 1\n\n\ndef extract_used_surfaces(volumes):"),
    'f3_module_table_passed_to_callee': (CV, "def extract_used_surfaces(volumes):", "_TABLE = {'INTE': 0}\n\n\ndef _leak():\n    return fill_in(_TABLE)\n\n\ndef extract_used_surfaces(volumes):"),
    'f4_module_table_aliased': (CV, "def extract_used_surfaces(volumes):", "_TABLE = {'INTE': 0}\n\n\ndef _alias():\n    table = _TABLE\n    return table\n\n\ndef extract_used_surfaces(volumes):"),
    'f5_module_table_of_lists': (CV, "def extract_used_surfaces(volumes):", "_GROUPS = {'INTE': []}\n\n\ndef _group(code):\n    return _GROUPS[code]\n\n\ndef extract_used_surfaces(volumes):"),
    'f6_module_string_set_iterated': (CV, "def extract_used_surfaces(volumes):", "_NAMES = {'a', 'b'}\n\n\ndef _names():\n    return [n for n in _NAMES]\n\n\ndef extract_used_surfaces(volumes):"),
    'f7_ACCEPT_module_string_set_membership': (CV, "def extract_used_surfaces(volumes):", "_NAMES = {'a', 'b'}\n\n\ndef _known(name):\n    return name in _NAMES\n\n\ndef extract_used_surfaces(volumes):"),
    'f8_class_level_cache_dict': (CC, "    '''Class which contains methods to convert the Cell of MCNP in T4 Volume'''\n", "    '''Class which contains methods to convert the Cell of MCNP in T4 Volume'''\n\n    seen_cells = {0: 0}\n\n    def note(self, key):\n        self.seen_cells[key] = 1\n"),
    'f9_table_rebound_in_function': (CV, "def extract_used_surfaces(volumes):", "_TABLE = {'INTE': 0}\n\n\ndef _reset():\n    global _TABLE\n    _TABLE = {'UNION': 1}\n\n\ndef extract_used_surfaces(volumes):"),
    # decorators
    'r1_memo_decorator_closure': (K + 'Surface/ConversionSurfaceMCNPToT4.py', "def convert_mcnp_surface(", "def _memo(func):\n    table = {}\n\n    def wrapper(key, surfs):\n        if key not in table:\n            table[key] = func(key, surfs)\n        return table[key]\n    return wrapper\n\n\n@_memo\ndef convert_mcnp_surface("),
    'r2_ACCEPT_registrar_decorator': (CV, "def extract_used_surfaces(volumes):", "_STAGES = {}\n\n\ndef _stage(name):\n    def decorator(func):\n        _STAGES[name] = func\n        return func\n    return decorator\n\n\n@_stage('used')\ndef extract_used_surfaces(volumes):"),
    'r3_registrar_also_called_at_run_time': (CV, "def extract_used_surfaces(volumes):", "_STAGES = {}\n\n\ndef _stage(name):\n    def decorator(func):\n        _STAGES[name] = func\n        return func\n    return decorator\n\n\ndef _late(func):\n    return _stage('late')(func)\n\n\n@_stage('used')\ndef extract_used_surfaces(volumes):"),
    'r4_table_filled_at_run_time': (CV, "def extract_used_surfaces(volumes):", "_STAGES = {}\n_STAGES['a'] = 1\n\n\ndef _fill(name):\n    _STAGES[name] = 2\n\n\ndef extract_used_surfaces(volumes):"),
    # allow-list wildcard: the text must still match, and only in that file
    'g1_pickle_dump_elsewhere': (CV, HEAD, "    import pickle\n    with open('x.cache', 'wb') as dicfile:\n        pickle.dump((dict_cell, skipped_cells), dicfile)\n" + HEAD),
    'n_ACCEPT_nothing_changed': None,
}


def run(repo='/repo'):
    allow = allow_keys()
    root = Path(tempfile.mkdtemp(prefix='c18_probes_'))
    ok_all = True
    try:
        for name, probe in PROBES.items():
            tree = root / name
            for top in ('t4_geom_convert', 'MIP'):
                shutil.copytree(Path(repo) / top, tree / top,
                                ignore=shutil.ignore_patterns('__pycache__'))
            if probe:
                rel, old, new = probe
                text = (tree / rel).read_text()
                if text.count(old) != 1:
                    print('SKIP', name, '(anchor text not found once)')
                    continue
                (tree / rel).write_text(text.replace(old, new))
            entries, _ = c18_audit.audit(tree)
            bad = [e for e in entries if not entry_ok(e, allow)]
            good = (not bad) == ('ACCEPT' in name)
            ok_all = ok_all and good
            print('OK ' if good else 'BAD', name,
                  'FLAGGED' if bad else 'clean',
                  [(e['text'][:48], e['c']) for e in bad][:2])
            shutil.rmtree(tree)
    finally:
        shutil.rmtree(root, ignore_errors=True)
    print('ALL AS EXPECTED' if ok_all else 'SOME UNEXPECTED')
    return 0 if ok_all else 1


if __name__ == '__main__':
    sys.exit(run(sys.argv[1] if len(sys.argv) > 1 else '/repo'))
