'''C08: independent validator of a written TRIPOLI-4 file, clause by clause of
the property text.  Own tokenizer (does not share code with the converter nor
with the Coq model); impl.T4File is run as a second reader and anything it
cannot understand is reported too.

validate(text, blocks) -> list of (clause, message); empty = structurally
valid.  `blocks` = which optional blocks the options asked for.'''
import math
import re

import impl

NUMBER = re.compile(r'[-+]?(\d+\.?\d*|\.\d+)([eE][-+]?\d+)?\Z')
INTEGER = re.compile(r'\d+\Z')
KEYWORDS = ('PLUS', 'MINUS', 'UNION', 'INTE', 'FICTIVE', 'ENDV')
SURF_ARITY = {'PLANEX': 1, 'PLANEY': 1, 'PLANEZ': 1, 'PLANE': 4, 'SPHERE': 4,
              'CYLX': 3, 'CYLY': 3, 'CYLZ': 3, 'CYL': 7, 'CONEX': 4,
              'CONEY': 4, 'CONEZ': 4, 'CONE': 7, 'QUAD': 10, 'TORUSX': 6,
              'TORUSY': 6, 'TORUSZ': 6}


def finite_number(tok):
    if not NUMBER.match(tok):
        return False
    return math.isfinite(float(tok))


class Reading:
    def __init__(self):
        self.surfaces = {}       # id -> (type, params)
        self.transforms = set()
        self.volumes = {}        # id -> dict
        self.vol_order = []
        self.comp_declared = None
        self.comps = []          # (name, declared, n_items)
        self.geomcomp = None     # [(name, declared, [tokens])]
        self.bc_declared = None
        self.bcs = []
        self.blocks = set()
        self.closed = set()
        self.problems = []

    def bad(self, clause, msg):
        self.problems.append((clause, msg))


def _read_volume(rd, toks, line):
    if len(toks) < 4 or toks[-1] != 'ENDV' or toks[2] != 'EQUA' \
            or not INTEGER.match(toks[1]):
        rd.bad('syntax', f'malformed VOLU line {line!r}')
        return
    vid = int(toks[1])
    vol = {'plus': [], 'minus': [], 'op': None, 'args': [], 'fictive': False}
    body = toks[3:-1]
    k = 0
    seen_kw = []
    while k < len(body):
        word = body[k]
        if word == 'FICTIVE':
            vol['fictive'] = True
            seen_kw.append(word)
            k += 1
            continue
        if word not in ('PLUS', 'MINUS', 'UNION', 'INTE'):
            rd.bad('syntax', f'VOLU {vid}: unexpected token {word!r}')
            return
        if word in seen_kw or (word in ('UNION', 'INTE') and
                               vol['op'] is not None):
            rd.bad('syntax', f'VOLU {vid}: {word} given twice')
        seen_kw.append(word)
        if k + 1 >= len(body) or not INTEGER.match(body[k + 1]):
            rd.bad('count', f'VOLU {vid}: {word} without a count')
            return
        declared = int(body[k + 1])
        k += 2
        items = []
        while k < len(body) and body[k] not in KEYWORDS:
            items.append(body[k])
            k += 1
        if declared != len(items):
            rd.bad('count', f'VOLU {vid}: {word} declares {declared} but '
                            f'{len(items)} item(s) follow')
        ids = []
        for tok in items:
            if tok == 'None':
                rd.bad('none-operand',
                       f'VOLU {vid}: {word} operand is the word None')
            elif not INTEGER.match(tok):
                rd.bad('syntax', f'VOLU {vid}: {word} item {tok!r} is not a '
                                 'number')
            else:
                ids.append(int(tok))
        if len(set(ids)) != len(ids) and word in ('PLUS', 'MINUS'):
            rd.bad('dup-item', f'VOLU {vid}: {word} lists a surface twice')
        if word == 'PLUS':
            vol['plus'] = ids
        elif word == 'MINUS':
            vol['minus'] = ids
        else:
            vol['op'], vol['args'] = word, ids
    if vid in rd.volumes:
        rd.bad('dup-id', f'VOLU {vid} defined twice')
    rd.volumes[vid] = vol
    rd.vol_order.append(vid)


def _read_geometry_line(rd, line):
    code = line.split('//', 1)[0]
    toks = code.split()
    if not toks or toks[0] in ('TITLE', 'HASH_TABLE'):
        return
    if toks[0] == 'TRANSFORM':
        if len(toks) != 15 or toks[2] != 'MATRIX' \
                or not INTEGER.match(toks[1]):
            rd.bad('syntax', f'malformed TRANSFORM line {line!r}')
            return
        for tok in toks[3:]:
            if not finite_number(tok):
                rd.bad('number', f'TRANSFORM {toks[1]}: {tok!r} is not a '
                                 'finite number')
        if int(toks[1]) in rd.transforms:
            rd.bad('dup-id', f'TRANSFORM {toks[1]} defined twice')
        rd.transforms.add(int(toks[1]))
    elif toks[0] == 'SURF':
        if len(toks) < 3 or not INTEGER.match(toks[1]):
            rd.bad('syntax', f'malformed SURF line {line!r}')
            return
        sid = int(toks[1])
        rest = toks[2:]
        if rest[0] == 'TRANSFORM':
            if len(rest) < 3 or not INTEGER.match(rest[1]):
                rd.bad('syntax', f'malformed SURF line {line!r}')
                return
            if int(rest[1]) not in rd.transforms:
                rd.bad('ref-transform', f'SURF {sid} uses TRANSFORM '
                                        f'{rest[1]} which is not defined')
            rest = rest[2:]
        typ, params = rest[0], rest[1:]
        if typ not in SURF_ARITY:
            rd.bad('syntax', f'SURF {sid}: unknown type {typ!r}')
        elif len(params) != SURF_ARITY[typ]:
            rd.bad('count', f'SURF {sid}: {typ} with {len(params)} '
                            'parameter(s)')
        for tok in params:
            if not finite_number(tok):
                rd.bad('number', f'SURF {sid}: {tok!r} is not a finite '
                                 'number')
        if sid in rd.surfaces:
            rd.bad('dup-id', f'SURF {sid} defined twice')
        rd.surfaces[sid] = (typ, params)
    elif toks[0] == 'VOLU':
        _read_volume(rd, toks, line)
    else:
        rd.bad('syntax', f'unknown geometry line {line!r}')


def _read_compositions(rd, toks):
    if not toks or not INTEGER.match(toks[0]):
        rd.bad('syntax', 'COMPOSITION block without a count')
        return
    rd.comp_declared = int(toks[0])
    k = 1
    while k < len(toks):
        typ = toks[k]
        try:
            if typ == 'POINT_WISE':
                temp, name, cnt = toks[k + 1], toks[k + 2], toks[k + 3]
                k += 4
            elif typ == 'DENSITY':
                temp, name, rho = toks[k + 1], toks[k + 2], toks[k + 3]
                k += 4
                if not finite_number(rho):
                    rd.bad('number', f'composition {name}: density {rho!r}')
                if toks[k] == 'NB_ATOM':
                    k += 1
                cnt = toks[k]
                k += 1
            else:
                rd.bad('syntax', f'COMPOSITION: unexpected token {typ!r}')
                return
        except IndexError:
            rd.bad('syntax', 'COMPOSITION block ends in the middle of a '
                             'composition')
            return
        if not finite_number(temp):
            rd.bad('number', f'composition {name}: temperature {temp!r}')
        if not INTEGER.match(cnt):
            rd.bad('count', f'composition {name}: count {cnt!r}')
            return
        items = 0
        while k + 1 < len(toks) and toks[k] not in ('POINT_WISE', 'DENSITY'):
            if not finite_number(toks[k + 1]):
                rd.bad('number', f'composition {name}: amount '
                                 f'{toks[k + 1]!r} of {toks[k]}')
            items += 1
            k += 2
        if k < len(toks) and toks[k] not in ('POINT_WISE', 'DENSITY'):
            rd.bad('syntax', f'composition {name}: dangling token '
                             f'{toks[k]!r}')
            return
        if items != int(cnt):
            rd.bad('count', f'composition {name} declares {cnt} nuclide(s) '
                            f'but {items} follow')
        rd.comps.append((name, int(cnt), items))


def _read_geomcomp(rd, lines):
    rd.geomcomp = []
    for line in lines:
        toks = line.split()
        if len(toks) < 2 or not INTEGER.match(toks[1]):
            rd.bad('syntax', f'malformed GEOMCOMP line {line!r}')
            continue
        if int(toks[1]) != len(toks) - 2:
            rd.bad('count', f'GEOMCOMP {toks[0]} declares {toks[1]} volume(s) '
                            f'but {len(toks) - 2} follow')
        rd.geomcomp.append((toks[0], int(toks[1]), toks[2:]))


def _read_bc(rd, toks):
    if not toks or not INTEGER.match(toks[0]):
        rd.bad('syntax', 'BOUNDARY_CONDITION block without a count')
        return
    rd.bc_declared = int(toks[0])
    rest = toks[1:]
    if len(rest) % 3:
        rd.bad('syntax', 'BOUNDARY_CONDITION entries are not triples')
    for k in range(0, len(rest) - 2, 3):
        if rest[k] != 'ALL_COMPLETE' or rest[k + 1] not in (
                'REFLECTION', 'COSINUS') or not INTEGER.match(rest[k + 2]):
            rd.bad('syntax', f'malformed boundary condition {rest[k:k + 3]}')
            continue
        rd.bcs.append((rest[k + 1], int(rest[k + 2])))


OPEN = {'GEOMETRY': 'ENDG', 'COMPOSITION': 'END_COMPOSITION',
        'GEOMCOMP': 'END_GEOMCOMP',
        'BOUNDARY_CONDITION': 'END_BOUNDARY_CONDITION'}


def read(text):
    rd = Reading()
    section, buf = None, []
    seen_lang = False
    for line in text.split('\n'):
        stripped = line.strip()
        if not stripped or (section is None and stripped.startswith('//')):
            continue
        if section is None:
            if stripped.startswith('LANG'):
                seen_lang = True
            elif stripped in OPEN:
                if stripped in rd.blocks:
                    rd.bad('syntax', f'block {stripped} appears twice')
                section, buf = stripped, []
                rd.blocks.add(stripped)
            else:
                rd.bad('syntax', f'text outside any block: {stripped!r}')
            continue
        if stripped == OPEN[section]:
            rd.closed.add(section)
            if section == 'COMPOSITION':
                _read_compositions(rd, ' '.join(buf).split())
            elif section == 'GEOMCOMP':
                _read_geomcomp(rd, buf)
            elif section == 'BOUNDARY_CONDITION':
                _read_bc(rd, ' '.join(buf).split())
            section = None
            continue
        if section == 'GEOMETRY':
            _read_geometry_line(rd, stripped)
        else:
            buf.append(stripped)
    if section is not None:
        rd.bad('truncated', f'block {section} is not closed')
    if not seen_lang or 'GEOMETRY' not in rd.blocks:
        rd.bad('truncated', 'no GEOMETRY block')
    return rd


def validate(text, want_comp=True, want_geomcomp=True):
    rd = read(text)
    bad = rd.bad
    # references from volumes
    for vid in rd.vol_order:
        vol = rd.volumes[vid]
        for side in ('plus', 'minus'):
            for sid in vol[side]:
                if sid not in rd.surfaces:
                    bad('ref-surface', f'VOLU {vid} uses SURF {sid} which is '
                                       'not defined')
        both = set(vol['plus']) & set(vol['minus'])
        if both:
            bad('both-sides', f'VOLU {vid} lists surface(s) {sorted(both)} '
                              'on both sides')
        for arg in vol['args']:
            if arg not in rd.volumes:
                bad('ref-volume', f'VOLU {vid} {vol["op"]} operand {arg} is '
                                  'not defined')
    # compositions
    if 'COMPOSITION' in rd.closed and rd.comp_declared is not None:
        if rd.comp_declared != len(rd.comps):
            bad('composition-count', f'COMPOSITION declares '
                f'{rd.comp_declared} but {len(rd.comps)} are written')
        names = [n for n, _, _ in rd.comps]
        if len(set(names)) != len(names):
            bad('dup-id', 'a composition name is defined twice')
    elif want_comp and 'GEOMETRY' in rd.closed:
        bad('truncated', 'no COMPOSITION block')
    # geomcomp
    if rd.geomcomp is not None and 'GEOMCOMP' in rd.closed:
        count = {}
        for name, _decl, toks in rd.geomcomp:
            for tok in toks:
                if not INTEGER.match(tok):
                    bad('syntax', f'GEOMCOMP {name}: item {tok!r}')
                    continue
                vid = int(tok)
                if vid not in rd.volumes:
                    bad('geomcomp-ref', f'GEOMCOMP {name} lists VOLU {vid} '
                                        'which is not defined')
                count[vid] = count.get(vid, 0) + 1
            if 'COMPOSITION' in rd.closed and \
                    name not in [n for n, _, _ in rd.comps]:
                bad('geomcomp-name', f'GEOMCOMP line names composition '
                                     f'{name} which is not defined')
        for vid in rd.vol_order:
            if not rd.volumes[vid]['fictive'] and count.get(vid, 0) != 1:
                bad('geomcomp-partition', f'non-FICTIVE VOLU {vid} appears in '
                    f'{count.get(vid, 0)} GEOMCOMP line(s)')
    elif want_geomcomp and 'GEOMETRY' in rd.closed:
        bad('truncated', 'no GEOMCOMP block')
    # boundary conditions
    if rd.bc_declared is not None:
        if rd.bc_declared != len(rd.bcs):
            bad('count', f'BOUNDARY_CONDITION declares {rd.bc_declared} but '
                         f'{len(rd.bcs)} follow')
        for _kind, sid in rd.bcs:
            if sid not in rd.surfaces:
                bad('bc-ref', f'boundary condition on SURF {sid} which is '
                              'not defined')
    # second reader
    try:
        t4 = impl.T4File(text)
        second = list(t4.errors) + list(t4.numeric_errors)
    except Exception as exc:      # pylint: disable=broad-except
        second = [f'{type(exc).__name__}: {exc}']
    if second and not rd.problems:
        bad('reader', 'impl.T4File: ' + '; '.join(second[:3]))
    return rd.problems, rd
