'''C08: tie of the tail of convertMCNPGeometry + writeT4Geometry on SYNTHETIC
tables, including malformed ones no deck can produce (None operands, operands
that are not volumes, surfaces missing from the dictionary, a surface on both
sides, an empty volume table, skipped keys that are volumes).  The real
convertMCNPGeometry runs with construct_surface_t4 / construct_volume_t4
replaced by stubs returning the synthetic tables, then the real writeT4Geometry
writes them; the model runs convert_tail on the same tables.'''
import contextlib
import io
import types

import c08_capture as cap_mod

TYPES = ['PLANEX', 'PLANEY', 'SPHERE', 'CYLZ']


def gen_tables(rng, malformed):
    '''Plain-data tables: surfs [(key, type, params)], vols [(key, plus, minus,
    ops, fictive)], skipped, union ids.'''
    n_surf = rng.randint(1, 5)
    keys = rng.sample(range(1, 12), n_surf)
    surfs = []
    for k in keys:
        if surfs and rng.random() < 0.35:
            src = rng.choice(surfs)
            surfs.append((k, src[1], list(src[2])))
        else:
            typ = rng.choice(TYPES)
            arity = {'PLANEX': 1, 'PLANEY': 1, 'SPHERE': 4, 'CYLZ': 3}[typ]
            surfs.append((k, typ, [float(rng.choice([-1, 0, 1, 2, 0.5]))
                                   for _ in range(arity)]))
    u0, u1 = 20, 21
    if rng.random() < 0.9:
        surfs.append((u0, 'PLANEX', [1]))
    if rng.random() < 0.9:
        surfs.append((u1, 'PLANEX', [-1]))
    if rng.random() < 0.15:
        rng.shuffle(surfs)
    n_vol = rng.choice([0, 1, 2, 3, 4, 5, 6]) if malformed else rng.randint(1, 6)
    vkeys = rng.sample(range(1, 15), n_vol)
    pool = [k for k, _, _ in surfs if k not in (u0, u1)] or [1]
    vols = []
    for k in vkeys:
        plus = set(rng.sample(pool, rng.randint(0, min(2, len(pool)))))
        minus = set(rng.sample(pool, rng.randint(0, min(2, len(pool)))))
        if not malformed or rng.random() < 0.6:
            if rng.random() < 0.7:
                minus -= plus
        if malformed and rng.random() < 0.15:
            plus.add(rng.randint(30, 33))         # not in the dictionary
        ops = None
        if rng.random() < 0.55 and len(vkeys) > 1:
            kind = rng.choice(['UNION', 'INTE'])
            others = [x for x in vkeys if x != k]
            args = [rng.choice(others) for _ in range(rng.randint(1, 3))]
            if malformed:
                r = rng.random()
                if r < 0.15:
                    args[rng.randrange(len(args))] = None
                elif r < 0.3:
                    args[rng.randrange(len(args))] = rng.randint(40, 44)
                elif r < 0.4:
                    args.append(k)                # self reference
            ops = (kind, args)
        vols.append((k, sorted(plus), sorted(minus), ops,
                     rng.random() < 0.5))
    skipped = []
    if malformed and vkeys and rng.random() < 0.2:
        skipped = [rng.choice(vkeys)]
    elif rng.random() < 0.3:
        skipped = [rng.randint(50, 55)]
    return {'surfs': surfs, 'vols': vols, 'skipped': skipped,
            'union_ids': (u0, u1)}


def run_impl(tables, skip_dedup):
    '''(exception class or '', text written by writeT4Geometry or None).'''
    from t4_geom_convert.Kernel.FileHandlers.Writer import WriteT4Geometry as WG
    from t4_geom_convert.Kernel.Volume.VolumeT4 import VolumeT4
    from t4_geom_convert.Kernel.Volume.DictVolumeT4 import DictVolumeT4
    from t4_geom_convert.Kernel.Surface.SurfaceT4 import SurfaceT4
    from t4_geom_convert.Kernel.Surface.ESurfaceTypeT4 import ESurfaceTypeT4 as T4S
    dic_surf = {}
    for k, typ, params in tables['surfs']:
        origin = ['aux plane for unions'] if k in tables['union_ids'] else [k]
        dic_surf[k] = SurfaceT4(getattr(T4S, typ), params, origin)
    dic_vol = DictVolumeT4()
    for k, plus, minus, ops, fictive in tables['vols']:
        dic_vol[k] = VolumeT4(plus, minus,
                              ops=None if ops is None else (ops[0], tuple(ops[1])),
                              fictive=fictive)
    stage0 = (dic_vol, {}, dic_surf, list(tables['skipped']),
              tuple(tables['union_ids']))
    args = types.SimpleNamespace(input='synthetic.imcnp', cache=False,
                                 always_inline_filled=False,
                                 always_inline_filling=False,
                                 max_inline_score=1.0,
                                 skip_deduplication=skip_dedup)
    from t4_geom_convert.Kernel.Volume import ConstructVolumeT4 as CV
    from t4_geom_convert.Kernel.Surface import ConstructSurfaceT4 as CS
    orig_v, orig_s = CV.construct_volume_t4, CS.construct_surface_t4
    stubs = {orig_v: (lambda *a, **k: stage0), orig_s: (lambda parser: ({}, {}))}
    patched = []
    for mod in (CV, CS, WG):
        for name, value in list(vars(mod).items()):
            if value is orig_v or value is orig_s:
                patched.append((mod, name, value))
                setattr(mod, name, stubs[value])
    buf = io.StringIO()
    try:
      with contextlib.redirect_stdout(io.StringIO()):
        try:
            result = WG.convertMCNPGeometry(None, {}, args)
        except (KeyError, ValueError) as exc:
            return type(exc).__name__, None
        try:
            WG.writeT4Geometry(result[1], result[2], result[4], buf)
        except (KeyError, ValueError) as exc:
            return type(exc).__name__, buf.getvalue()
    finally:
        for mod, name, value in patched:
            setattr(mod, name, value)
    return '', buf.getvalue()


def capture_of(tables):
    cap = cap_mod.Capture()
    cap.surfs = []
    for k, typ, params in tables['surfs']:
        origin = ['aux plane for unions'] if k in tables['union_ids'] else [str(k)]
        cap.surfs.append((k, typ, [float(p) for p in params],
                          [str(p) for p in params], None, origin))
    cap.vols = [(k, plus, minus, ops, [], fictive)
                for k, plus, minus, ops, fictive in tables['vols']]
    cap.skipped = list(tables['skipped'])
    cap.union_ids = tuple(tables['union_ids'])
    cap.cells, cap.bcs, cap.mats, cap.rescaled = [], [], [], []
    return cap


ARGS = ['--skip-compositions', '--skip-geomcomp', '--skip-boundary-conditions']
