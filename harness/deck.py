'''Abstract MCNP decks for the generators, and their rendering to text.

deck = {
  'title': str,
  'cells': [ {'id', 'mat': int, 'rho': spelling or None, 'expr': E,
              'imp': {'n': 1, ...} or None, 'u': int, 'lat': None|1|2,
              'fill': None | {'u': n, 'tr': T}
                           | {'ranges': [(lo,hi),..], 'array': [u,..], 'tr': T,
                              'homogeneous': bool},
              'trcl': T, 'like': None | n, 'but': {...},
              'lat_vectors', 'lat_centre' (ground truth for lattices)} ],
  'surfaces': [ {'id', 'mn', 'params': [floats], 'tr': None|n, 'bc': ''|'*'|'+'} ],
  'transforms': { n: {'O': (3), 'B': 9 cosines or None, 'star': bool,
                      'print': entries as printed (angles if star)} },
  'materials': { n: [tokens] },
  'data': [extra data-card lines],
}
E ::= ('s', +-id) | ('f', +-id, k) | ('*', E, ...) | (':', E, ...)
    | ('#', E) | ('#c', cell id)
T ::= None | ('num', n) | {'O','B','star','print'}  (inline)
'''
import math
import random


def num(x):
    '''Shortest spelling that float() reads back exactly.'''
    if isinstance(x, int):
        return str(x)
    if x == int(x) and abs(x) < 1e15:
        return str(int(x)) if random.random() < 0.0 else repr(float(x))
    return repr(float(x))


# ---------------------------------------------------------------------------
# expressions
# ---------------------------------------------------------------------------

def S(n):
    return ('s', n)


def expr_text(expr, top=True):
    '''Canonical layout: blanks for intersection, " : " for union, parentheses
    only where precedence needs them.'''
    tag = expr[0]
    if tag == 's':
        return str(expr[1])
    if tag == 'f':
        return f'{expr[1]}.{expr[2]}'
    if tag == '#c':
        return f'#{expr[1]}'
    if tag == '#':
        return f'#({expr_text(expr[1])})'
    if tag == '*':
        parts = []
        for sub in expr[1:]:
            txt = expr_text(sub, top=False)
            if sub[0] == ':':
                txt = f'({txt})'
            parts.append(txt)
        return ' '.join(parts)
    if tag == ':':
        return ' : '.join(expr_text(sub, top=False) for sub in expr[1:])
    raise ValueError(f'bad expression {expr!r}')


def expr_surfaces(expr, out=None):
    out = set() if out is None else out
    if expr[0] in ('s', 'f'):
        out.add(abs(expr[1]))
    elif expr[0] in ('*', ':', '#'):
        for sub in expr[1:]:
            expr_surfaces(sub, out)
    return out


# ---------------------------------------------------------------------------
# transformations
# ---------------------------------------------------------------------------

def rotation(axis, degrees):
    '''Rotation matrix (rows) about a coordinate axis by a multiple of 15
    degrees, with exact zeros/ones where they belong.'''
    c = math.cos(math.radians(degrees))
    s = math.sin(math.radians(degrees))
    for exact in (0.0, 1.0, -1.0, 0.5, -0.5):
        if abs(c - exact) < 1e-12:
            c = exact
        if abs(s - exact) < 1e-12:
            s = exact
    if axis == 0:
        return [[1, 0, 0], [0, c, -s], [0, s, c]]
    if axis == 1:
        return [[c, 0, s], [0, 1, 0], [-s, 0, c]]
    return [[c, -s, 0], [s, c, 0], [0, 0, 1]]


def matmul(a, b):
    return [[sum(a[i][k] * b[k][j] for k in range(3)) for j in range(3)]
            for i in range(3)]


def make_tr(origin, mat=None, star=False):
    '''mat: 3x3 rotation R (columns = auxiliary axes in main coordinates, i.e.
    p_main = O + R p_aux). MCNP's B entries are R transposed, row-major.'''
    tr = {'O': tuple(float(v) for v in origin), 'B': None, 'star': star}
    if mat is None:
        tr['print'] = [float(v) for v in origin]
        return tr
    b = [float(mat[j][i]) for i in range(3) for j in range(3)]
    if star:
        angles = [math.degrees(math.acos(max(-1.0, min(1.0, v)))) for v in b]
        angles = [round(a, 9) for a in angles]
        b = [math.cos(math.radians(a)) for a in angles]
        tr['print'] = [float(v) for v in origin] + angles
    else:
        tr['print'] = [float(v) for v in origin] + b
    tr['B'] = b
    return tr


def random_tr(rng, star=None, translate_only=None):
    origin = [rng.choice([0, 0, 1, -1, 2.5, -3, 0.5]) for _ in range(3)]
    if translate_only is None:
        translate_only = rng.random() < 0.3
    if translate_only:
        return make_tr(origin)
    mat = rotation(rng.randrange(3), rng.choice([30, 45, 60, 90, 120, 180,
                                                 270, -90, 15]))
    if rng.random() < 0.4:
        mat = matmul(mat, rotation(rng.randrange(3),
                                   rng.choice([90, 180, 30, -60])))
    if star is None:
        star = rng.random() < 0.4
    return make_tr(origin, mat, star)


def tr_text(tr):
    return ' '.join(num(v) for v in tr['print'])


# ---------------------------------------------------------------------------
# rendering
# ---------------------------------------------------------------------------

def trspec_text(kw, spec):
    '''TRCL=... / fill transformation text.'''
    if spec is None:
        return ''
    if isinstance(spec, tuple) and spec[0] == 'num':
        return f'{kw}={spec[1]}'
    star = '*' if spec.get('star') else ''
    return f'{star}{kw}=({tr_text(spec)})'


def cell_text(cell):
    if cell.get('like') is not None:
        parts = [f'{cell["id"]} like {cell["like"]} but']
        but = cell.get('but', {})
        if 'mat' in but:
            parts.append(f'mat={but["mat"]}')
        if 'rho' in but:
            parts.append(f'rho={but["rho"]}')
        parts.extend(cell_options(but))
        return ' '.join(parts)
    head = f'{cell["id"]} {cell["mat"]}'
    if cell['mat'] != 0:
        head += f' {cell["rho"]}'
    parts = [head, expr_text(cell['expr'])]
    parts.extend(cell_options(cell))
    return ' '.join(parts)


def cell_options(cell):
    parts = []
    if cell.get('u'):
        parts.append(f'u={cell["u"]}')
    if cell.get('lat'):
        parts.append(f'lat={cell["lat"]}')
    fill = cell.get('fill')
    if fill is not None:
        tr = fill.get('tr')
        star = '*' if isinstance(tr, dict) and tr.get('star') else ''
        if 'ranges' in fill and not fill.get('homogeneous'):
            txt = f'{star}fill=' + ' '.join(f'{lo}:{hi}'
                                            for lo, hi in fill['ranges'])
            txt += ' ' + ' '.join(str(u) for u in fill['array'])
        else:
            univ = fill['array'][0] if 'array' in fill else fill['u']
            txt = f'{star}fill={univ}'
        if tr is not None:
            if isinstance(tr, tuple):
                txt += f' ({tr[1]})'
            else:
                txt += f' ({tr_text(tr)})'
        parts.append(txt)
    if cell.get('trcl') is not None:
        parts.append(trspec_text('trcl', cell['trcl']))
    imp = cell.get('imp')
    if imp:
        for part, val in imp.items():
            parts.append(f'imp:{part}={num(val) if isinstance(val, float) else val}')
    return parts


def surface_text(surf):
    tr = f' {surf["tr"]}' if surf.get('tr') is not None else ''
    return (f'{surf.get("bc", "")}{surf["id"]}{tr} {surf["mn"]} '
            + ' '.join(num(v) for v in surf['params']))


def wrap(card, width=78):
    '''Continuation lines with five leading blanks.'''
    words = card.split(' ')
    lines, cur = [], ''
    for word in words:
        if cur and len(cur) + 1 + len(word) > width:
            lines.append(cur)
            cur = '      ' + word
        else:
            cur = word if not cur else cur + ' ' + word
    lines.append(cur)
    return '\n'.join(lines)


def render(deck):
    out = [deck.get('title', 'generated deck')]
    for cell in deck['cells']:
        out.append(wrap(cell_text(cell)))
    out.append('')
    for surf in deck['surfaces']:
        out.append(wrap(surface_text(surf)))
    out.append('')
    for n, tr in sorted(deck.get('transforms', {}).items()):
        star = '*' if tr.get('star') else ''
        out.append(wrap(f'{star}tr{n} {tr_text(tr)}'))
    for n, toks in sorted(deck.get('materials', {}).items()):
        out.append(wrap(f'm{n} ' + ' '.join(toks)))
    out.extend(deck.get('data', []))
    return '\n'.join(out) + '\n'


def lattice_args(deck):
    '''--lattice options needed by homogeneous FILL=n lattices.'''
    args = []
    for cell in deck['cells']:
        fill = cell.get('fill')
        if cell.get('lat') and fill and fill.get('homogeneous'):
            spec = ','.join(f'{lo}:{hi}' for lo, hi in fill['ranges'])
            args += ['--lattice', f'{cell["id"]},{spec}']
    return args


# ---------------------------------------------------------------------------
# random geometry: every universe is a partition by construction
# ---------------------------------------------------------------------------

SIMPLE_SURFACES = ['px', 'py', 'pz', 'so', 's', 'cz', 'c/x', 'p', 'cy', 'sx']


def random_surface(rng, sid, scale=4.0, kinds=None):
    mn = rng.choice(kinds or SIMPLE_SURFACES)

    def c():
        return rng.choice([-2, -1, -0.5, 0, 0.5, 1, 1.5, 2]) * scale / 4

    def r():
        return rng.choice([0.75, 1, 1.5, 2, 2.5, 3]) * scale / 4
    if mn in ('px', 'py', 'pz'):
        prm = [c()]
    elif mn == 'so':
        prm = [r()]
    elif mn == 's':
        prm = [c(), c(), c(), r()]
    elif mn in ('sx', 'sy', 'sz'):
        prm = [c(), r()]
    elif mn in ('cx', 'cy', 'cz'):
        prm = [r()]
    elif mn in ('c/x', 'c/y', 'c/z'):
        prm = [c(), c(), r()]
    elif mn == 'p':
        n = [rng.choice([-1, 0, 1, 2]) for _ in range(3)]
        if not any(n):
            n[rng.randrange(3)] = 1
        prm = [float(v) for v in n] + [c()]
    else:
        raise ValueError(mn)
    return {'id': sid, 'mn': mn, 'params': [float(v) for v in prm],
            'tr': None, 'bc': ''}


def bsp(rng, surf_ids, n_leaves):
    '''Binary space partition: returns a list of literal lists (each an
    intersection of signed surface ids) that partition space.'''
    leaves = [[]]
    pool = list(surf_ids)
    rng.shuffle(pool)
    while len(leaves) < n_leaves and pool:
        sid = pool.pop()
        k = rng.randrange(len(leaves))
        if rng.random() < 0.3:
            # split every leaf (global cut) when few leaves
            targets = [k]
        else:
            targets = [k]
        for t in sorted(targets, reverse=True):
            leaf = leaves.pop(t)
            leaves.append(leaf + [-sid])
            leaves.append(leaf + [sid])
    return leaves


def leaf_expr(lits):
    if not lits:
        raise ValueError('empty literal list')
    if len(lits) == 1:
        return S(lits[0])
    return ('*',) + tuple(S(n) for n in lits)


def dress(rng, exprs, cell_ids):
    '''Rewrite some cells of a partition into equivalent forms using unions,
    #(...) and #n. `exprs` are in cell order; returns new expressions.'''
    out = list(exprs)
    n = len(out)
    # merge: turn a random cell into "complement of all the others"
    if n >= 2 and rng.random() < 0.5:
        k = rng.randrange(n)
        out[k] = ('*',) + tuple(('#c', cell_ids[j]) for j in range(n) if j != k) \
            if n > 2 else ('#c', cell_ids[1 - k])
    for k in range(n):
        e = out[k]
        if e[0] == '*' and len(e) > 2 and all(x[0] == 's' for x in e[1:]) \
                and rng.random() < 0.25:
            # De Morgan: A B C = #( -A : -B : -C )
            out[k] = ('#', (':',) + tuple(S(-x[1]) for x in e[1:]))
    return out
