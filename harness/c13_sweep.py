'''C13 sweep: one abstract deck converted under many option vectors; the written
files are compared pairwise THROUGH an independent evaluator (t4eval for points,
a Boolean evaluator over surface descriptors for sense assignments): the owner
volume of every point must have the same provenance comment and the same
composition under every option vector.  Nothing here looks at the model.'''
import itertools
import random
import re

import deck as deckmod
import impl
import t4eval
from geomcheck import parse_provenance

FLAGS = ['--skip-deduplication', '--always-inline-filling',
         '--always-inline-filled']
SCORES = ['0', '0.5', '1', '10', 'inf']


def option_vectors(tier, rng):
    '''All 8 flag combinations x 5 scores (thorough); in the quick tier all 8
    combinations at two scores drawn per deck plus all 5 scores on two
    combinations drawn per deck.'''
    combos = [[f for f, on in zip(FLAGS, bits) if on]
              for bits in itertools.product([False, True], repeat=3)]
    if tier == 'thorough':
        return [c + ['--max-inline-score', s] for c in combos for s in SCORES]
    out = []
    s1, s2 = rng.sample(SCORES, 2)
    for c in combos:
        out.append(c + ['--max-inline-score', s1])
        out.append(c + ['--max-inline-score', s2])
    for c in rng.sample(combos, 2):
        for s in SCORES:
            vec = c + ['--max-inline-score', s]
            if vec not in out:
                out.append(vec)
    out.append([])      # the defaults, spelled with no option at all
    return out


# ---------------------------------------------------------------------------
# deck generator
# ---------------------------------------------------------------------------

KINDS = ['px', 'py', 'pz', 'so', 's', 'cz', 'c/x', 'p', 'cy', 'sx', 'px',
         'py', 'pz']


def fresh_surface(rng, sid, used, dck=None):
    '''A simple surface that coincides with no other surface of the deck and
    with neither union helper plane (x = 1, x = -1).  Some are near-twins of
    an earlier surface (same mnemonic, same leading parameters, another last
    parameter: concentric spheres, coaxial cylinders, parallel planes with the
    same offset on another axis) or tilted tori at the origin that differ
    only by their rotation.'''
    r = rng.random()
    if dck is not None and r < 0.12:
        # torus centred at the origin, tilted about x: TORUSZ + TRANSFORM
        prm = [0.0, 0.0, 0.0, rng.choice([2.0, 2.5]), 0.5, rng.choice([0.5, 0.75])]
        ang = rng.choice([0, 30, 45, 60, 120])
        sig = ('tz', tuple(prm), ang)
        if sig not in used and ang == 0:
            used.add(sig)
            return {'id': sid, 'mn': 'tz', 'params': prm, 'tr': None, 'bc': ''}
        if sig not in used:
            used.add(sig)
            n = rng.randint(61, 90)
            while n in dck['transforms']:
                n = rng.randint(61, 90)
            dck['transforms'][n] = deckmod.make_tr([0, 0, 0],
                                                   deckmod.rotation(0, ang))
            return {'id': sid, 'mn': 'tz', 'params': prm, 'tr': n, 'bc': ''}
    if dck is not None and 0.12 <= r < 0.2:
        # one-sheet cone on the z axis: a collection of two TRIPOLI-4 surfaces
        prm = [rng.choice([-1.0, 0.0, 0.5]), rng.choice([0.25, 1.0]),
               rng.choice([1.0, -1.0])]
        sig = ('kz', tuple(prm))
        if sig not in used:
            used.add(sig)
            return {'id': sid, 'mn': 'kz', 'params': prm, 'tr': None, 'bc': ''}
    if dck is not None and r < 0.35 and dck['surfaces']:
        base = rng.choice(dck['surfaces'])
        mn, prm = base['mn'], list(base['params'])
        if base.get('tr') is None and mn in ('s', 'c/x', 'sx', 'so', 'cz', 'cy'):
            prm[-1] = prm[-1] + rng.choice([0.5, 0.75, 1.25])
            sig = (mn, tuple(prm))
            if sig not in used:
                used.add(sig)
                return {'id': sid, 'mn': mn, 'params': prm, 'tr': None,
                        'bc': ''}
        if base.get('tr') is None and mn in ('px', 'py', 'pz'):
            other = rng.choice([m for m in ('px', 'py', 'pz') if m != mn])
            sig = (other, tuple(prm))
            if sig not in used:
                used.add(sig)
                return {'id': sid, 'mn': other, 'params': prm, 'tr': None,
                        'bc': ''}
    for _ in range(200):
        surf = deckmod.random_surface(rng, sid, scale=4.0, kinds=KINDS)
        prm = surf['params']
        if surf['mn'] in ('px', 'py', 'pz'):
            prm[0] = prm[0] + rng.choice([0.25, -0.25, 0.4])
        if surf['mn'] == 'p':
            prm[3] = prm[3] + rng.choice([0.25, -0.35])
        sig = (surf['mn'], tuple(prm))
        if sig not in used:
            used.add(sig)
            return surf
    raise RuntimeError('could not draw a fresh surface')


def impure(lits, rng):
    '''An expression equal to the intersection of lits that is not a pure
    intersection of surfaces: l1 l2 .. (l1 : l2) by absorption.'''
    base = tuple(deckmod.S(n) for n in lits)
    a = rng.choice(lits)
    b = rng.choice(lits)
    return ('*',) + base + ((':', deckmod.S(a), deckmod.S(b)),)


def gen_tr(rng, dck, plain=True):
    r = rng.random()
    if r < 0.35:
        n = rng.randint(1, 30)
        while n in dck['transforms']:
            n = rng.randint(1, 30)
        dck['transforms'][n] = deckmod.random_tr(rng)
        return ('num', n)
    if r < 0.65:
        return deckmod.random_tr(rng, translate_only=True)
    if r < 0.8 and plain:
        return deckmod.random_tr(rng, star=False, translate_only=False)
    return deckmod.random_tr(rng, star=True, translate_only=False)


def lattice_cell(rng, dck, cid, univ, fillers, next_sid, used):
    '''A LAT=1 cell -a b -c d (x and y pairs) with an explicit FILL array.'''
    x0 = rng.choice([-1.5, -0.5, 0.25])
    y0 = rng.choice([-1.25, 0.0, 0.5])
    px, py = rng.choice([1.0, 1.5, 2.0]), rng.choice([1.0, 2.0])
    ids = []
    for mn, val in (('px', x0 + px), ('px', x0), ('py', y0 + py), ('py', y0)):
        sid = next_sid[0]
        next_sid[0] += 1
        used.add((mn, (val,)))
        dck['surfaces'].append({'id': sid, 'mn': mn, 'params': [val],
                                'tr': None, 'bc': ''})
        ids.append(sid)
    two_d = rng.random() < 0.6
    rx = rng.choice([(-1, 0), (0, 1), (-1, 1)])
    ry = rng.choice([(-1, 0), (0, 1), (0, 2)]) if two_d else (0, 0)
    n = (rx[1] - rx[0] + 1) * (ry[1] - ry[0] + 1)
    array = [rng.choice(fillers + [univ, univ, 0]) for _ in range(n)]
    lits = [-ids[0], ids[1]] + ([-ids[2], ids[3]] if two_d else [])
    return {'id': cid, 'mat': rng.choice([1, 2]), 'rho': '-1.0',
            'expr': deckmod.leaf_expr(lits), 'imp': {'n': 1}, 'u': univ,
            'lat': 1,
            'fill': {'ranges': [rx, ry, (0, 0)], 'array': array, 'tr': None},
            'trcl': None, 'like': None}


def gen_deck(rng):
    depth = rng.choice([0, 1, 1, 2, 2, 3])
    levels = [[0]]
    for lvl in range(1, depth + 1):
        levels.append([lvl * 10 + j for j in range(rng.choice([1, 1, 2]))])
    dck = {'title': 'c13 generated deck', 'cells': [], 'surfaces': [],
           'transforms': {}, 'materials': {}, 'data': []}
    used = set()
    next_sid = [1]
    next_cid = [1]
    shared_tr = []
    poses = {}
    info = {'lattice': False, 'unions': 0, 'impure_unions': 0, 'dups': 0,
            'helper_twin': False, 'depth': depth, 'slivers': 0,
            'shared_literals': 0}

    def new_cid():
        cid = next_cid[0]
        next_cid[0] += rng.choice([1, 1, 2, 5])
        return cid

    for lvl, univs in enumerate(levels):
        for u in univs:
            deeper = [x for lv in levels[lvl + 1:] for x in lv]
            if lvl > 0 and rng.random() < 0.2:
                # the whole universe is one lattice cell
                info['lattice'] = True
                dck['cells'].append(lattice_cell(
                    rng, dck, new_cid(), u,
                    deeper[:2], next_sid, used))
                continue
            n_cells = rng.choice([2, 2, 3]) if lvl else rng.choice([2, 3, 4])
            n_leaves = n_cells + rng.choice([0, 1, 2])
            sids = []
            for _ in range(n_leaves - 1 + rng.choice([0, 0, 1])):
                surf = fresh_surface(rng, next_sid[0], used, dck)
                next_sid[0] += 1
                dck['surfaces'].append(surf)
                sids.append(surf['id'])
            leaves = deckmod.bsp(rng, sids, n_leaves)
            # merge surplus leaves into union cells
            groups = [[leaf] for leaf in leaves]
            while len(groups) > n_cells:
                a = groups.pop(rng.randrange(len(groups)))
                groups[rng.randrange(len(groups))].extend(a)
            common_trcl = None
            if rng.random() < 0.12:
                common_trcl = gen_tr(rng, dck, plain=False)
            for group in groups:
                if len(group) == 1:
                    expr = deckmod.leaf_expr(group[0]) if rng.random() < 0.85 \
                        else impure(group[0], rng)
                else:
                    info['unions'] += 1
                    if rng.random() < 0.5:
                        info['impure_unions'] += 1
                        parts = [impure(lits, rng) for lits in group]
                    else:
                        parts = [deckmod.leaf_expr(lits) for lits in group]
                    expr = (':',) + tuple(parts)
                cell = {'id': new_cid(), 'mat': rng.choice([1, 2, 3]),
                        'rho': rng.choice(['-1.0', '-2.7', '0.05']),
                        'expr': expr, 'imp': {'n': 1}, 'u': u, 'lat': None,
                        'fill': None, 'trcl': common_trcl, 'like': None}
                if deeper and rng.random() < (0.7 if lvl == 0 else 0.5):
                    tr = None
                    r = rng.random()
                    if r < 0.6:
                        if shared_tr and rng.random() < 0.4:
                            tr = rng.choice(shared_tr)    # same pose again
                        else:
                            tr = gen_tr(rng, dck)
                            shared_tr.append(tr)
                    elif r < 0.75 and cell['trcl'] is None:
                        cell['trcl'] = gen_tr(rng, dck, plain=False)
                    nxt = levels[lvl + 1] if rng.random() < 0.8 else deeper
                    univ = rng.choice(nxt)
                    if tr is not None and poses.get(univ) and rng.random() < 0.5:
                        # the same universe again with the SAME translation and
                        # another rotation (or the same rotation elsewhere): the
                        # cell_transform cache must tell them apart
                        base = rng.choice(poses[univ])
                        base = dck['transforms'][base[1]] \
                            if isinstance(base, tuple) else base
                        r2 = rng.random()
                        if r2 < 0.35:
                            # a sibling pose: every coefficient as before but one
                            # translation coordinate, taken from a small pool of
                            # whole numbers (-1 next to -2 in particular)
                            o = list(base['O'])
                            i = rng.randrange(3)
                            o[i] = {-1.0: -2.0, -2.0: -1.0}.get(
                                o[i], rng.choice([-1.0, -2.0, 1.0, 2.0]))
                            tr = dict(base)
                            tr['O'] = tuple(o)
                            tr['print'] = list(o) + list(base['print'][3:])
                        elif r2 < 0.8:
                            mat = deckmod.rotation(rng.randrange(3),
                                                   rng.choice([90, 180, 30, -60]))
                            tr = deckmod.make_tr(base['O'], mat, star=False)
                        elif base.get('B') is not None:
                            tr = dict(base)
                            shift = [v + rng.choice([0.5, -1.0]) for v in base['O']]
                            tr['O'] = tuple(shift)
                            tr['print'] = list(shift) + list(base['print'][3:])
                    elif tr is not None and isinstance(tr, dict) \
                            and tr.get('B') is None and rng.random() < 0.4:
                        # first pose of this universe: a translation by whole
                        # numbers, so that siblings differ by one unit
                        o = [rng.choice([0.0, -1.0, -2.0, 1.0]) for _ in range(3)]
                        tr = deckmod.make_tr(o)
                    if tr is not None:
                        poses.setdefault(univ, []).append(tr)
                    cell['fill'] = {'u': univ, 'tr': tr}
                    cell['mat'], cell['rho'] = 0, None
                dck['cells'].append(cell)
    # a filler cell bounded by the same surface, with the same sign, as the cell
    # it fills (no transformation in between): harmless for the geometry, but
    # the two copies meet in one intersection once both definitions are inlined
    for cont in [c for c in dck['cells'] if c.get('fill') and not c.get('lat')]:
        if cont['fill'].get('tr') is not None or cont.get('trcl') is not None \
                or rng.random() < 0.2:
            continue
        expr = cont['expr']
        lits = [expr[1]] if expr[0] == 's' else \
            [e[1] for e in expr[1:] if e[0] == 's'] if expr[0] == '*' else []
        fillers = [c for c in dck['cells'] if c['u'] == cont['fill'].get('u')
                   and not c.get('lat') and c.get('trcl') is None]
        if not lits or not fillers:
            continue
        lit = rng.choice(lits)
        target = rng.choice(fillers)
        info['shared_literals'] += 1
        if target['expr'][0] == '*':
            target['expr'] = target['expr'] + (deckmod.S(lit),)
        else:
            target['expr'] = ('*', target['expr'], deckmod.S(lit))
    # duplicate surfaces: other spellings of a surface under a new number,
    # used instead of the original in some places
    plain = [s for s in dck['surfaces']]
    for surf in rng.sample(plain, min(len(plain), rng.choice([0, 1, 2, 3]))):
        twin = duplicate_of(rng, surf, next_sid[0], dck)
        if twin is None:
            continue
        next_sid[0] += 1
        dck['surfaces'].append(twin)
        info['dups'] += 1
        flip = -1 if twin.pop('reversed', False) else 1
        for cell in dck['cells']:
            cell['expr'] = substitute(rng, cell['expr'], surf['id'],
                                      flip * twin['id'], 0.5)
        if flip == 1 and rng.random() < 0.4:
            # a sliver between the two copies: `a -a'` is empty, `a : -a'` is
            # everything; both only after de-duplication patently so
            cell = rng.choice([c for c in dck['cells'] if not c.get('lat')])
            a = surf['id'] if rng.random() < 0.5 else -surf['id']
            b = -twin['id'] if a > 0 else twin['id']
            info['slivers'] += 1
            if rng.random() < 0.6:
                cell['expr'] = (':', ('*', deckmod.S(a), deckmod.S(b)),
                                cell['expr'])
            else:
                cell['expr'] = ('*', cell['expr'],
                                (':', deckmod.S(a), deckmod.S(b)))
    if rng.random() < 0.1:
        # a user plane equal to a union helper plane (merged with it)
        info['helper_twin'] = True
        dck['surfaces'].append({'id': next_sid[0], 'mn': 'px',
                                'params': [rng.choice([1.0, -1.0])],
                                'tr': None, 'bc': ''})
        next_sid[0] += 1
    level0 = [c for c in dck['cells'] if c['u'] == 0]
    if rng.random() < 0.3 and len(level0) > 1:
        rng.choice(level0)['imp'] = {'n': 0}
    if rng.random() < 0.4:
        rng.shuffle(dck['cells'])
    for m in sorted({c['mat'] for c in dck['cells'] if c['mat']}):
        dck['materials'][m] = ['1001', '1.0']
    return dck, info


def duplicate_of(rng, surf, sid, dck):
    mn, prm = surf['mn'], surf['params']
    kind = rng.choice(['same', 'same', 'general', 'tr', 'reversed'])
    if kind == 'reversed':
        # the same locus with the opposite orientation: every coefficient of
        # the plane negated; the callers use it with the opposite sign
        if mn in ('px', 'py', 'pz'):
            n = [0.0, 0.0, 0.0]
            k = rng.choice([1.0, 2.0])
            n['xyz'.index(mn[1])] = -k
            return {'id': sid, 'mn': 'p', 'params': n + [-k * prm[0]],
                    'tr': None, 'bc': '', 'reversed': True}
        if mn == 'p':
            return {'id': sid, 'mn': 'p', 'params': [-v for v in prm],
                    'tr': surf.get('tr'), 'bc': '', 'reversed': True}
        kind = 'same'
    if kind == 'general' and mn in ('px', 'py', 'pz'):
        n = [0.0, 0.0, 0.0]
        k = rng.choice([1.0, 2.0])
        n['xyz'.index(mn[1])] = k
        return {'id': sid, 'mn': 'p', 'params': n + [k * prm[0]], 'tr': None,
                'bc': ''}
    if kind == 'general' and mn == 'so':
        return {'id': sid, 'mn': 's', 'params': [0.0, 0.0, 0.0, prm[0]],
                'tr': None, 'bc': ''}
    if kind == 'tr' and mn in ('px', 'py', 'pz') and surf.get('tr') is None:
        n = rng.randint(31, 60)
        while n in dck['transforms']:
            n = rng.randint(31, 60)
        shift = [0.0, 0.0, 0.0]
        d = rng.choice([1.0, -0.5, 2.0])
        shift['xyz'.index(mn[1])] = d
        dck['transforms'][n] = deckmod.make_tr(shift)
        return {'id': sid, 'mn': mn, 'params': [prm[0] - d], 'tr': n, 'bc': ''}
    return {'id': sid, 'mn': mn, 'params': list(prm), 'tr': surf.get('tr'),
            'bc': ''}


def substitute(rng, expr, old, new, prob):
    if expr[0] == 's':
        if abs(expr[1]) == old and rng.random() < prob:
            return ('s', new if expr[1] > 0 else -new)
        return expr
    if expr[0] in ('*', ':', '#'):
        return (expr[0],) + tuple(substitute(rng, e, old, new, prob)
                                  for e in expr[1:])
    return expr


# ---------------------------------------------------------------------------
# evaluation of written files
# ---------------------------------------------------------------------------

def descriptor(t4, sid):
    typ, prm, tr = t4.surfaces[sid]
    trv = None
    if tr is not None:
        trv = tuple(float(v) for v in t4.transforms.get(tr, ()))
    return (typ, tuple(float(v) for v in prm), trv)


class SenseEval:
    '''Membership of a sense assignment (descriptor -> bool) in the volumes
    of a written file.'''

    def __init__(self, t4):
        self.t4 = t4
        self.desc = {sid: descriptor(t4, sid) for sid in t4.surfaces}

    def inside(self, vid, sigma, memo, depth=0):
        if vid in memo:
            return memo[vid]
        if depth > 200:
            raise t4eval.T4EvalError('volume operators are cyclic')
        if vid not in self.t4.volumes:
            raise t4eval.T4EvalError(f'volume {vid} is not defined')
        vol = self.t4.volumes[vid]
        for sid in vol['plus'] + vol['minus']:
            if sid not in self.desc:
                raise t4eval.T4EvalError(f'surface {sid} is not defined')
        base = all(sigma[self.desc[s]] for s in vol['plus']) and \
            not any(sigma[self.desc[s]] for s in vol['minus'])
        if vol['op'] == 'UNION':
            val = base or any(self.inside(a, sigma, memo, depth + 1)
                              for a in vol['args'])
        elif vol['op'] == 'INTE':
            val = base and all(self.inside(a, sigma, memo, depth + 1)
                               for a in vol['args'])
        else:
            val = base
        memo[vid] = val
        return val

    def owners(self, sigma):
        memo = {}
        return [vid for vid in self.t4.vol_order
                if not self.t4.volumes[vid]['fictive']
                and self.inside(vid, sigma, memo)]


def draw_sigma(rng, descs):
    '''Random sense assignment on descriptors, consistent for the three
    families of axis-parallel planes (so that the union helper planes
    x > 1, x > -1 never contradict each other).'''
    sigma = {}
    coord = {'PLANEX': rng.choice([-7, -2.1, -1.3, -0.3, 0.1, 0.6, 0.9, 1.1,
                                   1.6, 2.2, 3.1, 7]) + rng.uniform(-.04, .04),
             'PLANEY': rng.uniform(-5, 5), 'PLANEZ': rng.uniform(-5, 5)}
    for d in descs:
        if d[0] in coord and d[2] is None:
            sigma[d] = coord[d[0]] > d[1][0]
        else:
            sigma[d] = rng.random() < 0.5
    return sigma


def signature(t4, comp_of, owners):
    sig = []
    for vid in owners:
        prov = tuple(parse_provenance(t4.volumes[vid]['comment']))
        sig.append((prov, tuple(comp_of.get(vid, ())),
                    vid if not prov else None))
    return sorted(sig, key=repr)


def read_output(conv):
    '''(t4, problem): problem is a string when the file cannot be used.'''
    if conv.text is None:
        return None, 'no file written'
    try:
        t4 = impl.T4File(conv.text)
    except ValueError as exc:
        return None, f'unreadable file: {exc}'
    if t4.errors:
        return t4, 'malformed file: ' + '; '.join(t4.errors[:2])
    return t4, None


def run_deck(text, lattice_args, vectors, seed, n_points, n_sigma):
    '''Convert under every option vector and compare.  Returns a dict:
    {'status': [(vector, 'ok' | 'exc:<Class>:<msg>' | 'bad:<why>')],
     'diffs': [{'vectors': (i, j), 'at': point or sigma, 'sigs': (a, b)}],
     'checked': n}'''
    rng = random.Random(seed)
    outs, status = [], []
    for vec in vectors:
        conv = impl.convert(text, list(vec) + list(lattice_args),
                            keep_stdout=False)
        if not conv.ok:
            status.append((vec, f'exc:{conv.exc}:{conv.msg[:80]}'))
            outs.append(None)
            continue
        t4, problem = read_output(conv)
        if problem:
            status.append((vec, f'bad:{problem[:160]}'))
            outs.append(None)
            continue
        status.append((vec, 'ok'))
        outs.append(t4)
    good = [i for i, t4 in enumerate(outs) if t4 is not None]
    res = {'status': status, 'diffs': [], 'checked': 0}
    if len(good) < 2:
        return res
    comp = []
    for i in good:
        comp_of = {}
        for name, vols in outs[i].geomcomp:
            for vid in vols:
                comp_of.setdefault(vid, []).append(name)
        comp.append(comp_of)
    # ---- points ----
    pts = []
    for _ in range(n_points):
        mode = rng.random()
        if mode < 0.6:
            pts.append([rng.uniform(-5, 5) for _ in range(3)])
        elif mode < 0.8:
            pts.append([rng.choice([-2.2, -1.3, -0.7, -0.2, 0.3, 0.8, 1.2, 1.7,
                                    2.3]) + rng.uniform(-0.03, 0.03)
                        for _ in range(3)])
        else:
            pts.append([rng.gauss(0, 1.5) for _ in range(3)])
    evs = [t4eval.Evaluator(outs[i], eps=1e-7) for i in good]
    for p in pts:
        sigs = []
        for k, ev in enumerate(evs):
            try:
                sigs.append(signature(outs[good[k]], comp[k], ev.owners(p)))
            except t4eval.T4EvalError as exc:
                if 'within eps' in str(exc):
                    sigs = None
                    break
                sigs.append(('error', str(exc)))
        if sigs is None:
            continue
        res['checked'] += 1
        for k in range(1, len(sigs)):
            if sigs[k] != sigs[0]:
                res['diffs'].append({'vectors': (good[0], good[k]),
                                     'kind': 'point', 'at': list(p),
                                     'sigs': (sigs[0], sigs[k])})
                break
        if len(res['diffs']) >= 3:
            return res
    # ---- sense assignments ----
    sevs = [SenseEval(outs[i]) for i in good]
    descs = sorted({d for se in sevs for d in se.desc.values()}, key=repr)
    for _ in range(n_sigma):
        sigma = draw_sigma(rng, descs)
        sigs = []
        for k, se in enumerate(sevs):
            try:
                sigs.append(signature(outs[good[k]], comp[k],
                                      se.owners(sigma)))
            except t4eval.T4EvalError as exc:
                sigs.append(('error', str(exc)))
        res['checked'] += 1
        for k in range(1, len(sigs)):
            if sigs[k] != sigs[0]:
                res['diffs'].append({
                    'vectors': (good[0], good[k]), 'kind': 'sigma',
                    'at': sorted((repr(d), v) for d, v in sigma.items()),
                    'sigs': (sigs[0], sigs[k])})
                break
        if len(res['diffs']) >= 3:
            break
    return res
