'''Line coverage of the anchored Python functions of C14 during the ties, the
witnesses and the corpus (sys.settrace restricted to those code objects, main
thread).  Lines the front end cannot reach from a deck text (other call modes,
defensive branches) are listed by their source text in UNREACHABLE; every
other line must be executed at least once.'''
import linecache
import sys
import types


def _codes(func):
    code = func.__code__
    out, stack = [code], [code]
    while stack:
        cur = stack.pop()
        for const in cur.co_consts:
            if isinstance(const, types.CodeType):
                out.append(const)
                stack.append(const)
    return out


class LineCov:
    def __init__(self, funcs):
        self.codes = {}
        for func in funcs:
            func = getattr(func, '__func__', func)
            func = getattr(func, '__wrapped__', func)
            for code in _codes(func):
                self.codes[code] = func.__qualname__
        self.hit = {code: set() for code in self.codes}
        self._prev = None

    def _global(self, frame, event, arg):
        if frame.f_code in self.codes:
            self.hit[frame.f_code].add(frame.f_lineno)
            return self._local
        return None

    def _local(self, frame, event, arg):
        if event == 'line':
            self.hit[frame.f_code].add(frame.f_lineno)
        return self._local

    def __enter__(self):
        self._prev = sys.gettrace()
        sys.settrace(self._global)
        return self

    def __exit__(self, *exc):
        sys.settrace(self._prev)
        return False

    def missing(self, unreachable):
        out, total = [], 0
        for code, name in self.codes.items():
            lines = {ln for _, _, ln in code.co_lines() if ln is not None}
            lines.discard(code.co_firstlineno)
            total += len(lines)
            for ln in sorted(lines - self.hit[code]):
                text = linecache.getline(code.co_filename, ln).strip()
                if not text or text.startswith(('"""', "'''", '#')):
                    continue
                if any(pat in text for pat in unreachable):
                    continue
                prev = linecache.getline(code.co_filename, ln - 1).strip()
                if any(pat in prev for pat in AFTER_UNREACHABLE):
                    continue
                out.append((name, ln, text))
        return total, out


ANCHORED = [
    # (module, dotted attribute); private helpers may be renamed by a rewrite:
    # whatever is missing is skipped and reported, never an error
    ('MIP.mip.blocks', 'get_block_positions'), ('MIP.mip.cards', 'get_cards'),
    ('MIP.mip.cards', '_yield'), ('MIP.mip.cards', 'expand_tabs'),
    ('MIP.mip.cards', 'is_continuation'), ('MIP.mip.main', 'Card.content'),
    ('MIP.mip.main', 'MIP.cards'), ('MIP.mip.main', 'MIP.blocks'),
    ('MIP.mip.cellcard', 'split'), ('MIP.mip.surfacecard', 'split'),
    ('MIP.mip.datacard', 'split'), ('MIP.mip.datacard', 'to_float'),
    ('MIP.mip.datacard', 'expand_data_card'), ('MIP.mip.datacard', 'linspace'),
    ('t4_geom_convert.Kernel.Utils', 'normalize_float'),
]


def anchored_functions():
    '''(functions found, names not present).'''
    import importlib
    found, missing = [], []
    for mod, attr in ANCHORED:
        try:
            obj = importlib.import_module(mod)
            for part in attr.split('.'):
                obj = getattr(obj, part)
            if not hasattr(getattr(obj, '__func__', obj), '__code__') \
                    and not hasattr(getattr(obj, '__wrapped__', obj), '__code__'):
                raise AttributeError(attr)
            found.append(obj)
        except Exception:       # pylint: disable=broad-except
            missing.append(f'{mod}.{attr}')
    return found, missing


UNREACHABLE = [
    # get_cards / _yield with skipcomments=False (the converter never asks
    # for the comment blocks)
    'card.extend(cmnt)', "yield c2, n2, 'cmnt'",
    # get_block_positions with an explicit firstblock
    'cb = firstblock',
    # expand_data_card: LOG shorthand and dtype other than int / float (not
    # used on IMP, TR, FILL cards)
    'result.extend(logspace(', "raise ValueError('unrecognized dtype",
    'conv = round',
]

# lines that directly follow one of these source lines are unreachable too
AFTER_UNREACHABLE = ['result.extend(logspace(']
