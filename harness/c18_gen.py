'''C18 — deck generator for the runtime sweep and the model tie.

Geometric sense is irrelevant for C18 (any deck the converter accepts must be
converted the same way every time), so cells are random expressions over
random surfaces; the features are chosen to reach every piece of state and
every unordered collection of the converter: TRCL cells and the 1000*cell+surf
ids they induce (the set of ints whose iteration order reaches the aux-surface
numbering), one-nappe cones and macrobodies (several TRIPOLI-4 surfaces per
MCNP surface, facets), universes / FILL with transformations (cell_transform
cache), lattices, complements, LIKE n BUT, several densities per material (a
set of strings), importance 0, boundary conditions, every CLI option.'''
import random

SURF_KINDS = [
    ('px', 1), ('py', 1), ('pz', 1), ('p', 4), ('so', 1), ('s', 4), ('sx', 2),
    ('cz', 1), ('c/z', 3), ('cx', 1), ('kz1', 0), ('kz', 0), ('k/x1', 0),
    ('rpp', 0), ('rcc', 0), ('sph', 0), ('box', 0), ('tz', 0), ('gq', 0),
    ('sq', 0),
]
N_FACETS = {'rpp': 6, 'rcc': 3, 'box': 6, 'sph': 1}

OPTIONS = [[], [], [], ['--skip-deduplication'], ['--always-inline-filling'],
           ['--always-inline-filled'],
           ['--always-inline-filling', '--always-inline-filled'],
           ['--max-inline-score', '0'], ['--max-inline-score', '100'],
           ['--skip-compositions'], ['--skip-geomcomp'],
           ['--skip-boundary-conditions'],
           ['--skip-deduplication', '--max-inline-score', '3.5'],
           ['--cache']]


def fnum(rng, lo=-3.0, hi=3.0):
    return rng.choice([lo, hi, 0.0, 1.0, -1.0, 0.5, 2.0, 1.5, -2.5,
                       round(rng.uniform(lo, hi), 2)])


def pos(rng):
    return rng.choice([0.5, 1.0, 1.5, 2.0, 2.5, 3.0, 4.0])


def surface_card(rng, sid, kind, trn=None, bc=''):
    tr = f' {trn}' if trn else ''
    head = f'{bc}{sid}{tr} '
    if kind in ('px', 'py', 'pz'):
        return head + f'{kind} {fnum(rng)}'
    if kind == 'p':
        n = [rng.choice([-1, 0, 1, 2]) for _ in range(3)]
        if not any(n):
            n[rng.randrange(3)] = 1
        return head + f'p {n[0]} {n[1]} {n[2]} {fnum(rng)}'
    if kind == 'so':
        return head + f'so {pos(rng)}'
    if kind == 's':
        return head + f's {fnum(rng)} {fnum(rng)} {fnum(rng)} {pos(rng)}'
    if kind == 'sx':
        return head + f'sx {fnum(rng)} {pos(rng)}'
    if kind in ('cz', 'cx'):
        return head + f'{kind} {pos(rng)}'
    if kind == 'c/z':
        return head + f'c/z {fnum(rng)} {fnum(rng)} {pos(rng)}'
    if kind == 'kz1':
        return head + f'kz {fnum(rng)} {pos(rng)} {rng.choice([1, -1])}'
    if kind == 'kz':
        return head + f'kz {fnum(rng)} {pos(rng)}'
    if kind == 'k/x1':
        return head + (f'k/x {fnum(rng)} {fnum(rng)} {fnum(rng)} {pos(rng)} '
                       f'{rng.choice([1, -1])}')
    if kind == 'rpp':
        a, b, c = fnum(rng), fnum(rng), fnum(rng)
        return head + f'rpp {a} {a + pos(rng)} {b} {b + pos(rng)} {c} {c + pos(rng)}'
    if kind == 'rcc':
        return head + (f'rcc {fnum(rng)} {fnum(rng)} {fnum(rng)} 0 0 {pos(rng)} '
                       f'{pos(rng)}')
    if kind == 'sph':
        return head + f'sph {fnum(rng)} {fnum(rng)} {fnum(rng)} {pos(rng)}'
    if kind == 'box':
        return head + (f'box {fnum(rng)} {fnum(rng)} {fnum(rng)} {pos(rng)} 0 0 '
                       f'0 {pos(rng)} 0 0 0 {pos(rng)}')
    if kind == 'tz':
        return head + f'tz {fnum(rng)} {fnum(rng)} {fnum(rng)} 5 {pos(rng)} 1'
    if kind == 'gq':
        return head + 'gq 1 2 1 0.5 0 0 0 0 1 -4'
    if kind == 'sq':
        return head + f'sq 1 2 0.5 0 0 0 -{pos(rng)} {fnum(rng)} 0 0'
    raise ValueError(kind)


def rand_expr(rng, lits, depth):
    '''Random expression text over literal texts `lits`.'''
    if depth == 0 or rng.random() < 0.25:
        return rng.choice(lits)
    n = rng.choice([2, 2, 3, 4])
    parts = [rand_expr(rng, lits, depth - 1) for _ in range(n)]
    if rng.random() < 0.6:
        return ' '.join(f'({p})' if ':' in p else p for p in parts)
    return ' : '.join(parts)


def tr_card(rng, n):
    if rng.random() < 0.4:
        return f'tr{n} {fnum(rng)} {fnum(rng)} {fnum(rng)}'
    if rng.random() < 0.5:
        return (f'*tr{n} {fnum(rng)} {fnum(rng)} 0 30 60 90 120 30 90 '
                '90 90 0')
    return f'tr{n} {fnum(rng)} 0 {fnum(rng)} 0 1 0 -1 0 0 0 0 1'


def inline_tr(rng):
    if rng.random() < 0.5:
        return f'({fnum(rng)} {fnum(rng)} {fnum(rng)})'
    return f'({fnum(rng)} {fnum(rng)} 0 0 1 0 -1 0 0 0 0 1)'


def gen_deck(rng, flavour=None):
    '''Returns a dict: text, args, tags (features used), info for the model
    tie ('plain' decks only).'''
    flavour = flavour or rng.choice(
        ['plain', 'plain', 'trsurf', 'trsurf', 'fill', 'fill', 'lattice',
         'like', 'mixed', 'mixed'])
    tags = [flavour]
    n_surf = rng.randint(3, 9)
    kinds = [k for k, _ in SURF_KINDS]
    weights = [3, 3, 3, 2, 3, 2, 1, 2, 1, 1, 3, 1, 2, 2, 1, 1, 1, 1, 1, 1]
    surf_kind = {}
    transforms = {}
    surf_lines = []
    for sid in range(1, n_surf + 1):
        kind = rng.choices(kinds, weights)[0]
        trn = None
        if rng.random() < 0.15 and kind not in ('tz',):
            trn = rng.randint(1, 3)
            transforms.setdefault(trn, tr_card(rng, trn))
        bc = rng.choice(['*', '+']) if rng.random() < 0.08 else ''
        surf_kind[sid] = kind
        surf_lines.append(surface_card(rng, sid, kind, trn, bc))

    def lits_for(sids):
        out = []
        for sid in sids:
            out += [str(sid), f'-{sid}']
            nf = N_FACETS.get(surf_kind[sid])
            if nf and rng.random() < 0.3:
                k = rng.randint(1, nf)
                out += [f'{sid}.{k}', f'-{sid}.{k}']
        return out

    sids = list(range(1, n_surf + 1))
    materials = {}
    cells = []          # (id, text)

    def material(rng_):
        if rng_.random() < 0.25:
            return '0'
        m = rng_.randint(1, 4)
        materials[m] = True
        rho = rng_.choice(['-1.0', '-1.00', '-2.7', '0.05', '-1.0', '1e-2',
                           '-7.8'])
        return f'{m} {rho}'

    n_cells = rng.randint(2, 7)
    cid = 0
    trcl_cells = []
    for _ in range(n_cells):
        cid += 1
        expr = rand_expr(rng, lits_for(rng.sample(sids, min(len(sids), 4))),
                         rng.choice([1, 1, 2, 3]))
        if cid > 1 and rng.random() < 0.15:
            expr += f' #{rng.randint(1, cid - 1)}'
        if rng.random() < 0.1:
            expr += ' #(' + rand_expr(rng, lits_for(rng.sample(sids, 2)), 1) + ')'
        opts = f' imp:n={rng.choice([1, 1, 1, 2, 0])}'
        if flavour in ('trsurf', 'mixed') and rng.random() < 0.6:
            if rng.random() < 0.5:
                trn = rng.randint(1, 3)
                transforms.setdefault(trn, tr_card(rng, trn))
                opts += f' trcl={trn}'
            else:
                opts += f' trcl={inline_tr(rng)}'
            trcl_cells.append(cid)
        cells.append([cid, f'{cid} {material(rng)} {expr}{opts}'])
    if flavour in ('trsurf', 'mixed') and trcl_cells:
        tags.append('trsurf-ids')
        # cells referencing 1000*cell+surf ids (positive sense only: the
        # converter does not recognise the negative ones, DESIGN §8 #4)
        many = rng.random() < 0.35
        if many:
            tags.append('trsurf-many')
        for _ in range(rng.randint(1, 3)):
            cid += 1
            refs = []
            for _ in range(rng.randint(8, 20) if many else rng.randint(1, 5)):
                refs.append(str(1000 * rng.choice(trcl_cells)
                                + rng.choice(sids)))
            rng.shuffle(refs)
            others = lits_for(rng.sample(sids, 2))
            expr = ' '.join(refs) if rng.random() < 0.5 \
                else ' : '.join(refs)
            if rng.random() < 0.5:
                expr = f'{rng.choice(others)} ({expr})'
            cells.append([cid, f'{cid} {material(rng)} {expr} imp:n=1'])
    if flavour in ('fill', 'mixed', 'lattice'):
        tags.append('fill')
        n_univ = rng.randint(1, 2)
        for u in range(1, n_univ + 1):
            s = rng.choice(sids)
            for sign in ('-', ''):
                cid += 1
                extra = ''
                if rng.random() < 0.3:
                    extra = ' ' + rng.choice(lits_for(rng.sample(sids, 2)))
                if u == 2 and sign == '' and rng.random() < 0.5:
                    # nested fill
                    cells.append([cid, f'{cid} 0 {sign}{s}{extra} u={u} '
                                  f'fill=1 imp:n=1'])
                else:
                    cells.append([cid, f'{cid} {material(rng)} {sign}{s}'
                                  f'{extra} u={u} imp:n=1'])
        for _ in range(rng.randint(1, 3)):
            cid += 1
            u = rng.randint(1, n_univ)
            expr = rand_expr(rng, lits_for(rng.sample(sids, 3)), 1)
            how = rng.random()
            if how < 0.3:
                fill = f'fill={u}'
            elif how < 0.5:
                fill = f'fill={u} {inline_tr(rng)}'
            elif how < 0.65:
                trn = rng.randint(1, 3)
                transforms.setdefault(trn, tr_card(rng, trn))
                fill = f'fill={u} ({trn})'
            elif how < 0.8:
                fill = f'*fill={u} ({fnum(rng)} 0 0 30 60 90 120 30 90 90 90 0)'
            else:
                fill = f'fill={u} trcl={inline_tr(rng)}'
            cells.append([cid, f'{cid} 0 {expr} {fill} imp:n=1'])
    args = []
    if flavour == 'lattice':
        tags.append('lattice')
        base = n_surf
        surf_lines += [f'{base + 1} px -1.5', f'{base + 2} px 1.5',
                       f'{base + 3} py -0.5', f'{base + 4} py 0.5',
                       f'{base + 5} so 6']
        cid += 1
        lat_id = cid
        if rng.random() < 0.5:
            arr = ' '.join(str(rng.choice([1, 1, 20])) for _ in range(9))
            cells.append([cid, f'{cid} 0 -{base + 2} {base + 1} {base + 3} '
                          f'-{base + 4} lat=1 u=20 imp:n=1 '
                          f'fill=-1:1 -1:1 0:0 {arr}'])
        else:
            cells.append([cid, f'{cid} 0 -{base + 2} {base + 1} {base + 3} '
                          f'-{base + 4} lat=1 u=20 imp:n=1 fill=1'])
            args += ['--lattice', f'{lat_id},-1:1,0:{rng.randint(0, 2)}']
        cid += 1
        cells.append([cid, f'{cid} 0 -{base + 5} fill=20 imp:n=1'])
    if flavour in ('like', 'mixed') and cells:
        tags.append('like')
        for _ in range(rng.randint(1, 2)):
            base_id = rng.choice([c[0] for c in cells
                                  if 'lat=' not in c[1]])
            cid += 1
            but = rng.choice([f'trcl=({fnum(rng)} 0 {fnum(rng)})',
                              'imp:n=0', 'rho=-3.3', 'imp:n=1'])
            if 'u=' in [c[1] for c in cells if c[0] == base_id][0]:
                but = rng.choice(['imp:n=1', f'trcl=({fnum(rng)} 0 0)'])
            cells.append([cid, f'{cid} like {base_id} but {but}'])
    # boundary conditions of BOTH kinds (reflecting *n and white +n) on two
    # plain surfaces that bound a converted cell: the BOUNDARY_CONDITION block
    # then holds two kinds of entries (strings)
    plain = [sid for sid in sids
             if surf_kind[sid] in ('px', 'py', 'pz', 'p', 'so', 's', 'sx',
                                   'cz', 'c/z', 'cx')]
    if len(plain) >= 2 and rng.random() < 0.3:
        tags.append('bc-both')
        a, b = rng.sample(plain, 2)
        for sid, mark in ((a, '*'), (b, '+')):
            line = surf_lines[sid - 1].lstrip('*+')
            surf_lines[sid - 1] = mark + line
        for other in plain:
            if other not in (a, b):
                surf_lines[other - 1] = surf_lines[other - 1].lstrip('*+')
        cid += 1
        cells.append([cid, f'{cid} 0 {rng.choice(["-", ""])}{a} '
                      f'{rng.choice(["-", ""])}{b} imp:n=1'])
    # outside world
    cid += 1
    cells.append([cid, f'{cid} 0 {rng.choice(sids)} imp:n=0'])
    if rng.random() < 0.3:
        rng.shuffle(cells)      # cell ids out of order
        tags.append('shuffled')
    mat_lines = []
    for m in sorted(materials):
        mat_lines.append(rng.choice([
            f'm{m} 13027 1.', f'm{m} 92235.70c 0.02 92238.70c 0.98',
            f'm{m} 1001 2 8016 1', f'm{m} 26000 -0.7 6000 -0.3']))
    lines = [f'C18 generated deck ({flavour})']
    for _, text in cells:
        lines.append(text if len(text) < 75 else wrap(text))
        if rng.random() < 0.05:
            lines.append('c a comment line')
    lines.append('')
    lines += surf_lines
    lines.append('')
    lines += [transforms[n] for n in sorted(transforms)]
    lines += mat_lines
    if rng.random() < 0.3:
        lines.append('nps 1000')
    text = '\n'.join(lines) + '\n'
    args += rng.choice(OPTIONS)
    return {'deck': text, 'args': args, 'tags': tags}


def wrap(card, width=72):
    words = card.split(' ')
    lines, cur = [], ''
    for word in words:
        if cur and len(cur) + 1 + len(word) > width:
            lines.append(cur)
            cur = '      ' + word
        else:
            cur = word if not cur else cur + ' ' + word
    lines.append(cur)
    return '\n'.join(lines)


def break_deck(rng, job):
    '''A failing variant of a deck (the failure itself is C17's business; here
    it is a conversion that dies half-way and may leave state behind).'''
    text = job['deck']
    lines = text.split('\n')
    how = rng.choice(['missing-surface', 'syntax', 'mnemonic', 'bad-fill',
                      'bad-option', 'y-card', 'trunc'])
    args = list(job['args'])
    if how == 'missing-surface':
        lines[1] = lines[1].replace(' imp', ' 777 imp', 1)
    elif how == 'syntax':
        lines[1] = lines[1].replace(' imp', ' ( : imp', 1)
    elif how == 'mnemonic':
        k = lines.index('') + 1
        lines[k] = lines[k].split()[0] + ' qqq 1 2 3'
    elif how == 'bad-fill':
        lines[1] = lines[1].replace(' imp', ' fill=97 imp', 1)
    elif how == 'bad-option':
        args = args + ['--lattice', 'three,0:1']
    elif how == 'y-card':
        k = lines.index('') + 1
        lines[k] = lines[k].split()[0] + ' y 0 1 2 3'
    elif how == 'trunc':
        lines = lines[:max(2, len(lines) // 3)]
    return {'deck': '\n'.join(lines) + '\n', 'args': args,
            'tags': ['broken', how]}


def corpus_jobs(repo):
    '''The upstream integration decks with their converter-flags.'''
    import shlex
    from pathlib import Path
    jobs = []
    data = Path(repo) / 't4_geom_convert' / 'IntegrationTests' / 'data'
    for path in sorted(data.glob('*.imcnp')):
        enc = 'latin1' if 'latin1' in path.name else 'utf-8'
        try:
            text = path.read_bytes().decode(enc)
        except UnicodeError:
            continue
        opts = []
        for line in text.split('\n')[:50]:
            k = line.find('converter-flags:')
            if k != -1:
                opts = shlex.split(line[k + len('converter-flags:'):])
        if enc == 'latin1':
            opts = opts + ['-e', 'latin1']
        jobs.append({'deck': text, 'args': opts, 'encoding': enc,
                     'tags': ['corpus', path.name]})
    return jobs


# hand-written regression decks, run first by the tie and the sweep: each
# reaches a piece of state or an ordering the generators reach only sometimes
REGRESSION = [
    # an empty filler cell referenced twice: convert_cellref allocates a
    # stand-in empty virtual volume, caches it (second reference = cache hit)
    # and remove_empty_volumes deletes it with the INTE volumes that use it
    # (before fix 3f9f4fd: a None operand, not cached; DESIGN 8 #7)
    ('empty-cellref-twice', """empty filler used twice
1 0 -1 fill=1 imp:n=1
2 0 1 -3 fill=1 imp:n=1
10 0 -2 2 u=1 imp:n=1
11 0 #10 u=1 imp:n=1
3 0 3 imp:n=0

1 so 1
2 px 0
3 so 5

""", []),
    # 1000*cell+surf ids of one-nappe cones, many of them, cells out of order:
    # the int-set iteration order decides the auxiliary surface ids
    ('trsurf-cones-many', """tr surf ids on cones
7 0 -1 2 imp:n=1 trcl=(1 0 0)
3 0 -2 imp:n=1 trcl=(0 2 0)
9 0 1 -3 imp:n=1 trcl=(0 0 3)
5 0 7001 7002 3001 3002 9001 9002 9003 3003 7003 imp:n=1
6 0 9002 : 3001 : 7003 : 3002 imp:n=1
8 0 3 imp:n=0

1 kz 0 1 1
2 kz 1 0.5 -1
3 so 9

""", []),
    # union whose largest pure intersection comes second, nested unions,
    # repeated and opposite literals (patently empty branch)
    ('union-largest-second', """union shapes
1 0 (-1 : 2 -3 4 : (5 -5) : -2 3) imp:n=1
2 0 (1 -2 : -4) (3 : -5 : 1 -2) imp:n=1
3 0 1 -1 : 2 imp:n=1
4 0 5 imp:n=0

1 px 1
2 py 2
3 pz 3
4 so 4
5 so 9

""", ['--skip-deduplication']),
    # duplicate surfaces, an RPP with facets, de-duplication on
    ('dedup-facets', """duplicates and facets
1 0 -1 2.1 -3 imp:n=1
2 0 -2.3 : 4 -5 imp:n=1
3 0 5 imp:n=0

1 px 1
2 rpp -1 1 -2 2 -3 3
3 px 1
4 py 2
5 so 9

""", []),
]


REGRESSION += [
    # a facet number beyond the facets of the macrobody: CellConversionError
    # inside the modelled stage (the model must answer Err)
    ('facet-out-of-range', """facet out of range
1 0 -1 2.9 imp:n=1
2 0 1 imp:n=0

1 so 9
2 rpp -1 1 -2 2 -3 3

""", []),
    # a union none of whose operands is a pure intersection (helper planes
    # branch of pot_to_t4_cell), a literal repeated inside one intersection
    ('union-no-pure-intersection', """union without pure intersection
1 0 (1 (2 : 3)) : (4 (5 : -3) 4 4) imp:n=1
2 0 -1 -1 -4 imp:n=1
4 0 3 (2 -2) : 5 imp:n=1
3 0 6 imp:n=0

1 px 1
2 py 2
3 pz 3
4 px -4
5 py 5
6 so 20

""", ['--skip-deduplication']),
    # duplicates that only de-duplication reveals: an intersection "1 -7"
    # (7 = copy of 1) becomes the main part of a union -> patently empty UNION
    # volume neutralised with the helper planes; "8 : (1 -7 (5:6))" -> the only
    # operand of the union is deleted -> ops = None
    ('dedup-empty-unions', """empty volumes after de-duplication
1 0 (1 -7 : 2 4) imp:n=1
2 0 8 : (1 -7 (5 : 6)) imp:n=1
3 0 9 imp:n=0

1 px 1
2 py 2
4 pz 4
5 py 5
6 pz 6
7 px 1
8 so 3
9 so 20

""", []),
    # TRCL by number and inline, a 1000*cell+surf reference, FILL with a
    # transformation used twice (cell_transform cache hit), nested FILL,
    # complement of a cell, LIKE n BUT with TRCL
    ('trcl-fill-cache', """trcl fill cache
1 0 -1 2 trcl=1 imp:n=1
2 0 -3 fill=1 (1 0 0) imp:n=1
3 0 -4 fill=1 (1 0 0) imp:n=1
4 0 1001 -5 #1 imp:n=1
5 like 4 but trcl=(0 0 2) imp:n=1
10 0 -6 u=1 imp:n=1
11 0 6 u=1 fill=2 imp:n=1
20 0 -7 u=2 imp:n=1
21 0 7 u=2 imp:n=1
6 0 5 imp:n=0

1 so 1
2 kz 0 1 1
3 s 4 0 0 1
4 s -4 0 0 1
5 so 20
6 px 0
7 py 0

tr1 0 3 0
""", []),
    # a lattice (cell_transform with cache=False) filled with two universes
    ('lattice-small', """small lattice
1 0 -2 1 3 -4 lat=1 u=20 imp:n=1 fill=-1:1 0:0 0:0 1 2 1
2 0 -5 fill=20 imp:n=1
10 0 -6 u=1 imp:n=1
11 0 6 u=1 imp:n=1
20 0 -7 u=2 imp:n=1
21 0 7 u=2 imp:n=1
3 0 5 imp:n=0

1 px -1.5
2 px 1.5
3 py -0.5
4 py 0.5
5 so 6
6 so 0.3
7 so 0.2

""", []),
]


REGRESSION += [
    # the iteration order of the int set of 1000*cell+surf ids is NOT
    # ascending: 2008 & 7 = 0 < 1001 & 7 = 1, so CPython delivers [2008, 1001];
    # both are one-nappe cones, so the order decides the auxiliary plane ids
    ('trsurf-non-ascending', """tr ids not ascending
1 0 -1 trcl=(1 0 0) imp:n=1
2 0 -8 trcl=(0 2 0) imp:n=1
3 0 1001 2008 imp:n=1
4 0 9 imp:n=0

1 kz 0 1 1
8 kz 1 0.5 -1
9 so 9

""", ['--skip-deduplication']),
    # 24 ids: the set table grows 8 -> 32 -> 128; ids colliding modulo 8, 32
    # and 128 (same low bits) are ordered by insertion, the others by their low
    # bits; every id is a cone
    ('trsurf-collisions', """tr ids colliding in the set table
1 0 -1 trcl=(1 0 0) imp:n=1
2 0 -2 trcl=(0 2 0) imp:n=1
3 0 -3 trcl=(0 0 3) imp:n=1
4 0 -1 -2 trcl=(1 1 0) imp:n=1
5 0 -3 -2 trcl=(0 1 1) imp:n=1
9 0 -1 -3 trcl=(2 0 1) imp:n=1
17 0 -2 trcl=(2 2 0) imp:n=1
33 0 -3 trcl=(0 2 2) imp:n=1
20 0 33001 1001 17001 9001 5001 3001 2001 4001 imp:n=1
21 0 1002 : 2002 : 33002 : 17002 : 9002 : 5002 : 4002 : 3002 imp:n=1
22 0 33003 3003 1003 9003 17003 5003 2003 4003 imp:n=1
30 0 8 imp:n=0

1 kz 0 1 1
2 kz 1 0.5 -1
3 k/x 0 0 0 2 1
8 so 30

""", []),
]


REGRESSION += [
    # both kinds of boundary condition on surfaces of converted cells, two
    # materials with two densities each: everything in the written file that
    # is keyed by strings
    ('bc-both-kinds', """boundary conditions of both kinds
1 1 -1.0 -1 2 imp:n=1
2 2 -2.7 -2 3 imp:n=1
3 1 -1.00 -3 4 imp:n=1
4 2 0.05 -4 imp:n=1
5 0 1 imp:n=0

*1 so 9
+2 so 7
*3 px 1
+4 so 0.5

m1 13027 1.
m2 1001 2 8016 1
""", []),
]


def regression_jobs():
    return [{'deck': text, 'args': list(args), 'tags': ['regression', name]}
            for name, text, args in REGRESSION]
