'''Regenerate MANIFEST.json from the table below (run by hand after adding a
property check).'''
import json
from pathlib import Path

VERIF = Path(__file__).resolve().parent.parent
CLAIMED = {p.stem: json.loads(p.read_text())
           for p in sorted((VERIF / 'harness' / 'manifest').glob('C*.json'))}
NOT_CLAIMED = {}
PENDING = {}
for line in (VERIF / 'properties.jsonl').read_text().splitlines():
    pid = json.loads(line)['id']
    if pid not in CLAIMED:
        PENDING[pid] = NOT_CLAIMED.get(pid, 'check not integrated yet (model and tie planned in DESIGN.md; '
                                            'no claim is made until the check exists and passes on the unchanged tree)')

manifest = {
    'version': 1,
    'setup_cmd': 'cd /verif/coq && coq_makefile -f _CoqProject $(find . -name "*.v" -not -path "./generated/*" | sort) '
                 '-o Makefile && (timeout 3000 make -k -j16 || echo "setup: some files did not build; each check rebuilds and reports its own")',
    'hooks': {
        'guard': 'T4GC_VERIF',
        'enable': 'no hook is compiled into /repo; checks import /repo with PYTHONPATH=/repo and install the '
                  'harness-side TatSu shim (harness/shim_peg.py) from outside',
        'baseline_off_cmd': 'cd /repo && /venv/bin/python -m pytest -ra -q -p no:cacheprovider --timeout=900 '
                            '--continue-on-collection-errors',
        'source_commits': [],
        'add_only': True,
    },
    'engines': [{
        'name': 'coq-model-correspondence',
        'path': 'check',
        'serves_properties': sorted(CLAIMED),
        'kind_free_text': 'Coq 8.16 theorems about hand-written executable models (coq/), tied to /repo by running '
                          'implementation and model on the same generated inputs (harness/)',
    }],
    'checks': [
        {
            'property_id': pid,
            'quick_cmd': f'./check {pid} --tier quick',
            'thorough_cmd': f'./check {pid} --tier thorough',
            'evidence_file': f'/verif/evidence/{pid}.json',
            'replay_cmd_template': f'./check {pid} --replay {{path}}',
            'engine': 'coq-model-correspondence',
            'level_claimed': {'category': 'proof', 'text': info['text'], 'design_ref': info['design']},
            'level_note': info['note'],
            'technique': info['technique'],
        } for pid, info in sorted(CLAIMED.items())],
    'not_applicable': [{'property_id': pid, 'reason': why} for pid, why in sorted(PENDING.items())],
    'notes': 'See DESIGN.md. Every check rebuilds the Coq development (full .vo), audits Print Assumptions and '
             'forbidden vernacular, then runs the correspondence against /repo\'s working tree.',
}
(VERIF / 'MANIFEST.json').write_text(json.dumps(manifest, indent=1) + '\n')
print('claimed:', sorted(CLAIMED), 'pending:', len(PENDING))
