'''C06 helpers: generator of LAT=1 decks with ground truth by construction,
point sampler (every element, across element borders, outside the declared
ranges), and the property-level comparison of a written file against
mcnpref.Reference at those points.

Ground truth: the generator first chooses the lattice (centre c, vectors
a_1..a_d) and only then derives the bounding planes from it:
pair i = { x : n_i.(x-c) = +1/2 } ("far" plane, element +1 lies across it) and
{ x : n_i.(x-c) = -1/2 } ("near" plane), with n_i the dual basis vector
(n_i.a_j = delta_ij, n_i in span(a)).  The card lists the pairs in a random
order, each pair with either plane first, every plane with a random scale and
sign of its coefficients; the MCNP index vector of a pair is +a when the far
plane is listed first and -a otherwise (MCNP manual: element [1,0,0] lies
across the first surface listed).'''
import math

import numpy as np

import deck as deckmod
import mcnpref
import t4eval

COMPONENTS = [-2.0, -1.5, -1.0, -0.5, 0.0, 0.5, 1.0, 1.5, 2.0, 3.0]
PITCHES = [1.0, 1.5, 2.0, 2.5, 3.0]
OWN = 1          # universe of the lattice cell
LAT_CELL = 3
CONTAINER = 1
SHELL = 4


def _condition(vecs):
    mat = np.array(vecs, float)
    gram = mat @ mat.T
    return abs(np.linalg.det(gram)) / np.prod([v @ v for v in mat])


def gen_basis(rng, d, kind):
    '''d vectors in R^3. kind: 'ortho' (along coordinate axes, any
    permutation and sign), 'rot' (orthogonal, rotated), 'skew'.'''
    if kind == 'ortho':
        axes = rng.sample(range(3), d)
        vecs = []
        for ax in axes:
            v = [0.0, 0.0, 0.0]
            v[ax] = rng.choice(PITCHES) * rng.choice([1, 1, -1])
            vecs.append(v)
        return vecs
    if kind == 'rot':
        rot = np.array(deckmod.rotation(rng.randrange(3),
                                        rng.choice([30, 45, 60, 120, -30])))
        if rng.random() < 0.5:
            rot = rot @ np.array(deckmod.rotation(rng.randrange(3),
                                                  rng.choice([30, 45, -60])))
        base = gen_basis(rng, d, 'ortho')
        return [list(rot @ np.array(v)) for v in base]
    while True:
        vecs = [[rng.choice(COMPONENTS) for _ in range(3)] for _ in range(d)]
        if any(not any(v) for v in vecs):
            continue
        if d > 1 and all(abs(np.dot(vecs[i], vecs[j])) < 1e-12
                         for i in range(d) for j in range(i)):
            continue     # want genuinely skew
        if _condition(vecs) > 0.25:
            return vecs


def dual(vecs):
    mat = np.array(vecs, float)           # d x 3
    return np.linalg.inv(mat @ mat.T) @ mat   # rows n_i


def plane_card(rng, sid, normal, offset, style):
    '''Surface card for { x : normal.x = offset }.'''
    normal = np.array(normal, float)
    nz = [k for k in range(3) if abs(normal[k]) > 1e-12]
    if len(nz) == 1 and style != 'p':
        k = nz[0]
        return {'id': sid, 'mn': 'p' + 'xyz'[k],
                'params': [float(offset / normal[k])], 'tr': None, 'bc': ''}
    scale = rng.choice([1.0, -1.0, 2.0, -0.5, 3.0, -1.0]) \
        if style != 'unit' else 1.0 / math.sqrt(float(normal @ normal))
    prm = [float(scale * v) for v in normal] + [float(scale * offset)]
    prm = [0.0 if v == 0 else v for v in prm]
    return {'id': sid, 'mn': 'p', 'params': prm, 'tr': None, 'bc': ''}


def literal(surf, centre):
    '''Signed surface number such that the centre satisfies the literal.'''
    val = mcnpref.surface_value(surf['mn'], surf['params'], centre)
    return surf['id'] if val > 0 else -surf['id']


def gen_filler(rng, univ, first_cell, first_surf, centre, scale):
    '''A universe that is a partition of space by construction (BSP over 1-2
    surfaces near the lattice centre); every cell has its own material.'''
    surfs = []
    n_surf = rng.choice([1, 2, 2])
    for k in range(n_surf):
        sid = first_surf + k
        off = [rng.choice([-0.3, -0.15, 0.0, 0.1, 0.25]) * scale
               for _ in range(3)]
        pt = [float(c + o) for c, o in zip(centre, off)]
        kind = rng.choice(['s', 's', 'px', 'py', 'pz', 'p', 'c/z', 'c/x'])
        if kind == 's':
            prm = pt + [rng.choice([0.2, 0.3, 0.4]) * scale]
        elif kind in ('px', 'py', 'pz'):
            prm = [pt['xyz'.index(kind[1])]]
        elif kind == 'p':
            nrm = [rng.choice([-1.0, 0.0, 1.0, 2.0]) for _ in range(3)]
            if not any(nrm):
                nrm[rng.randrange(3)] = 1.0
            prm = nrm + [float(np.dot(nrm, pt))]
        elif kind == 'c/z':
            prm = [pt[0], pt[1], rng.choice([0.2, 0.3]) * scale]
        else:
            prm = [pt[1], pt[2], rng.choice([0.2, 0.3]) * scale]
        surfs.append({'id': sid, 'mn': kind, 'params': [float(v) for v in prm],
                      'tr': None, 'bc': ''})
    leaves = deckmod.bsp(rng, [s['id'] for s in surfs], n_surf + 1)
    cells = []
    for k, lits in enumerate(leaves):
        cid = first_cell + k
        cells.append({'id': cid, 'mat': cid, 'rho': '-1.0',
                      'expr': deckmod.leaf_expr(lits), 'imp': {'n': 1},
                      'u': univ})
    return cells, surfs


def gen_nested_lattice(rng, univ, first_cell, first_surf, centre, scale):
    '''Universe `univ` = a 1-D LAT=1 cell along a coordinate axis (array fill
    with its own universe, an inner filler universe and 0), nested inside the
    elements of the outer lattice.'''
    axis = rng.randrange(3)
    pitch = rng.choice([0.4, 0.5, 0.75]) * scale
    c_ax = centre[axis] + rng.choice([0.0, 0.1, -0.2]) * scale
    far = {'id': first_surf, 'mn': 'p' + 'xyz'[axis],
           'params': [float(c_ax + pitch / 2)], 'tr': None, 'bc': ''}
    near = {'id': first_surf + 1, 'mn': 'p' + 'xyz'[axis],
            'params': [float(c_ax - pitch / 2)], 'tr': None, 'bc': ''}
    far_first = rng.random() < 0.5
    pair = [far, near] if far_first else [near, far]
    lat_centre = list(centre)
    lat_centre[axis] = c_ax
    lits = [literal(s, lat_centre) for s in pair]
    vec = [0.0, 0.0, 0.0]
    vec[axis] = pitch if far_first else -pitch
    n = rng.choice([2, 3])
    lo = rng.choice([-1, 0, -2])
    inner = univ + 10
    array = [rng.choice([univ, inner, inner, 0]) for _ in range(n)]
    cell = {'id': first_cell, 'mat': first_cell, 'rho': '-1.0',
            'expr': deckmod.leaf_expr(lits), 'imp': {'n': 1}, 'u': univ,
            'lat': 1,
            'fill': {'ranges': [(lo, lo + n - 1), (0, 0), (0, 0)],
                     'array': array, 'tr': None},
            'trcl': None, 'lat_vectors': [vec], 'lat_centre': lat_centre}
    cells, surfs = gen_filler(rng, inner, first_cell + 4, first_surf + 4,
                              lat_centre, pitch)
    return [cell] + cells, [far, near] + surfs


def gen_ranges(rng, d):
    out = []
    for _ in range(d):
        n = rng.choice([1, 2, 2, 3, 3])
        lo = rng.choice([-3, -2, -1, -1, 0, 0, 1, 2])
        out.append((lo, lo + n - 1))
    return out


def gen_deck(rng, force=None):
    '''Returns (deck, meta). meta: d, kind, the lattice frame -> world maps,
    whether the deck is inside the sweep's scope.'''
    force = force or {}
    d = force.get('d', rng.choice([1, 2, 2, 3, 3]))
    kind = force.get('kind', rng.choice(['ortho', 'ortho', 'rot', 'skew',
                                         'skew']))
    if d == 1 and kind == 'skew':
        kind = 'rot'
    vecs = gen_basis(rng, d, kind)
    centre = [rng.choice([-1.0, -0.5, 0.0, 0.0, 0.25, 1.0]) for _ in range(3)]
    duals = dual(vecs)
    scale = min(math.sqrt(float(np.dot(v, v))) for v in vecs)

    surfaces, lits, lat_vectors = [], [], []
    use_rpp = (kind == 'ortho' and d == 3 and force.get('rpp', rng.random() < 0.2))
    if use_rpp:
        pitch = [rng.choice(PITCHES) for _ in range(3)]
        vecs = [[pitch[i] if k == i else 0.0 for k in range(3)]
                for i in range(3)]
        prm = []
        for k in range(3):
            prm += [centre[k] - vecs[k][k] / 2, centre[k] + vecs[k][k] / 2]
        surfaces.append({'id': 21, 'mn': 'rpp',
                         'params': [float(v) for v in prm], 'tr': None,
                         'bc': ''})
        lits = [-21]
        lat_vectors = [list(v) for v in vecs]
    else:
        order = list(range(d))
        rng.shuffle(order)
        sid = 21
        style = rng.choice(['axis', 'axis', 'p', 'unit'])
        for i in order:
            far_first = rng.random() < 0.5
            c_off = float(np.dot(duals[i], centre))
            far = plane_card(rng, sid, duals[i], c_off + 0.5, style)
            near = plane_card(rng, sid + 1, duals[i], c_off - 0.5, style)
            pair = [far, near] if far_first else [near, far]
            # surface numbers follow the listing order only sometimes
            if rng.random() < 0.5:
                pair[0]['id'], pair[1]['id'] = pair[1]['id'], pair[0]['id']
            surfaces.extend(sorted(pair, key=lambda s: s['id']))
            lits.extend(literal(s, centre) for s in pair)
            lat_vectors.append([float(v) if far_first else float(-v)
                                for v in vecs[i]])
            sid += 2

    # fill
    fillers = [2, 3]
    homogeneous = force.get('homogeneous', rng.random() < 0.3)
    ranges = gen_ranges(rng, d)
    if force.get('ranges'):
        ranges = [tuple(r) for r in force['ranges']]
    degenerate_low_dim = False
    if homogeneous:
        if rng.random() < 0.4:
            degenerate_low_dim = d < 3 and any(lo == hi for lo, hi in ranges)
            ranges = ranges + [(0, 0)] * (3 - d)
        array = [rng.choice([2, 3, 2, 3, OWN])]
    else:
        # one-point ranges in the lattice's own dimensions are kept (accepted
        # since /repo 9b5a8f0)
        degenerate_low_dim = d < 3 and any(lo == hi for lo, hi in ranges)
        ranges = ranges + [(0, 0)] * (3 - d)
        n = 1
        for lo, hi in ranges:
            n *= hi - lo + 1
        array = [rng.choice([0, OWN, 2, 3, 2, 3]) for _ in range(n)]
    fill_tr = None
    if homogeneous and force.get('fill_tr', rng.random() < 0.5):
        mode = force.get('fill_tr_mode', rng.choice(['transl', 'transl',
                                                     'about', 'rot']))
        origin = [rng.choice([0.0, 0.0, 0.25, -0.5]) * scale for _ in range(3)]
        if mode == 'transl':
            fill_tr = deckmod.make_tr(origin)
        elif mode == 'about' and kind == 'ortho' and d == 1:
            # rotation about the lattice direction: B t = t for every element
            axis = [k for k in range(3) if lat_vectors[0][k] != 0][0]
            fill_tr = deckmod.make_tr(origin, deckmod.rotation(
                axis, rng.choice([90, 180, 30, -60])), star=rng.random() < 0.4)
        else:
            fill_tr = deckmod.make_tr(origin, deckmod.rotation(
                rng.randrange(3), rng.choice([90, 180, 30, -60, 270])),
                star=rng.random() < 0.4)
    transforms = {}
    lat_trcl = None
    if force.get('lat_trcl', rng.random() < 0.35) and \
            (fill_tr is None or force.get('both_tr', rng.random() < 0.6)):
        tr = deckmod.random_tr(rng, star=False)
        mode = rng.choice(['num', 'num', 'inline']) if tr['B'] is not None \
            else rng.choice(['num', 'inline'])
        if mode == 'num':
            transforms[7] = tr
            lat_trcl = ('num', 7)
        elif tr['B'] is None:
            lat_trcl = tr
        else:
            lat_trcl = deckmod.random_tr(rng, star=True, translate_only=False)
    cont_tr = None
    if force.get('cont_tr', rng.random() < 0.3):
        tr = deckmod.random_tr(rng)
        if rng.random() < 0.5:
            transforms[8] = dict(tr)
            cont_tr = ('num', 8)
        else:
            cont_tr = tr

    lat_cell = {'id': LAT_CELL, 'mat': LAT_CELL, 'rho': '-1.0',
                'expr': deckmod.leaf_expr(lits), 'imp': {'n': 1}, 'u': OWN,
                'lat': 1,
                'fill': {'ranges': ranges, 'array': array, 'tr': fill_tr,
                         'homogeneous': homogeneous},
                'trcl': lat_trcl,
                'lat_vectors': lat_vectors, 'lat_centre': list(centre)}
    if not homogeneous:
        del lat_cell['fill']['homogeneous']
    radius = 10.0
    cells = [
        {'id': CONTAINER, 'mat': 0, 'rho': None, 'expr': deckmod.S(-10),
         'imp': {'n': 1}, 'u': 0, 'fill': {'u': OWN, 'tr': cont_tr}},
        {'id': 2, 'mat': 0, 'rho': None, 'expr': deckmod.S(9),
         'imp': {'n': 0}, 'u': 0},
        # a shell around the container: the converted geometry is never empty,
        # even when every array entry is 0
        {'id': SHELL, 'mat': SHELL, 'rho': '-1.0',
         'expr': deckmod.leaf_expr([10, -9]), 'imp': {'n': 1}, 'u': 0},
        lat_cell]
    surfaces.append({'id': 10, 'mn': 'so', 'params': [radius], 'tr': None,
                     'bc': ''})
    surfaces.append({'id': 9, 'mn': 'so', 'params': [radius + 1.0],
                     'tr': None, 'bc': ''})
    next_cell, next_surf = 11, 41
    nested = bool(force.get('nested', rng.random() < 0.15))
    for univ in fillers:
        if nested and univ == fillers[-1]:
            fc, fs = gen_nested_lattice(rng, univ, next_cell, next_surf,
                                        centre, scale)
        else:
            fc, fs = gen_filler(rng, univ, next_cell, next_surf, centre,
                                scale)
        cells.extend(fc)
        surfaces.extend(fs)
        next_cell += 10
        next_surf += 10
    materials = {c['mat']: ['1001', '1'] for c in cells if c['mat']}
    deck = {'title': 'C06 generated lattice deck', 'cells': cells,
            'surfaces': surfaces, 'transforms': transforms,
            'materials': materials, 'data': []}
    # container radius: contains every declared element (sometimes cuts them)
    to_world = frame_maps(LatRef(deck), deck)
    far = 0.0
    rngs = ranges[:d]
    for idx in np.ndindex(*[hi - lo + 1 for lo, hi in rngs]):
        idx = [lo + i for (lo, _), i in zip(rngs, idx)]
        x = np.array(centre) + sum(i * np.array(v) for i, v in
                                   zip(idx, lat_vectors))
        far = max(far, float(np.linalg.norm(to_world(x))))
    reach = max(math.sqrt(float(np.dot(v, v))) for v in lat_vectors)
    radius = float(math.ceil(far + 1.2 * reach))
    if rng.random() < 0.2:
        radius = float(max(2.0, math.floor(0.6 * radius)))
    radius = force.get('radius', radius)
    surfaces[[s['id'] for s in surfaces].index(10)]['params'] = [radius]
    surfaces[[s['id'] for s in surfaces].index(9)]['params'] = [radius + 1.0]
    # an explicit FILL array on a cell that is ALSO named in a --lattice option
    # (given, say, for an earlier revision of the deck): the ranges written on
    # the card count, the option is ignored.  The option's ranges have the same
    # number of elements but are shifted / permuted.
    extra_args = []
    if not homogeneous and force.get('shadow_opt', rng.random() < 0.3):
        own = [tuple(r) for r in ranges[:d]]
        shift = rng.choice([1, 2, -1, -2])
        opt = [(lo + shift, hi + shift) for lo, hi in own]
        lens = [hi - lo for lo, hi in own]
        if d > 1 and len(set(lens)) > 1 and rng.random() < 0.5:
            opt = opt[1:] + opt[:1]      # same sizes, other axes
        extra_args = ['--lattice', f'{LAT_CELL},'
                      + ','.join(f'{lo}:{hi}' for lo, hi in opt)]
    meta = {'d': d, 'kind': kind, 'rpp': use_rpp, 'homogeneous': homogeneous,
            'extra_args': extra_args,
            'fill_tr': fill_tr is not None,
            'fill_rot': fill_tr is not None and fill_tr['B'] is not None,
            'lat_trcl': lat_trcl is not None, 'cont_tr': cont_tr is not None,
            'both_tr': lat_trcl is not None and fill_tr is not None,
            'degenerate_low_dim': degenerate_low_dim, 'nested': nested,
            'n_elements': len(array) if not homogeneous else
            int(np.prod([hi - lo + 1 for lo, hi in ranges]))}
    return deck, meta


def render_text(deck, rng, shorthand=None):
    '''Text of the deck.  With `shorthand` (default: 35 % of the decks) the FILL
    arrays of the lattice cells are written with MCNP's repeat shorthand
    (`2 3r` = 2 2 2 2, `r` = once more) wherever a universe repeats; the
    keywords that deck.cell_options writes after FILL (TRCL, IMP) then follow a
    shorthand array.  The abstract deck (numeric array) stays the reference.'''
    import copy
    if shorthand is None:
        shorthand = rng.random() < 0.35
    if not shorthand:
        return deckmod.render(deck), False
    out = copy.deepcopy(deck)
    used = False
    for cell in out['cells']:
        fill = cell.get('fill')
        if not cell.get('lat') or not fill or fill.get('homogeneous') \
                or 'array' not in fill:
            continue
        arr, toks, k = fill['array'], [], 0
        while k < len(arr):
            n = 1
            while k + n < len(arr) and arr[k + n] == arr[k]:
                n += 1
            toks.append(str(arr[k]))
            if n >= 2 and rng.random() < 0.8:
                toks.append('r' if n == 2 and rng.random() < 0.5
                            else f'{n - 1}r')
                used = True
            else:
                toks.extend(str(arr[k]) for _ in range(n - 1))
            k += n
        fill['array'] = toks
    return deckmod.render(out), used


# ---------------------------------------------------------------------------
# malformed / out-of-scope lattice cells (tie only)
# ---------------------------------------------------------------------------

def break_deck(rng, deck, meta, fault=None):
    '''Mutate a generated deck into one outside the property's hypotheses.
    Returns the fault name.'''
    cell = next(c for c in deck['cells'] if c['id'] == LAT_CELL)
    lits = [e[1] for e in cell['expr'][1:]] if cell['expr'][0] == '*' \
        else [cell['expr'][1]]
    d = meta['d']
    faults = ['drop_surface', 'extra_pair', 'same_plane', 'range_in_padding',
              'too_many_ranges']
    if d < 3:
        faults += ['padding_nonzero', 'padding_nonzero']
    if d >= 2:
        faults += ['parallel_pairs', 'shifted_ranges']
    if d >= 2:
        faults += ['too_few_ranges', 'too_few_ranges']
    if meta['rpp']:
        faults = ['range_in_padding', 'too_many_ranges']
    if fault is None or fault not in faults:
        fault = rng.choice(faults)
    fill = cell['fill']
    if fault == 'drop_surface':
        lits = lits[:-1]
    elif fault == 'extra_pair':
        # a fourth pair (or a pair repeated): 2d+2 surfaces
        lits = lits + lits[:2] if d == 3 else lits + lits[:2] * (4 - d)
    elif fault == 'same_plane':
        # second surface of the first pair is the first one again
        lits = [lits[0], -lits[0]] + lits[2:]
    elif fault == 'parallel_pairs':
        lits = lits[:2] + lits[:2] + lits[4:]
    elif fault in ('range_in_padding', 'shifted_ranges', 'too_many_ranges',
                   'padding_nonzero', 'too_few_ranges'):
        if fill.get('homogeneous'):
            fill.pop('homogeneous')
            fill['array'] = fill['array'][:1]
        ranges = [tuple(r) for r in fill['ranges'][:d]]
        ranges = ranges + [(0, 0)] * (3 - len(ranges))
        if fault == 'range_in_padding':
            ranges[2 if d < 3 else 0] = (0, 1)
        elif fault == 'padding_nonzero':
            # one-point padding ranges that are not 0:0 (accepted by the code,
            # the surplus index is ignored)
            for k in range(d, 3):
                v = rng.choice([-2, 1, 3])
                ranges[k] = (v, v)
        elif fault == 'too_few_ranges':
            # fewer ranges than base vectors (only possible with --lattice)
            ranges = ranges[:d - 1]
            fill['homogeneous'] = True
        elif fault == 'shifted_ranges':
            # d non-trivial ranges, but not the first d
            ranges = [(0, 0)] + [(lo, max(hi, lo + 1)) for lo, hi in
                                 ranges[:d]][:2]
        else:
            ranges = [(lo, max(hi, lo + 1)) for lo, hi in ranges]
            ranges = [(0, 1), (0, 1), (-1, 0)]
        n = 1
        for lo, hi in ranges:
            n *= hi - lo + 1
        fill['ranges'] = ranges
        fill['array'] = [rng.choice([OWN, 2, 3, 0]) for _ in range(n)]
    cell['expr'] = deckmod.leaf_expr(lits)
    return fault


# ---------------------------------------------------------------------------
# reference: mcnpref.Reference with a corrected element search
# ---------------------------------------------------------------------------

class LatRef(mcnpref.Reference):
    '''mcnpref.Reference (with the orthogonal basis completion, applied to the
    shared file) plus the one case it leaves open: a lattice cell with BOTH a
    TRCL and a fill transformation.  Rule (the one the shared reference uses
    for ordinary filled cells, `locate`: "fill transformation if given, else
    TRCL", and the one upstream validated against MCNP with the decks
    trcl_filltr.imcnp / trcl_filltr_lat.imcnp): TRCL moves the lattice cell
    (its planes, hence the elements and their translations M.a_i), the filling
    universe is placed by the fill transformation alone and then translated
    to the element.'''

    def locate_lattice(self, cell, p, depth):
        tr = self.tr_of(cell.get('trcl'))
        fill = cell['fill']
        ftr = self.tr_of(fill.get('tr'))
        if tr is None or ftr is None:
            return super().locate_lattice(cell, p, depth)
        # elements: as for the cell with TRCL only
        probe = dict(cell)
        probe['fill'] = dict(fill, tr=None)
        probe['u'] = cell.get('u', 0)
        chain = _ElementOnly(self).element_of(probe, p)
        link, univ, shift = chain
        if univ is None:
            return [link, None]
        if univ == cell.get('u', 0):
            return [link]
        p = np.asarray(p, float)
        moved = mcnpref.to_main(tr, shift) - mcnpref.to_main(tr, np.zeros(3))
        q = mcnpref.to_aux(ftr, p - moved)
        sub = self.locate(q, univ, depth + 1)
        if sub is None:
            return [link, None]
        return [link] + sub


class _ElementOnly:
    '''Element search of a lattice cell with a TRCL (same steps as
    mcnpref.Reference.locate_lattice, stopping at the fill universe).'''

    def __init__(self, ref):
        self.ref = ref

    def element_of(self, cell, p):
        ref = self.ref
        vecs = [np.array(v, float) for v in cell['lat_vectors']]
        tr = ref.tr_of(cell.get('trcl'))
        fill = cell['fill']
        ranges = fill['ranges']
        basis = np.array(list(vecs) + complement_basis(vecs)).T
        p_loc = mcnpref.to_aux(tr, p) if tr else np.asarray(p, float)
        centre = np.array(cell['lat_centre'], float)
        coords = np.linalg.solve(basis, p_loc - centre)
        guess = [int(round(c)) for c in coords[:len(vecs)]]
        found = None
        for delta in np.ndindex(*([3] * len(vecs))):
            idx = [g + dlt - 1 for g, dlt in zip(guess, delta)]
            shift = sum(i * v for i, v in zip(idx, vecs))
            q = p_loc - shift
            if ref.eval_expr(cell['expr'], q, q):
                if found is not None:
                    raise mcnpref.Ambiguous('lattice elements overlap')
                found = idx
        if found is None:
            raise mcnpref.Ambiguous('point in no lattice element')
        idx3 = list(found) + [0] * (3 - len(found))
        full_ranges = list(ranges) + [(0, 0)] * (3 - len(ranges))
        link = (cell['id'], tuple(idx3))
        for i, (lo, hi) in zip(idx3, full_ranges):
            if i < lo or i > hi:
                return link, None, None
        dims = [hi - lo + 1 for lo, hi in full_ranges]
        flat = ((idx3[0] - full_ranges[0][0])
                + dims[0] * ((idx3[1] - full_ranges[1][0])
                             + dims[1] * (idx3[2] - full_ranges[2][0])))
        univ = fill['array'][0] if fill.get('homogeneous') \
            else fill['array'][flat]
        if univ == 0:
            return link, None, None
        shift = sum(i * v for i, v in zip(found, vecs))
        return link, univ, shift


# ---------------------------------------------------------------------------
# points
# ---------------------------------------------------------------------------

def complement_basis(vecs):
    '''Orthonormal vectors spanning the orthogonal complement of span(vecs).'''
    mat = np.array(vecs, float)
    _, sing, vt = np.linalg.svd(mat)
    rank = int((sing > 1e-10).sum())
    return [vt[k] for k in range(rank, 3)]


def frame_maps(ref, deck):
    '''lattice frame -> world'''
    cont = ref.resolve(CONTAINER)
    lat = ref.resolve(LAT_CELL)
    ctr = ref.tr_of(cont['fill'].get('tr')) or ref.tr_of(cont.get('trcl'))
    ltr = ref.tr_of(lat.get('trcl'))

    def to_world(x):
        x = np.asarray(x, float)
        if ltr:
            x = mcnpref.to_main(ltr, x)
        if ctr:
            x = mcnpref.to_main(ctr, x)
        return x
    return to_world


def sample_points(rng, deck, n_inner=3, n_random=40):
    '''World points: inside every declared element and one layer of undeclared
    ones around, hugging the element borders on both sides, plus uniform
    points. Each point carries the index the sampler aimed at (information
    only; the verdict comes from mcnpref).'''
    ref = LatRef(deck)
    lat = ref.resolve(LAT_CELL)
    vecs = [np.array(v, float) for v in lat['lat_vectors']]
    d = len(vecs)
    centre = np.array(lat['lat_centre'], float)
    comp = complement_basis(vecs)
    ranges = list(lat['fill']['ranges'])[:d]
    ranges += [(0, 0)] * (d - len(ranges))
    to_world = frame_maps(ref, deck)
    pts = []

    def emit(idx, frac):
        x = centre + sum((i + t) * v for i, t, v in zip(idx, frac, vecs))
        for w in comp:
            x = x + rng.choice([0.0, rng.uniform(-2.5, 2.5)]) * w
        pts.append((to_world(x), tuple(idx)))

    spans = [range(lo - 1, hi + 2) for lo, hi in ranges]
    for idx in np.ndindex(*[len(s) for s in spans]):
        idx = [spans[k][i] for k, i in enumerate(idx)]
        outside = any(i < lo or i > hi for i, (lo, hi) in zip(idx, ranges))
        if outside and rng.random() < (0.0, 0.0, 0.4, 0.75)[d]:
            continue
        for _ in range(1 if outside else n_inner):
            emit(idx, [rng.uniform(-0.48, 0.48) for _ in range(d)])
        if outside and rng.random() < 0.5:
            continue
        # both sides of the border towards +1 in a random direction
        k = rng.randrange(d)
        frac = [rng.uniform(-0.45, 0.45) for _ in range(d)]
        delta = rng.choice([1e-3, 5e-3, 0.03])
        frac[k] = 0.5 - delta
        emit(idx, frac)
        frac2 = list(frac)
        frac2[k] = 0.5 + delta
        emit(idx, frac2)
    radius = next(s['params'][0] for s in deck['surfaces'] if s['id'] == 10)
    for _ in range(n_random):
        pts.append((np.array([rng.uniform(-radius, radius) * 1.1
                              for _ in range(3)]), None))
    return pts


# ---------------------------------------------------------------------------
# property-level comparison
# ---------------------------------------------------------------------------

def compare(deck, t4, points, eps=1e-6):
    '''Returns (checked, failures, stats). The expected owner of a point is
    identified by its material: every cell of the generated decks has its own
    material number.'''
    ref = LatRef(deck, eps=eps)
    evl = t4eval.Evaluator(t4, eps=eps)
    comp_of = {}
    for name, vols in t4.geomcomp:
        for vid in vols:
            comp_of.setdefault(vid, []).append(name)
    failures, checked = [], 0
    stats = {'leaf': 0, 'own': 0, 'shell': 0, 'void': 0, 'outside_ranges': 0,
             'outside_container': 0, 'ambiguous': 0}
    for p, aimed in points:
        try:
            chain = ref.locate(np.array(p, float))
        except mcnpref.Ambiguous:
            stats['ambiguous'] += 1
            continue
        try:
            owners = evl.owners(p)
        except t4eval.T4EvalError as exc:
            if 'within eps' in str(exc):
                stats['ambiguous'] += 1
                continue
            failures.append({'point': [float(v) for v in p], 'aimed': aimed,
                             'chain': repr(chain),
                             'why': f'T4 evaluation: {exc}'})
            continue
        checked += 1
        index = None
        if chain:
            for link in chain:
                if link is not None and link[1] is not None:
                    index = link[1]
        leaf = None
        if chain is not None and chain[-1] is not None \
                and ref.resolve(chain[-1][0])['mat'] \
                and (ref.resolve(chain[0][0]).get('imp') or {}).get('n', 1):
            leaf = chain[-1][0]
        info = {'point': [float(v) for v in p], 'aimed': aimed,
                'chain': repr(chain), 'index': index, 'owners': owners}
        if leaf is None:
            if chain is None or chain[0][0] != CONTAINER:
                stats['outside_container'] += 1   # outside world (imp 0)
            elif index is not None and len(chain) == 3 and chain[-1] is None:
                stats['void'] += 1
            if owners:
                info['why'] = ('point that belongs to no MCNP cell with '
                               f'material (chain {chain}) lies in volume(s) '
                               f'{owners}')
                failures.append(info)
            continue
        stats['own' if leaf == LAT_CELL else
              'shell' if leaf == SHELL else 'leaf'] += 1
        if len(owners) != 1:
            info['why'] = (f'point of chain {chain} lies in {len(owners)} '
                           f'volumes {owners}')
            failures.append(info)
            continue
        names = comp_of.get(owners[0], [])
        want = f'm{ref.resolve(leaf)["mat"]}_'
        if len(names) != 1 or not names[0].startswith(want):
            info['why'] = (f'point of chain {chain} (material {want}*) lies in '
                           f'volume {owners[0]} attached to {names}')
            failures.append(info)
    return checked, failures, stats
