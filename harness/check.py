'''./check <ID> [--tier quick|thorough] [--seed N] [--replay path]'''
import argparse
import fcntl
import importlib
import os
import sys
import traceback

import common
from common import Result


def coq_obligations(res, mod):
    '''Kernel-check the development, audit axioms and forbidden vernacular.
    Returns True when every proof obligation of this property is discharged.'''
    lock = open(common.COQ / '.build.lock', 'w')
    fcntl.flock(lock, fcntl.LOCK_EX)
    try:
        ok, log = common.build_coq(prop_id=res.prop_id)
        res.obligation('coq-build (coq_makefile + make of this property\'s files and their dependencies, full .vo)', ok,
                       '' if ok else log[-1500:])
        hits = common.hygiene(res.prop_id)
        res.obligation('hygiene: no Admitted/admit/Axiom/Parameter/'
                       'Conjecture/unchecked flags', not hits, '; '.join(hits))
        all_ok = ok and not hits
        if ok:
            axioms, stated, out = common.print_assumptions(res.prop_id)
        else:
            axioms, stated, out = None, [], log
    finally:
        fcntl.flock(lock, fcntl.LOCK_UN)
    for thm in mod.THEOREMS:
        if axioms is None or thm not in axioms:
            res.obligation(f'theorem {thm}', False,
                           'not checked: ' + out[-800:])
            all_ok = False
            continue
        extra = [a for a in axioms[thm] if a not in common.ALLOWED_AXIOMS]
        res.obligation(f'theorem {thm}', not extra,
                       'axioms: ' + (', '.join(axioms[thm]) or 'none'))
        all_ok = all_ok and not extra
    if axioms is not None:
        used = sorted({a for t in mod.THEOREMS for a in axioms.get(t, [])})
        res.trusted.append('Coq 8.16.1 kernel + vm_compute; axioms under this '
                           "property's theorems (Print Assumptions): "
                           + (', '.join(used) or 'none'))
    return all_ok


def main():
    parser = argparse.ArgumentParser()
    parser.add_argument('prop')
    parser.add_argument('--tier', default=os.environ.get('VERIF_TIER',
                                                         'quick'))
    parser.add_argument('--seed', type=int,
                        default=int(os.environ.get('VERIF_SEED', '20260926')))
    parser.add_argument('--replay', default=None)
    args = parser.parse_args()
    prop = args.prop.upper()
    tier = 'thorough' if args.tier.startswith('t') else 'quick'
    common.setup_impl()
    mod = importlib.import_module(f'props.{prop.lower()}')
    if args.replay:
        sys.exit(mod.replay(args.replay))
    res = Result(prop, tier, args.seed)
    res.trusted.extend(getattr(mod, 'TRUSTED', []))
    res.assumptions.extend(getattr(mod, 'ASSUMPTIONS', []))
    proofs_ok = coq_obligations(res, mod)
    if not proofs_ok:
        bad = [n for n, ok, _ in res.obligations if not ok]
        res.violation('proof-obligation',
                      'proof obligations no longer check: ' + '; '.join(bad),
                      {'theorem_or_correspondence': bad,
                       'details': [d for _, ok, d in res.obligations
                                   if not ok]},
                      found_input=False)
    try:
        mod.run(res, tier, args.seed, proofs_ok)
    except Exception:    # a crash of the harness is a broken obligation
        res.obligation('harness run', False, traceback.format_exc()[-1500:])
        res.violation('harness-error', 'the check crashed: '
                      + traceback.format_exc()[-600:],
                      {'traceback': traceback.format_exc()},
                      found_input=False)
    cmd = f'./check {prop} --tier {tier} --seed {args.seed}'
    sys.exit(common.finish(res, cmd))


if __name__ == '__main__':
    main()
