'''Shared by C12 and C15: abstract cell/data blocks, their rendering, the
implementation driver (ParseMCNPCell(...).parse()), the emission of Coq cases
for C12/Exec.v, and the independent reading of importances (MCNP's definition
of the shorthand, written here from the manual).'''
import math
import re

import common
import impl
from common import cstr, clist, cfloat, copt, cpair, cz

HEADER = ('From Coq Require Import List NArith ZArith Bool String Ascii '
          'PrimFloat.\nFrom T4V Require Import Base.Str Base.Scalar C12.Text '
          'C12.Model C12.Cards C12.Exec.\nOpen Scope string_scope.\n')

IMP_VALUES = ['0', '1', '1', '2', '0.5', '1.0', '0.0', '4', '1e-1', '0.25',
              '8', '0', '16', '3', '1.5']
# Fortran spellings of reals (read by datacard.to_float on data cards only)
FORTRAN_VALUES = ['1.0+0', '5-1', '2d0', '1.5D+0', '4.0-1', '2.5+1', '1d-1']
FORTRAN_ZEROS = ['0.0+0', '0d0', '0-5', '0.D+2']
FORTRAN_RE = re.compile(r'^([-+]?(?:\d+\.?\d*|\.\d+))[dD]?([-+]?\d+)$')


def mcnp_value(spelling):
    '''Value of a real as MCNP reads it (written here from the manual: an
    exponent may be introduced by E, D or just its sign).'''
    try:
        return float(spelling)
    except ValueError:
        m = FORTRAN_RE.match(spelling)
        return float(m.group(1) + 'e' + m.group(2))


ZERO_SPELLINGS = ['0', '0', '0', '0.0', '0.', '.0', '0e0', '-0', '+0.0', '00',
                  '0.000', '0E+1']
PARTICLES = ['n', 'p', 'e', 'n,p', 'h', 'n,p,e']
DENSITIES = ['-1.0', '-2.7', '0.1', '-19.1', '0.0602', '8.5e-2', '-1.205-3',
             '-11.35', '2.5', '-7.8']

EXC_MAP = {'IndexError': 'EIndex', 'ValueError': 'EValue',
           'TypeError': 'EType', 'ZeroDivisionError': 'EZeroDiv',
           'KeyError': 'EKey', 'ParseMCNPCellError': 'ECell',
           'MissingLatticeOptError': 'EMissingLattice',
           'AssertionError': 'EAssert',
           'TransformationError': 'ETransf', 'AttributeError': 'EAttr'}


# ---------------------------------------------------------------------------
# MCNP's meaning of the data-card shorthand (Appendix A), independent of the
# code: items are ('v', x) | ('r', n) | ('i', n) | ('m', x) | ('j', n)
# ---------------------------------------------------------------------------

def spec_expand(items):
    out = []
    k = 0
    while k < len(items):
        tag, arg = items[k][0], items[k][1]
        if tag == 'v':
            out.append(arg)
        elif tag == 'r':
            out.extend([out[-1]] * arg)
        elif tag == 'm':
            out.append(out[-1] * arg)
        elif tag == 'j':
            out.extend([None] * arg)
        elif tag == 'i':
            lo, hi = out[-1], items[k + 1][1]
            out.extend(lo + (hi - lo) * j / (arg + 1)
                       for j in range(1, arg + 1))
        elif tag == 'ilog':
            lo, hi = out[-1], items[k + 1][1]
            out.extend(lo * (hi / lo) ** (j / (arg + 1))
                       for j in range(1, arg + 1))
        k += 1
    return out


def item_tokens(items, rng):
    toks = []
    for tag, arg, *spell in items:
        if tag == 'v':
            toks.append(spell[0])
        elif tag == 'm':
            toks.append(spell[0] + rng.choice('mM'))
        elif tag == 'ilog':
            toks.append(f'{arg}' + rng.choice(['ilog', 'ILOG', 'log', 'Log']))
        else:
            num = '' if arg == 1 and rng.random() < 0.5 else str(arg)
            toks.append(num + (tag.upper() if rng.random() < 0.5 else tag))
    return toks


def gen_imp_items(rng, n_cells, zero_bias=0.3, allow_j=False, allow_log=False):
    '''Abstract entries of one IMP card covering exactly n_cells cells.
    Returns items as (tag, arg[, spelling]).'''
    items = []
    count = 0
    last = None
    while count < n_cells:
        room = n_cells - count
        choice = rng.random()
        if last is not None and choice < 0.18:
            n = rng.randint(1, min(room, 4))
            items.append(('r', n))
            count += n
        elif last is not None and last[0] == 'v' and choice < 0.28 \
                and room >= 2:
            n = rng.randint(1, min(room - 1, 3))
            sp = rng.choice(IMP_VALUES + FORTRAN_VALUES[:3])
            items.append(('i', n))
            items.append(('v', mcnp_value(sp), sp))
            count += n + 1
        elif last is not None and choice < 0.38:
            sp = rng.choice(['2', '0.5', '0', '1', '4', '1.5', '2+0', '5-1',
                             '0d0'])
            items.append(('m', mcnp_value(sp), sp))
            count += 1
        elif allow_j and last is not None and choice < 0.44:
            n = rng.randint(1, min(room, 2))
            items.append(('j', n))
            count += n
        elif allow_log and last is not None and last[0] == 'v' \
                and last[1] > 0 and choice < 0.5 and room >= 2:
            n = rng.randint(1, min(room - 1, 3))
            sp = rng.choice(['1', '2', '8', '0.5', '16', '1e-1'])
            items.append(('ilog', n))
            items.append(('v', float(sp), sp))
            count += n + 1
        else:
            if rng.random() < zero_bias:
                sp = rng.choice(ZERO_SPELLINGS + FORTRAN_ZEROS) if items \
                    else rng.choice(['0', '0', '0.0+0', '0d0'])
            elif rng.random() < 0.2:
                sp = rng.choice(FORTRAN_VALUES)
            else:
                sp = rng.choice(IMP_VALUES)
            items.append(('v', mcnp_value(sp), sp))
            count += 1
        last = items[-1]
    return items


# ---------------------------------------------------------------------------
# option blocks
# ---------------------------------------------------------------------------

def case_mix(word, rng):
    r = rng.random()
    if r < 0.5:
        return word
    if r < 0.85:
        return word.upper()
    return ''.join(ch.upper() if rng.random() < 0.5 else ch for ch in word)


IDENT = ['1', '0', '0', '0', '1', '0', '0', '0', '1']
ROT_Z90 = ['0', '1', '0', '-1', '0', '0', '0', '0', '1']
ROT_X = ['1', '0', '0', '0', '0', '-1', '0', '1', '0']
ANG_ID = ['0', '90', '90', '90', '0', '90', '90', '90', '0']
ANG_Z90 = ['90', '0', '90', '180', '90', '90', '90', '90', '0']


def gen_params(rng, tr_ids, star, wild=False):
    '''Numeric entries after FILL=n / TRCL=: none, a TR number, a translation,
    a full transformation (12), sometimes an abbreviated one.'''
    r = rng.random()
    shift = [rng.choice(['0', '1', '-2', '0.5', '3.5', '+1', '.5', '10'])
             for _ in range(3)]
    if r < 0.25 and tr_ids:
        return [str(rng.choice(tr_ids))]
    if r < 0.55:
        return shift
    if r < 0.85:
        if star:
            return shift + rng.choice([ANG_ID, ANG_Z90])
        return shift + rng.choice([IDENT, ROT_Z90, ROT_X])
    if wild:
        # not 8: five matrix entries go through normalize_matrix5 (C04's
        # subject; it raises StopIteration on these values)
        k = rng.choice([2, 4, 6, 7, 9, 10, 13, 14])
        full = shift + (ANG_ID if star else IDENT) + [rng.choice(['1', '1', '-1']), '1']
        return full[:k]
    return shift


def gen_block(rng, kind, tr_ids=(), wild=False):
    '''One option block: {'kind', 'kw', 'vals', ...}.'''
    if kind == 'imp':
        sp = rng.choice(IMP_VALUES)
        return {'kind': 'imp', 'kw': 'imp:' + rng.choice(PARTICLES),
                'vals': [sp], 'value': float(sp)}
    if kind == 'u':
        return {'kind': 'u', 'kw': 'u',
                'vals': [rng.choice(['1', '2', '3', '7', '12', '-4', '0'])]}
    if kind == 'lat':
        vals = [rng.choice(['1', '2'])]
        if wild and rng.random() < 0.3:
            vals = [rng.choice(['3', '0', '1.0', 'x'])]
        return {'kind': 'lat', 'kw': 'lat', 'vals': vals}
    if kind == 'rho':
        return {'kind': 'rho', 'kw': 'rho', 'vals': [rng.choice(DENSITIES)]}
    if kind == 'mat':
        return {'kind': 'mat', 'kw': 'mat',
                'vals': [str(rng.choice([1, 2, 3, 4, 5, 0]))]}
    if kind == 'trcl':
        star = rng.random() < 0.3
        params = gen_params(rng, list(tr_ids), star, wild)
        if len(params) == 0:
            params = ['1', '0', '0']
        return {'kind': 'trcl', 'kw': ('*' if star else '') + 'trcl',
                'vals': params, 'paren': len(params) > 1 or rng.random() < 0.3}
    if kind == 'fill':
        star = rng.random() < 0.25
        params = [] if rng.random() < 0.45 else \
            gen_params(rng, list(tr_ids), star, wild)
        return {'kind': 'fill', 'kw': ('*' if star else '') + 'fill',
                'vals': [rng.choice(['1', '2', '3', '7', '12'])],
                'params': params}
    if kind == 'fillarr':
        dims = rng.choice([1, 1, 2, 3])
        ranges = []
        size = 1
        for _ in range(dims):
            lo = rng.choice([0, 0, -1, 1])
            hi = lo + rng.choice([0, 1, 1, 2])
            ranges.append((lo, hi))
            size *= hi - lo + 1
        while len(ranges) < 3 and rng.random() < 0.7:
            ranges.append((0, 0))
        want = size
        univs = []
        total = 0
        while total < want:
            if univs and rng.random() < 0.3:
                n = rng.randint(1, min(3, want - total))
                univs.append(('r', n))
                total += n
            else:
                univs.append(('v', rng.choice([1, 2, 3, 7, 0])))
                total += 1
        surplus = False
        if wild and rng.random() < 0.25:
            surplus = rng.random() < 0.5
            univs = univs + [('v', 9)] if surplus else univs[:-1]
        toks = [f'{lo}:{hi}' for lo, hi in ranges]
        toks += [(f'{n}r' if t == 'r' else str(n)) for t, n in univs]
        # a surplus array entry is read as the first transformation parameter:
        # no further parameters then (a shifted matrix is C04's subject)
        params = [] if rng.random() < 0.7 or wild and rng.random() < 0.5 \
            or surplus else gen_params(rng, (), False)
        if len(params) == 1:
            params = []
        return {'kind': 'fillarr', 'kw': 'fill', 'vals': toks,
                'params': params}
    if kind == 'noise':
        kw, val = rng.choice([('vol', '3.5'), ('tmp', '2.53e-8'),
                              ('pwt', '1'), ('ext:n', '0'),
                              ('fcl:n', '0'), ('pd', '0.5'),
                              ('vol', '12'), ('tmp', '2.5-8')])
        return {'kind': 'noise', 'kw': kw, 'vals': [val]}
    if kind == 'ukw':     # keywords that merely contain a 'u' (guard complement)
        kw, val = rng.choice([('nonu', '1'), ('nonu', '0'), ('unc:n', '1'),
                              ('nonu', '2')])
        return {'kind': 'ukw', 'kw': kw, 'vals': [val]}
    raise ValueError(kind)


def render_block(block, rng):
    kw = case_mix(block['kw'], rng)
    if block['kind'] == 'imp' and rng.random() < 0.15:
        kw = kw.replace(':', rng.choice([' :', ': ', ' : ']))
    sep = rng.choice(['=', '=', ' ', ' = ', '= '])
    vals = list(block['vals'])
    if block['kind'] == 'trcl':
        body = ' '.join(vals)
        if block.get('paren'):
            body = '(' + body + ')'
        return kw + sep + body
    txt = kw + sep + ' '.join(vals)
    params = block.get('params')
    if params:
        style = rng.random()
        if style < 0.6:
            txt += ' (' + ' '.join(params) + ')'
        elif style < 0.8:
            txt += '(' + ' '.join(params) + ')'
        else:
            txt += ' ' + ' '.join(params)
    return txt


def render_opts(blocks, rng):
    return ' '.join(render_block(b, rng) for b in blocks)


def py_option_tokens(opts):
    '''Independent of the code only in being written separately: used to
    collect the tokens whose float()/normalize_float() the tables must hold.'''
    opts = re.sub(' *: *', ':', opts)
    return (opts.lower().replace('(', ' ').replace(')', ' ')
            .replace('=', ' ').split())


# ---------------------------------------------------------------------------
# decks
# ---------------------------------------------------------------------------

def geom_for(index, n_cells):
    '''Nested spherical shells, one per explicit cell.'''
    if index == 0:
        return '-1'
    if index == n_cells - 1:
        return f'{index}'
    return f'{index} -{index + 1}'


def render_deck(deck, rng, wrap=True):
    '''deck: {'cells': [{'id','like','mat','geom','opts'}], 'imp_cards':
    [(name, tokens)], 'trs': {id: [tokens]}, 'mats': set, 'nsurf': int}.'''
    lines = ['C12/C15 generated deck']
    for cell in deck['cells']:
        if cell['like'] is not None:
            head = (f'{cell["id"]} {case_mix("like", rng)} {cell["like"]} '
                    f'{case_mix("but", rng)}')
        else:
            head = f'{cell["id"]} {cell["mat"]} {cell["geom"]}'
        opts = cell['opts']
        if cell.get('glue') and opts:
            # options directly after the closing parenthesis of the geometry
            lines.append(head + opts)
            continue
        if wrap and opts and rng.random() < 0.3:
            # continuation line: break at a blank between two option words
            cut = [m.start() for m in re.finditer(' ', opts)]
            if cut:
                pos = rng.choice(cut)
                style = rng.random()
                if style < 0.6:
                    lines.append(head + ' ' + opts[:pos])
                    lines.append('      ' + opts[pos + 1:])
                elif style < 0.8:
                    lines.append(head + ' ' + opts[:pos] + ' &')
                    lines.append(opts[pos + 1:])
                else:
                    lines.append(head + ' ' + opts[:pos] + ' $ comment u=9')
                    lines.append('c imp:n=0 a comment line')
                    lines.append('        ' + opts[pos + 1:])
                continue
        lines.append((head + ' ' + opts).rstrip())
    lines.append('')
    for k in range(1, deck['nsurf'] + 1):
        lines.append(f'{k} so {k}')
    lines.extend(deck.get('extra_surfs', []))
    lines.append('')
    for name, toks in deck['imp_cards']:
        if wrap and len(toks) > 4 and rng.random() < 0.3:
            half = len(toks) // 2
            lines.append(f'{name} ' + ' '.join(toks[:half]))
            lines.append('      ' + ' '.join(toks[half:]))
        else:
            lines.append(f'{name} ' + ' '.join(toks))
    for num, toks in deck['trs'].items():
        lines.append(f'{toks[0]}tr{num} ' + ' '.join(toks[1:]))
    for num in sorted(deck['mats']):
        lines.append(f'm{num} 1001 1')
    lines.append('nps 100')
    return '\n'.join(lines) + '\n'


TR_CARDS = {
    2: ['', '1', '2', '3'],
    5: ['', '0', '0', '5', '0', '1', '0', '-1', '0', '0', '0', '0', '1'],
    8: ['*', '1', '0', '0', '90', '0', '90', '180', '90', '90', '90', '90',
        '0'],
}


# ---------------------------------------------------------------------------
# implementation driver
# ---------------------------------------------------------------------------

CONTENTS = {'c': [], 'd': []}     # card contents of the last run_impl call
SKIPPED = set()                   # helpers of /repo that were not found (evidence)


def lattice_params_of(lattice_args):
    '''The dictionary ParseMCNPCell expects for --lattice options
    ("cell,i0:i1[,j0:j1[,k0:k1]]"): through main.parse_lattice when it exists,
    otherwise built from the public Lattice.parse_ranges.'''
    try:
        from t4_geom_convert.main import parse_lattice
    except ImportError:
        SKIPPED.add('helper main.parse_lattice not present')
        from t4_geom_convert.Kernel.Volume.Lattice import parse_ranges
        out = {}
        for opt in lattice_args:
            cell, *ranges = opt.split(',')
            out[int(cell)] = parse_ranges(ranges)
        return out
    return parse_lattice(list(lattice_args))



def run_impl(text, geoms, lattice_args=()):
    '''ParseMCNPCell(parser, None, lattice_params).parse() on the deck text.
    Returns ('ok', [(id, cell dict)], skipped, transforms) or ('err', cls,
    msg, transforms).'''
    from t4_geom_convert.Kernel.FileHandlers.Parser.ParseMCNPCell import \
        ParseMCNPCell
    from t4_geom_convert.Kernel.Transformation.Transformation import \
        get_mcnp_transforms
    from t4_geom_convert.Kernel.Volume.Lattice import LatticeSpec
    from MIP.geom.parsegeom import get_ast
    import contextlib
    import io
    rev = {}
    for geom in geoms:
        rev[repr(get_ast(geom))] = geom
    lattice_params = lattice_params_of(lattice_args)
    with impl.mip_parser(text) as parser:
        CONTENTS['c'] = [c.content() for c in
                         parser.cards(blocks='c', skipcomments=True)]
        CONTENTS['d'] = [c.content() for c in
                         parser.cards(blocks='d', skipcomments=True)]
        transforms = {k: [float(x) for x in v]
                      for k, v in get_mcnp_transforms(parser).items()}
        try:
            with contextlib.redirect_stdout(io.StringIO()):
                cells, skipped = ParseMCNPCell(parser, None,
                                               lattice_params).parse()
        except Exception as exc:      # pylint: disable=broad-except
            return ('err', type(exc).__name__, str(exc)[:200], transforms)
    out = []
    for key, cell in cells.items():
        fill = cell.fillid
        if isinstance(fill, LatticeSpec):
            fill = ('lat', [tuple(b) for b in fill.bounds],
                    list(fill.spec))
        elif fill is not None:
            fill = ('u', int(fill))
        out.append((key, {
            'mat': cell.materialID, 'rho': cell.density,
            'geom': rev.get(repr(cell.geometry), '?' + repr(cell.geometry)),
            'imp': cell.importance, 'u': cell.universe, 'fill': fill,
            'filltr': None if cell.filltr is None else list(cell.filltr),
            'lat': cell.lattice,
            'trcl': None if not cell.trcl else list(cell.trcl[0]),
        }))
    return ('ok', out, list(skipped), transforms)


# ---------------------------------------------------------------------------
# Coq emission
# ---------------------------------------------------------------------------

def c_tpval(vals):
    if vals is None:
        return 'None'
    if any(isinstance(v, str) for v in vals):
        return '(Some (EStrs ' + clist(cstr(str(v)) for v in vals) + '))'
    return '(Some (EVals ' + clist(cfloat(float(v)) for v in vals) + '))'


def c_fill(fill):
    if fill is None:
        return 'FNone'
    if fill[0] == 'u':
        return f'(FUniv {cz(fill[1])})'
    bounds = clist(cpair(cz(a), cz(b)) for a, b in fill[1])
    spec = clist(copt(u, cz) for u in fill[2])
    return f'(FLattice {bounds} {spec})'


def c_ocell(cell):
    return ('(mkO ' + ' '.join([
        cstr(cell['mat']), copt(cell['rho'], cstr), cstr(cell['geom']),
        copt(cell['imp'], cfloat), cz(cell['u']), c_fill(cell['fill']),
        c_tpval(cell['filltr']), copt(cell['lat'], cz),
        c_tpval(cell['trcl'])]) + ')')


def py_float(tok):
    try:
        return float(tok)
    except ValueError:
        return None


def py_to_float(tok):
    '''The implementation's number reader for data-card entries (a primitive of
    the model, like float()): datacard.to_float when the helper exists, else the
    same function observed through the public expand_data_card (1 * x = x).'''
    try:
        from MIP.mip.datacard import to_float
    except ImportError:
        SKIPPED.add('helper datacard.to_float not present')
        from MIP.mip.datacard import expand_data_card
        try:
            return expand_data_card(['1', tok + 'm'])[0][1]
        except (ValueError, IndexError):
            return None
    try:
        return to_float(tok)
    except ValueError:
        return None


def c_tables(tokens, transforms):
    '''The primitives float(), to_float(), normalize_float() as tables. A token
    float() / to_float() refuses is simply left out (Exec.prims_of answers None
    for a missing key), normalize_float is tabulated for number-like tokens.'''
    from t4_geom_convert.Kernel.Utils import normalize_float
    toks = set()
    for tok in tokens:
        low = tok.lower()
        toks.update([tok, low, low[:-1]])
    toks.discard('')
    toks = sorted(toks)
    floats = clist(cpair(cstr(t), copt(py_float(t), cfloat)) for t in toks
                   if py_float(t) is not None)
    tofloats = clist(cpair(cstr(t), copt(py_to_float(t), cfloat))
                     for t in toks if py_to_float(t) is not None)
    norms = []
    for tok in toks:
        if tok[0] not in '0123456789.+-':
            continue
        try:
            norms.append(cpair(cstr(tok), cstr(normalize_float(tok))))
        except Exception:     # pylint: disable=broad-except
            pass
    trs = clist(cpair(cz(k), clist(cfloat(x) for x in v))
                for k, v in transforms.items())
    return f'(mkTables {floats} {tofloats} {clist(norms)} {trs})'


def c_card(cell):
    if cell['like'] is not None:
        body = f'(Like {cz(cell["like"])})'
    else:
        body = f'(Explicit {cstr(cell["mat"])} {cstr(cell["geom"])})'
    return cpair(cz(cell['id']), cpair(body, cstr(cell['opts'])))


def deck_tokens(deck):
    toks = []
    for cell in deck['cells']:
        toks.extend(py_option_tokens(cell['opts']))
        if cell['like'] is None:
            toks.extend(cell['mat'].split())
    for _name, entries in deck['imp_cards']:
        toks.extend(entries)
    return toks


def card_split(name, toks):
    '''(dictionary key, entries) of a data card as Card.parts() +
    get_cell_importances read it: the card name runs up to the first digit of
    the card (so a leading "." or sign of the first entry, or leading entries
    without a digit, end up in the name) and the entries are what follows.
    Written from the observed rule, independently of the regex.'''
    text = name + ' ' + ' '.join(toks)
    pos = next((k for k, ch in enumerate(text) if ch in '0123456789'),
               len(text))
    return text[:pos].lower(), text[pos:].split()


def c_pcase(deck, lattice_args, result, texts=True):
    '''One `pcase` term.'''
    transforms = result[3]
    split = [card_split(name, toks) for name, toks in deck['imp_cards']]
    tables = c_tables(deck_tokens(deck)
                      + [t for _, toks in split for t in toks], transforms)
    imps = clist(cpair(cstr(name), clist(cstr(t) for t in toks))
                 for name, toks in split)
    cards = clist(c_card(c) for c in deck['cells'])
    lats = clist(cpair(cz(k), clist(cpair(cz(a), cz(b)) for a, b in v))
                 for k, v in lattice_params_of(lattice_args).items())
    if result[0] == 'ok':
        cells = clist(cpair(cz(k), c_ocell(c)) for k, c in result[1])
        out = f'(Ok ({cells}, {clist(cz(k) for k in result[2])}))'
    else:
        out = f'(Err {EXC_MAP.get(result[1], "EOther_" + result[1])})'
    # the card texts are only used by check_parse (second route)
    ctexts = clist(cstr(t) for t in CONTENTS['c']) if texts else '[]'
    dtexts = clist(cstr(t) for t in CONTENTS['d']) if texts else '[]'
    return f'(mkCase {tables} {imps} {cards} {lats} {ctexts} {dtexts} {out})'


# ---------------------------------------------------------------------------
# reading of conversions
# ---------------------------------------------------------------------------

NOTE_RE = re.compile(r'NOTE: the following cells have been omitted.*?'
                     r'equal to zero:\s*\[(.*?)\]', re.S)


def note_list(stdout):
    m = NOTE_RE.search(stdout)
    if not m:
        return []
    return [int(x) for x in m.group(1).split(',') if x.strip()]


def note_bytes_lines(stdout):
    '''The bytes print() wrote for the NOTE (from the newline that starts it to
    the newline that ends it), split at newline characters; [] without NOTE.'''
    start = stdout.find('\nNOTE:')
    if start < 0:
        return []
    end = stdout.index('\nfinished at:', start)
    return stdout[start:end].split('\n')


def body_after_header(text):
    '''The written file without its three // header lines.'''
    lines = text.split('\n')
    k = 0
    while k < len(lines) and lines[k].startswith('//'):
        k += 1
    return '\n'.join(lines[k:])


def isclose(a, b):
    return math.isclose(a, b, rel_tol=1e-9, abs_tol=1e-12)
