'''C09 — generators: density spellings with their classes, abstract decks with
universes / FILL / lattices filled with their own universe / LIKE n BUT, and
synthetic cell dictionaries for the function-level ties.'''
import deck as deckmod
from deck import S

# ---------------------------------------------------------------------------
# density spellings
# ---------------------------------------------------------------------------
# A "number" is (sign, int digits, kept fraction digits or None, exponent or
# None); the exponent is (sign, digits). Its spellings differ by the count of
# zeros appended to the fraction and by the exponent marker.

MARKERS = ['e', 'E', 'd', 'D', '']


def spell(number, pad, marker):
    sign, ip, fp, expo = number
    out = sign + ip
    if fp is not None:
        out += '.' + fp + '0' * pad
    if expo is not None:
        out += marker + expo[0] + expo[1]
    return out


def marker_ok(number, marker):
    expo = number[3]
    return expo is None or marker != '' or expo[0] != ''


def gen_number(rng, negative=None, wild=False):
    '''A decimal number as a structured spelling; `wild` gives more of the
    shapes that used to break (empty kept fraction, all-zero exponent).'''
    if negative is None:
        negative = rng.random() < 0.6
    sign = '-' if negative else rng.choice(['', '', '+'])
    ip = rng.choice(['1', '2', '7', '10', '19', '0', '', '3', '11'])
    if rng.random() < 0.15:
        fp = None
    else:
        fp = rng.choice(['5', '25', '05', '205', '1', '35', '7', '001'])
        if rng.random() < (0.5 if wild else 0.15):
            fp = ''
    if ip == '' and not fp:
        ip = '4'
    expo = None
    if rng.random() < 0.4:
        esign = rng.choice(['-', '-', '+', ''])
        edig = rng.choice(['1', '2', '3', '02', '10', '1'])
        if rng.random() < (0.3 if wild else 0.12):
            edig = rng.choice(['0', '00'])
        expo = (esign, edig)
    if ip in ('0', '') and fp is not None and set(fp) <= {'0'}:
        fp = '5'            # keep the value away from zero
    return (sign, ip, fp, expo)


def value_twin(rng, number):
    '''Another NUMBER of the same value that normalize_float keeps distinct
    (outside the spelling relation of the property): a missing point, a missing
    or extra leading zero, a zero exponent added.'''
    sign, ip, fp, expo = number
    options = []
    if fp is None:
        options.append((sign, ip, '0', expo))            # 1 / 1.0
    if ip == '' and fp:
        options.append((sign, '0', fp, expo))            # .5 / 0.5
    if ip and not ip.startswith('0'):
        options.append((sign, '0' + ip, fp, expo))       # 1.5 / 01.5
    if expo is None:
        options.append((sign, ip, fp, (rng.choice(['+', '-', '']), '0')))
    if sign == '':
        options.append(('+', ip, fp, expo))              # 1.5 / +1.5
    return rng.choice(options) if options else None


def gen_spellings(rng, number, count, wild=False):
    '''`count` spellings of one number: (text, pad, marker).'''
    out = []
    for _ in range(count):
        pad = 0
        if number[2] is not None:
            pad = rng.choice([0, 0, 1, 2, 3])
        marker = rng.choice([m for m in MARKERS if marker_ok(number, m)])
        out.append((spell(number, pad, marker), pad, marker))
    return out


def random_token(rng, alphabet, maxlen):
    return ''.join(rng.choice(alphabet) for _ in range(rng.randint(0, maxlen)))


DOCTESTS = [('1.50e-3', '1.5e-3'), ('.500+2', '.5e+2'), ('1.0', '1.0'), ('-1', '-1'), ('7', '7'), ('1.00', '1.0'),
            ('1.23000', '1.23'),
            ('-1.23000', '-1.23'), ('-.23000', '-.23'), ('7', '7'),
            ('10', '10'), ('6.40875-2', '6.40875e-2'),
            ('6.40875+2', '6.40875e+2'), ('-6.40875-2', '-6.40875e-2'),
            ('-.40875-2', '-.40875e-2'), ('1.-2', '1.e-2'),
            ('6.3023-5', '6.3023e-5'), ('-5e-4', '-5e-4'), ('-5E-4', '-5e-4'),
            ('-5e+4', '-5e+4'), ('-5e4', '-5e4'), ('-5d4', '-5e4'),
            ('1.2-4', '1.2e-4')]


# ---------------------------------------------------------------------------
# decks
# ---------------------------------------------------------------------------

MATERIAL_CARDS = {1: ['1001', '2', '8016', '1'], 2: ['26056', '1'],
                  3: ['92235.70c', '0.05', '92238.70c', '0.95'],
                  4: ['6012', '1'], 5: ['13027', '1']}


class DeckGen:
    '''Random deck whose universes are partitions by construction.'''

    def __init__(self, rng, wild=False):
        self.rng = rng
        self.wild = wild
        self.cells = []
        self.surfaces = []
        self.transforms = {}
        self.next_cell = 1
        self.next_surf = 1
        self.next_univ = 1
        self.next_tr = 1
        # material -> list of (number, class id); spellings drawn per cell
        self.palette = {}
        self.classes = {}      # (mat, class id) -> number
        self.features = set()
        self.done = []         # (universe, depth) of finished universes
        self.probes = []       # points inside the small special regions
        self.big = self.new_surface('so', [500.0])

    # -- helpers ------------------------------------------------------------
    def new_surface(self, mn, params):
        sid = self.next_surf
        self.next_surf += 1
        self.surfaces.append({'id': sid, 'mn': mn,
                              'params': [float(v) for v in params],
                              'tr': None, 'bc': ''})
        return sid

    def random_surface(self):
        sid = self.next_surf
        self.next_surf += 1
        surf = deckmod.random_surface(self.rng, sid, scale=4.0,
                                      kinds=['px', 'py', 'pz', 'so', 's', 'cz',
                                             'c/x', 'p', 'cy'])
        self.surfaces.append(surf)
        return sid

    def material(self):
        '''(mat, rho spelling, class key) for a new cell.'''
        rng = self.rng
        if rng.random() < 0.15:
            return 0, None, None
        mat = rng.choice([1, 1, 2, 3, 4, 5])
        pal = self.palette.setdefault(mat, [])
        if not pal and rng.random() < 0.3:
            # two densities that agree to six significant digits and differ beyond
            neg = rng.random() < 0.6
            base = gen_number(rng, negative=neg, wild=self.wild)
            stem = rng.choice(['41234', '04127', '99999', '50000'])
            last = rng.randrange(1, 8)
            ip = base[1] if base[1] not in ('', '0') else '1' + base[1]
            for digit in (last, last + 1):
                pal.append((base[0], ip, stem + str(digit), base[3]))
            self.features.add('near-twin-densities')
        if pal and len(pal) < 3 and rng.random() < 0.25:
            # the same VALUE once more, as a number normalize_float keeps apart
            twin = value_twin(rng, rng.choice(pal))
            if twin is not None and twin not in pal:
                pal.append(twin)
                self.features.add('value-twin-densities')
        if not pal or (len(pal) < 3 and rng.random() < 0.35):
            neg = rng.random() < 0.6
            number = gen_number(rng, negative=neg, wild=self.wild)
            pal.append(number)
        idx = rng.randrange(len(pal))
        number = pal[idx]
        text, pad, marker = gen_spellings(rng, number, 1, wild=self.wild)[0]
        return mat, text, (mat, idx, pad, marker)

    def add_cell(self, expr, univ, mat=None, fill=None, imp=1, **extra):
        cid = self.next_cell
        self.next_cell += 1
        if fill is not None and 'ranges' not in fill and mat is None:
            # a container: material irrelevant, usually void
            if self.rng.random() < 0.7:
                mat = (0, None, None)
        if mat is None:
            mat = self.material()
        cell = {'id': cid, 'mat': mat[0], 'rho': mat[1], 'cls': mat[2],
                'expr': expr, 'imp': {'n': imp}, 'u': univ, 'lat': None,
                'fill': fill, 'trcl': None, 'like': None}
        cell.update(extra)
        self.cells.append(cell)
        return cell

    def fill_tr(self):
        rng = self.rng
        mode = rng.random()
        if mode < 0.45:
            return None
        if mode < 0.7:
            self.features.add('fill-translation')
            return deckmod.make_tr([rng.choice([0, 1, -1, 0.5]) for _ in range(3)])
        if mode < 0.85:
            self.features.add('fill-rotation')
            return deckmod.random_tr(rng, star=rng.random() < 0.4)
        self.features.add('fill-tr-card')
        num = self.next_tr
        self.next_tr += 1
        self.transforms[num] = deckmod.random_tr(rng, star=False)
        return ('num', num)

    # -- universes ----------------------------------------------------------
    def universe(self, depth):
        '''A universe (a partition of space) for a fill at `depth`: a new one,
        or sometimes a finished one of the same or a deeper level (universes
        used by several containers).'''
        rng = self.rng
        fits = [u for u, d in self.done if d >= depth]
        if fits and rng.random() < 0.3:
            self.features.add('universe-reused')
            return rng.choice(fits)
        univ = self.new_universe(depth)
        self.done.append((univ, depth))
        return univ

    def new_universe(self, depth):
        rng = self.rng
        univ = self.next_univ
        self.next_univ += 1
        kind = rng.random()
        if depth < 2 and kind < 0.22:
            self.lattice_universe(univ, depth)
            return univ
        n_leaves = rng.choice([1, 2, 2, 3])
        if n_leaves == 1:
            leaves = [[-self.big]]
        else:
            sids = [self.random_surface() for _ in range(n_leaves - 1)]
            leaves = deckmod.bsp(rng, sids, n_leaves)
        base = None
        for lits in leaves:
            fill = None
            if depth < 2 and rng.random() < 0.3:
                sub = self.universe(depth + 1)
                fill = {'u': sub, 'tr': self.fill_tr()}
                self.features.add(f'nesting-depth-{depth + 1}')
            cell = self.add_cell(deckmod.leaf_expr(lits), univ, fill=fill)
            if fill is None and base is None:
                base = cell
        return univ

    def like_override(self, mat_now, allow_void=True, force=False):
        '''MAT=/RHO= entries of a LIKE n BUT card whose model cell has material
        `mat_now`: (but entries, class key or 'keep', material afterwards).'''
        rng = self.rng
        mode = rng.random()
        if not force and mode < 0.3:
            return {}, 'keep', mat_now           # nothing overridden
        mat = self.material()
        while mat[0] == 0:
            mat = self.material()
        if allow_void and mat_now != 0 and rng.random() < 0.12:
            self.features.add('like-but-void')
            return {'mat': 0}, None, 0           # a void copy
        if mat_now == 0 or mode < 0.65:
            self.features.add('like-but-mat-rho')
            return {'mat': mat[0], 'rho': mat[1]}, mat[2], mat[0]
        # density only: keep the material, take a density of its palette
        pal = self.palette[mat_now]
        idx = rng.randrange(len(pal))
        text, pad, marker = gen_spellings(rng, pal[idx], 1, wild=self.wild)[0]
        self.features.add('like-but-rho')
        return {'rho': text}, (mat_now, idx, pad, marker), mat_now

    def like_cell(self, model, but, cls):
        cid = self.next_cell
        self.next_cell += 1
        self.cells.append({'id': cid, 'like': model['id'], 'but': but,
                           'cls': cls, 'mat': None, 'rho': None, 'expr': None,
                           'imp': None, 'u': but.get('u', model['u']),
                           'lat': None, 'fill': None, 'trcl': None})
        return self.cells[-1]

    def like_universe(self, base, depth):
        '''A chain of 1-3 LIKE n BUT copies of the (infinite) cell `base`, each
        in a universe of its own and each the model of the next one; MAT=/RHO=
        overrides may sit on any hop, so that the last copy depends on what
        the intermediate cards say. Returns the universes of the chain.'''
        rng = self.rng
        hops = rng.choice([1, 2, 2, 3])
        model, cls_now, mat_now = base, base.get('cls'), base['mat']
        univs = []
        for hop in range(hops):
            univ = self.next_univ
            self.next_univ += 1
            # the first hop always overrides; the last one often does not
            but, cls, mat_now = self.like_override(mat_now, force=hop == 0)
            if cls == 'keep':
                cls = cls_now
            cls_now = cls
            but['u'] = univ
            model = self.like_cell(model, but, cls)
            univs.append(univ)
        if hops > 1:
            self.features.add(f'like-chain-{hops}')
        return univs

    def like_top_level(self, carve):
        '''A chain of LIKE n BUT cells at level 0: a small ball with a material
        and 1-2 copies moved by TRCL, the second being LIKE the first copy.'''
        rng = self.rng
        z = -3.5
        ball = self.new_surface('s', [-2.0, 0.0, z, 0.5])
        carve(ball)
        mat = self.material()
        while mat[0] == 0:
            mat = self.material()
        model = self.add_cell(S(-ball), 0, mat=mat)
        cls_now, mat_now = mat[2], mat[0]
        hops = rng.choice([1, 2, 2])
        for hop in range(hops):
            shift = 2.0 * (hop + 1)
            carve(self.new_surface('s', [-2.0 + shift, 0.0, z, 0.5]))
            but, cls, mat_now = self.like_override(mat_now, force=hop == 0)
            if cls == 'keep':
                cls = cls_now
            cls_now = cls
            but['trcl'] = deckmod.make_tr([shift, 0.0, 0.0])
            model = self.like_cell(model, but, cls)
            model['u'] = 0
        self.features.add(f'like-top-level-{hops}')

    def lattice_universe(self, univ, depth):
        '''A rectangular lattice (pitch 4, element centred on the origin)
        whose array names its own universe and other universes.'''
        rng = self.rng
        dims = rng.choice([1, 2, 2, 3])
        self.features.add(f'lattice-{dims}d')
        lits, vecs = [], []
        for axis in range(dims):
            mn = ('px', 'py', 'pz')[axis]
            hi = self.new_surface(mn, [2.0])
            lo = self.new_surface(mn, [-2.0])
            lits += [-hi, lo]
            vec = [0.0, 0.0, 0.0]
            vec[axis] = 4.0
            vecs.append(vec)
        ranges = [(-1, 1)] * dims + [(0, 0)] * (3 - dims)
        size = 3 ** dims
        others = []
        for _ in range(rng.choice([0, 1, 1, 2])):
            others.append(self.universe(depth + 1))
        array = []
        for _ in range(size):
            if others and rng.random() < 0.5:
                array.append(rng.choice(others))
            else:
                array.append(univ)
        if univ in array:
            self.features.add('lattice-own-universe')
        mat = self.material()
        while mat[0] == 0 and rng.random() < 0.8:
            mat = self.material()
        self.add_cell(deckmod.leaf_expr(lits), univ, mat=mat,
                      fill={'ranges': ranges, 'array': array, 'tr': None},
                      lat=1, lat_vectors=vecs, lat_centre=[0.0, 0.0, 0.0])

    # -- the deck -----------------------------------------------------------
    def build(self):
        rng = self.rng
        outer = self.new_surface('so', [6.0])
        n_leaves = rng.choice([2, 3, 3, 4])
        sids = [self.random_surface() for _ in range(n_leaves - 1)]
        leaves = deckmod.bsp(rng, sids, n_leaves)
        for lits in leaves:
            fill = None
            if rng.random() < 0.55:
                fill = {'u': self.universe(1), 'tr': self.fill_tr()}
                self.features.add('nesting-depth-1')
            self.add_cell(deckmod.leaf_expr([-outer] + lits), 0, fill=fill)
        partition = [c for c in self.cells if c['u'] == 0]

        def carve(sid):
            cx, cy, cz, rad = self.surfaces[sid - 1]['params']
            for _ in range(4):
                self.probes.append([cx + rng.uniform(-0.5, 0.5) * rad,
                                    cy + rng.uniform(-0.5, 0.5) * rad,
                                    cz + rng.uniform(-0.5, 0.5) * rad])
            for cell in partition:
                e = cell['expr']
                cell['expr'] = (e + (S(sid),)) if e[0] == '*' \
                    else ('*', e, S(sid))
        # LIKE n BUT chains: copies of an infinite one-cell universe, each in a
        # universe of its own; the universe of the LAST copy (and sometimes of
        # an intermediate one) fills an extra level-0 region
        singles = [c for c in self.cells
                   if c['u'] != 0 and c.get('like') is None
                   and not c['lat'] and c['fill'] is None
                   and c['expr'] == S(-self.big)]
        if singles and rng.random() < 0.8:
            base = rng.choice(singles)
            univs = self.like_universe(base, 1)
            ball = self.new_surface('s', [rng.choice([-2.0, 0.0, 2.0]),
                                          rng.choice([-2.0, 0.5, 2.0]),
                                          rng.choice([-1.0, 1.5]), 1.25])
            carve(ball)
            self.add_cell(S(-ball), 0, fill={'u': univs[-1], 'tr': None},
                          mat=(0, None, None))
            if len(univs) > 1 and rng.random() < 0.5:
                ball2 = self.new_surface('s', [0.0, 0.0, 4.2, 0.6])
                carve(ball2)
                self.add_cell(S(-ball2), 0,
                              fill={'u': rng.choice(univs[:-1]), 'tr': None},
                              mat=(0, None, None))
        if rng.random() < 0.5:
            self.like_top_level(carve)
        self.add_cell(S(outer), 0, mat=(0, None, None), imp=0)
        mats = sorted({c['mat'] for c in self.cells if c.get('mat')}
                      | {c['but']['mat'] for c in self.cells
                         if c.get('like') and 'mat' in c['but']})
        return {'title': 'C09 generated deck', 'cells': self.cells,
                'surfaces': self.surfaces, 'transforms': self.transforms,
                'materials': {m: MATERIAL_CARDS[m] for m in mats if m},
                'data': [], 'palette': self.palette, 'probes': self.probes,
                'features': sorted(self.features)}


def gen_deck(rng, wild=False):
    return DeckGen(rng, wild=wild).build()


# ---------------------------------------------------------------------------
# synthetic cell dictionaries (function-level ties)
# ---------------------------------------------------------------------------

DENSITY_POOL = ['-1.0', '-1.00', '-2.7', '-2.70', '-2.7e0', '0.0602', '6.02-2',
                '6.02e-2', '6.02E-2', '-19.1', '1', '1.', '1.0', '-11.35',
                '-1.135+1', '-1.135d+1', '4.0e0', '0.1', '.1', '-0.5', '-.5',
                '2.50', '2.5', '-1.50e3', '-1.5e3', '3+0', '1.5-0', '-0.0', '-0']


NEAR_TWINS = [('-10.41234', '-10.41235'), ('6.408751e-2', '6.408752e-2'),
              ('-2.7000001', '-2.7000002'), ('1.2345678e+1', '12.345679')]


VALUE_TWINS = [('-1', '-1.0'), ('.5', '0.5'), ('-1.5', '-1.5+0'),
               ('2.5', '02.5'), ('7', '+7'), ('-1e1', '-10'), ('3.0e0', '3.')]


def gen_cells(rng, n_univ=None, malformed=False):
    '''Abstract dictionary {key: dict(mat, dens, imp, univ, fill, origin)} with
    acyclic fills (cyclic ones when `malformed`).'''
    from t4_geom_convert.Kernel.Utils import normalize_float
    n_univ = rng.randint(1, 4) if n_univ is None else n_univ
    cells = {}
    keys = rng.sample(range(1, 60), rng.randint(2, 12))
    if rng.random() < 0.5:
        keys.sort()
    for key in keys:
        univ = rng.choice([0, 0] + list(range(1, n_univ + 1)))
        mat = rng.choice(['0', '1', '2', '3', '01', '12', '+2', '00'])
        dens = None
        if int(mat) != 0:
            dens = normalize_float(rng.choice(DENSITY_POOL))
        fill = None
        if rng.random() < 0.45:
            lo = 1 if malformed else univ + 1
            if lo <= n_univ + 1:
                fill = rng.randint(lo, n_univ + 1)   # n_univ+1: empty universe
        imp = rng.choice([1, 1, 1, 0, 2, -1])
        cells[key] = {'mat': mat, 'dens': dens, 'imp': imp, 'univ': univ,
                      'fill': fill, 'origin': []}
    if rng.random() < 0.25:
        # two cells of one material with one density VALUE under two spellings
        # that normalize_float keeps apart
        nonvoid = [c for c in cells.values() if int(c['mat']) != 0]
        if len(nonvoid) >= 2:
            a, b = rng.sample(nonvoid, 2)
            b['mat'] = a['mat']
            b['univ'] = a['univ'] = 0
            a['fill'] = b['fill'] = None
            a['imp'] = b['imp'] = 1
            a['dens'], b['dens'] = [normalize_float(x)
                                    for x in rng.choice(VALUE_TWINS)]
    if rng.random() < 0.25:
        # two cells of one material whose densities agree to six significant
        # digits and differ beyond
        nonvoid = [c for c in cells.values() if int(c['mat']) != 0]
        if len(nonvoid) >= 2:
            a, b = rng.sample(nonvoid, 2)
            b['mat'] = a['mat']
            a['dens'], b['dens'] = rng.choice(NEAR_TWINS)
    return cells
