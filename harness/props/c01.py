'''C01 — cell regions: every point stays in the volume of the cell that owns it.

Theorems: coq/Properties/C01.v.  Ties (correspondence by execution):
  pipeline : synthetic CellMCNP / GeomExpression / Surface / CellRef objects and
             a synthetic `matching` driven through CellConversion.pot_convert (as
             construct_volume_t4's final loop does), renumber_surfaces,
             remove_empty_volumes, remove_unused_volumes and writeT4Geometry
             vs  Model.convert_cells / renumber / remove_empty / remove_unused /
             written: the whole dic_vol_t4 (key order, PLUS/MINUS, operator,
             operands, FICTIVE, idorigin), new_cell_key and the two caches
  decks    : whole conversions of generated decks; mcnp_dict, matching, the
             counter, union_ids and the renumbering captured from the real run
             are fed to the model; final table and written VOLU lines compared
Independent oracle (sweep): (a) the implementation's own volume table evaluated
on every consistent sense assignment against a Boolean reading of the abstract
cells written here; (b) written files of generated decks against
harness/mcnpref.py at sample points (geomcheck).'''
import json
import random

import common
import c01_gen as G
import c01_decks as D

THEOREMS = ['C01_flag_den', 'C01_expand_surfs_den', 'C01_expand_surfs_errors',
            'C01_expand_surfs_facet0', 'C01_optimise_den',
            'C01_to_t4_cell_sound', 'C01_convert_cellref', 'C01_cells',
            'C01_remove_empty_sound', 'C01_prune_sound', 'C01_partition',
            'C01_partition_points', 'C01_print_read', 'C01_partition_file',
            'C01_partition_file_points', 'C01_partition_file_points_linked',
            'C01_cells_linked', 'C01_partition_linked', 'C01_partition_fill_linked',
            'C01_partition_fill_written_linked', 'C01_partition_fill_points_linked',
            'C01_cards_fill_linked']
TRUSTED = [
    'hand-written model coq/C01/Model.v + Printer.v (modelled, tied by execution: '
    'whole volume table, counter, caches, pruning, printed VOLU lines token by '
    'token)',
    'what a T4 surface id means geometrically: the point theorems take ANY real '
    'functions fval (helper planes x-1 / x+1); that the T4 surfaces a MCNP '
    'surface became give it the same sense (surf_agree / matching) is layer S '
    '(C02-C04), assumed in the linked theorems',
    'TRIPOLI-4 reading of VOLU/EQUA/UNION/INTE/FICTIVE (DESIGN Appendix B), '
    'stated once as Vden (sense assignments) and Pin (points)',
    'character level of the file (blanks, the text of the // idorigin comment, '
    'SURF lines): tokens and the (filler, container) pairs are modelled, the '
    'text is read back by impl.T4File (C08)',
    'harness: generators, impl.T4File reader, mcnpref/t4eval/geomcheck '
    'oracles, PEG shim replacing TatSu',
]
ASSUMPTIONS = [
    'cell references are acyclic (the model uses fuel = number of cells + 1; a '
    'cycle is RecursionError in the code, EFuel in the model)',
    'DISCHARGED by links: no complement node reaches pot_flag (C11), cden is '
    'the region of every cell (C11 for decks without FILL, C05 for the FILL '
    'chain), merged surfaces have equal senses (C13), the generated cell is '
    'converted iff its container has importance <> 0 (C05 GenOK), provenance of '
    'the written volume (C13 over C01 definitions)',
    'still assumed in the linked theorems: the deck and `matching` are well '
    'formed (every surface has an entry, ids <> 0, facets >= 1), every descent '
    'has a value at the point, universes are partitions, no lattices, no TRCL '
    'on cell cards when the C11 and C05 links are composed',
]
HEADER = ('From Coq Require Import List ZArith Bool.\n'
          'From T4V Require Import C01.Model C01.Printer C01.Exec.\n'
          'Import ListNotations.\nOpen Scope Z_scope.\n')


def describe(case):
    return {'cells': {str(c): {'geom': repr(case['cells'][c]['geom']),
                               'imp': case['cells'][c]['imp'],
                               'orig': case['cells'][c]['orig']}
                      for c in case['order']},
            'matching': {str(k): v for k, v in case['matching'].items()},
            'union_ids': [case['u0'], case['u1']], 'cnt0': case['cnt0'],
            'rn': None if case['rn'] is None
            else {str(k): v for k, v in case['rn'].items() if k != v},
            'skipped': case['skipped']}


def payload(case, obs=None, **extra):
    out = {'input': {'case': case_to_json(case)}}
    if obs is not None:
        out['observed'] = repr(obs)[:3000]
    out.update(extra)
    return out


def case_to_json(case):
    return {'cells': [[c, case['cells'][c]] for c in case['order']],
            'matching': [[k, v] for k, v in case['matching'].items()],
            'u0': case['u0'], 'u1': case['u1'], 'cnt0': case['cnt0'],
            'rn': None if case['rn'] is None else sorted(case['rn'].items()),
            'skipped': case['skipped'],
            'partition': case.get('partition', False)}


def case_from_json(data):
    from collections import OrderedDict

    def tree(t):
        if t[0] == 's':
            return ('s', t[1], t[2])
        if t[0] == 'r':
            return ('r', t[1])
        return (t[0], [tree(k) for k in t[1]])
    cells = OrderedDict()
    for cid, cell in data['cells']:
        cells[cid] = {'geom': tree(cell['geom']),
                      'orig': [tuple(p) for p in cell['orig']],
                      'imp': cell['imp']}
    return {'cells': cells, 'order': [c for c, _ in data['cells']],
            'matching': OrderedDict((k, v) for k, v in data['matching']),
            'u0': data['u0'], 'u1': data['u1'], 'cnt0': data['cnt0'],
            'rn': None if data['rn'] is None else dict(
                (a, b) for a, b in data['rn']),
            'skipped': data['skipped'],
            'partition': data.get('partition', False)}


def classify(case, obs, fails):
    '''Narrow known-finding classes at the level of the Boolean pipeline.'''
    if obs[0] == 'ok' and G.has_none_operand(obs[2]) \
            and any('None operand' in f for f in fails):
        return 'empty_cellref_operand'
    return None


def run_pipeline_stream(res, rng, cases, label, chunk=150):
    '''Tie + oracle on a list of abstract cases.'''
    coq_cases, metas = [], []
    import c01_cov
    for num, case in enumerate(cases):
        irng = random.Random(rng.random())
        with c01_cov.traced(num < 120):
            obs, _, _ = G.run_impl(case, irng)
        sent = dict(case)
        sent['rn'] = G.effective_rn(case, obs)
        coq_cases.append(G.coq_case(sent, obs))
        metas.append((case, obs))
        size = sum(G.tree_size(c['geom']) for c in case['cells'].values())
        res.seen(G.case_to_key(case) if hasattr(G, 'case_to_key')
                 else repr(case_to_json(case)), nontrivial=size >= 3)
        res.count(f'{label}:impl:' + (obs[1] if obs[0] == 'err' else 'ok'))
        res.count(f'{label}:size:{min(size // 10 * 10, 60)}+')
        if obs[0] != 'ok':
            continue
        # ---- independent oracle on the implementation's own table ----
        table = obs[6] if obs[6] is not None else [
            (k, v) for k, v in obs[5] if k not in case['skipped']]
        fails = G.oracle(case, table, irng)
        if G.has_none_operand(obs[2]):
            res.count(f'{label}:none-operand')
        if obs[7] is not None:
            res.count(f'{label}:printed-lines-compared', len(obs[7]))
        if obs[3] is None or obs[1] is None:
            res.count(f'{label}:skipped: cache/counter attribute not present')
        # structural categories reached (from the implementation's own tables)
        u0, u1 = case['u0'], case['u1']
        before, final = obs[2], obs[5]
        if len(final) < len(before):
            res.count(f'{label}:shape:volumes-pruned')
        if any(v[0] == [u0] and v[1] == [u0] for _, v in before):
            res.count(f'{label}:shape:empty-reference-stand-in')
        if any(v[0] == [u0] and v[1] == [u1] for _, v in before):
            res.count(f'{label}:shape:union-on-helper-planes')
        if any(v[2] is not None and v[2][0] == 'UNION' and not
               (v[0] == [u0] and v[1] == [u1]) for _, v in before):
            res.count(f'{label}:shape:union-around-largest-intersection')
        if any(v[2] is not None and v[2][0] == 'UNION' and not v[2][1]
               for _, v in before):
            res.count(f'{label}:shape:union-without-operands')
        if any(v[2] is not None and v[2][0] == 'INTE' for _, v in before):
            res.count(f'{label}:shape:inte-operands')
        if any(len(ids) >= 2 for ids in case['matching'].values()):
            res.count(f'{label}:shape:collection-surfaces')
        if obs[3] and obs[4]:
            res.count(f'{label}:shape:both-caches-used')
        if case['rn'] and any(k != v for k, v in case['rn'].items()):
            res.count(f'{label}:shape:merged-surfaces')
            rn = case['rn']
            if rn.get(u0, u0) != u0 or rn.get(u1, u1) != u1:
                res.count(f'{label}:shape:helper-plane-merged')
        for why in fails[:1]:
            res.violation('impl-violation',
                          f'volume table breaks the property: {why}'[:300],
                          payload(case, obs, why=why),
                          cls=classify(case, obs, fails), found_input=True)
    if metas:
        res.sample({'case': describe(metas[0][0]),
                    'observed': repr(metas[0][1])[:1500]})
    bad, errs = common.run_case_files(f'c01_{label}', HEADER, 'case',
                                      'check_case', coq_cases, chunk=chunk)
    res.obligation(f'tie:pipeline/{label} ({len(coq_cases)} cases: model = '
                   'implementation on table, counter, caches, pruning, file)',
                   not bad and not errs,
                   f'{len(bad)} disagreements {errs[:1]}')
    for err in errs[:3]:
        res.violation('correspondence', f'coqc failed on generated cases: '
                      f'{err[-300:]}', {'theorem_or_correspondence':
                                        f'tie:pipeline/{label}', 'log': err},
                      found_input=False)
    for idx in bad[:5]:
        case, obs = metas[idx]
        res.violation('correspondence',
                      f'model and implementation disagree ({label} case '
                      f'{idx}): {describe(case)}'[:380],
                      payload(case, obs,
                              theorem_or_correspondence=f'tie:pipeline/{label}'),
                      found_input=False)
    return metas


def run(res, tier, seed, proofs_ok):
    '''Ties and sweeps under a line-coverage tracer restricted to the anchored
    functions: every reachable line must be executed by the generated inputs.'''
    import c01_cov
    cov = None
    try:
        cov = c01_cov.ACTIVE = c01_cov.LineCov(c01_cov.anchored_functions())
    except Exception:      # coverage is information only: it never raises
        c01_cov.ACTIVE = None
    try:
        _run(res, tier, seed, proofs_ok)
    finally:
        c01_cov.ACTIVE = None
    try:
        total, missing = cov.missing(c01_cov.UNREACHABLE) if cov else (0, [])
        res.obligation('coverage: the generated inputs execute every reachable '
                       f'line of the anchored functions ({total} lines of '
                       f'{len(cov.codes) if cov else 0} code objects)',
                       not missing, f'never executed: {missing[:6]}')
        res.extra['anchored_lines'] = total
        res.extra['line_coverage_detail'] = {
            'not_executed': [list(m) for m in missing[:20]],
            'skipped_names': list(c01_cov.MISSING)}
    except Exception as exc:      # pylint: disable=broad-except
        res.extra['line_coverage_detail'] = {'error': repr(exc)[:200]}


def _run(res, tier, seed, proofs_ok):
    rng = random.Random(seed)
    quick = tier == 'quick'
    res.rule = ('abstract cell tables (1-6 cells, trees of 1-40 leaves, arity '
                '0-5, <= 8 surfaces, collection surfaces with 2-6 facets and '
                'facet references, both signs of one surface in one '
                'intersection, nested same-operator nodes, unions with and '
                'without a pure-intersection member, references incl. to '
                'empty cells, random merges of surface ids incl. the helper '
                'planes) + a malformed stream (missing cells/surfaces, facets '
                'out of range, facet 0, incomplete renumbering) + partitions; '
                'generated decks with unions, #( ), #n, universes/FILL; '
                'non-trivial = at least 3 tree nodes; distinct by whole case')

    # ---- 1. known-finding witnesses and corpus ----
    D.run_witnesses(res, random.Random(seed + 1))

    # ---- 2/3. pipeline tie + oracle ----
    n_valid = 500 if quick else 3000
    n_bad = 150 if quick else 1500
    n_part = 200 if quick else 2000
    cases = [G.gen_case(rng) for _ in range(n_valid)]
    run_pipeline_stream(res, rng, cases, 'valid')
    cases = [G.gen_case(rng, malformed=True) for _ in range(n_bad)]
    run_pipeline_stream(res, rng, cases, 'malformed')
    cases = [G.gen_case(rng, partition=True) for _ in range(n_part)]
    run_pipeline_stream(res, rng, cases, 'partition')
    if not quick:
        run_exhaustive(res, rng)

    # ---- deck level: tie on captured data + sweep at points ----
    D.run_decks(res, rng, 60 if quick else 400)


def run_exhaustive(res, rng):
    '''Every tree over 2 surfaces (4 literals) with <= 3 internal nodes of
    arity <= 2 and with <= 2 internal nodes of arity <= 3; 5 000 random trees
    with exactly 4 internal nodes (the full set has > 4e5 members for arity 2).'''
    from collections import OrderedDict
    trees = []
    for n in range(0, 4):
        trees += G.all_trees(n, max_arity=2)
    for n in range(1, 3):
        trees += [t for t in G.all_trees(n, max_arity=3)
                  if any(len(k[1]) == 3 for k in walk(t))]
    res.count('exhaustive:enumerated', len(trees))
    trees += [G.random_tree_n(rng, 4) for _ in range(5000)]
    cases = []
    for tree in trees:
        cells = OrderedDict()
        cells[1] = {'geom': tree, 'orig': [], 'imp': 1}
        cases.append({'cells': cells, 'order': [1],
                      'matching': OrderedDict([(1, [1]), (2, [-2])]),
                      'u0': 4, 'u1': 5, 'cnt0': 2, 'rn': None,
                      'skipped': [], 'partition': False})
    res.count('exhaustive:trees', len(cases))
    run_pipeline_stream(res, rng, cases, 'exhaustive', chunk=400)


def walk(tree):
    if tree[0] in '*:':
        yield tree
        for kid in tree[1]:
            yield from walk(kid)


def replay(path):
    data = json.load(open(path))
    inp = data.get('input', {})
    if 'case' in inp:
        case = case_from_json(inp['case'])
        obs, _, text = G.run_impl(case, random.Random(0))
        print('implementation:', obs)
        if text:
            print(text)
        sent = dict(case)
        sent['rn'] = G.effective_rn(case, obs)
        model, out = common.coq_eval(HEADER, 'run_case ' + G.coq_case(sent, obs))
        print('model:', model if model else out[-1500:])
        if obs[0] == 'ok':
            table = obs[6] if obs[6] is not None else obs[5]
            print('oracle:', G.oracle(case, table, random.Random(0)) or 'ok')
    elif 'deck' in inp:
        D.replay_deck(inp)
    print('recorded:', data.get('what'))
    return 0
