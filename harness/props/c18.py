'''C18 — conversion is deterministic and leaves no state between runs.

PARTIAL by nature: the theorems (coq/Properties/C18.v) are about a
state-threaded model of the run and about the audit decision; the facts that
only the runtime can show (CPython's iteration order of int sets, no hidden
module state, input untouched) are TESTED here, not proved.

Obligations discharged on every run:
  audit   : harness/c18_audit.py translates the Python `ast` of every source
            file under <repo>/t4_geom_convert and <repo>/MIP into
            coq/generated/Footprint.v; coqc proves
            ``audit_ok allow footprint = true`` by vm_compute (decision
            functions C18/Audit.v, allow-list C18/Allow.v) and instantiates
            the soundness theorems of C18/AuditProofs.v on it.
  tie     : the id-level model of the volume stage (C18/Model.v, executed by
            vm_compute) against the file written by the real converter, for
            decks converted in a WARM process after other conversions.
  sweep   : (independent oracle = the property itself) every deck — the 129
            upstream integration decks with their flags + generated decks +
            broken decks — converted in fresh subprocesses under several
            PYTHONHASHSEED values and in warm processes after 1-5 other
            conversions (failing ones included, same input path reused);
            sha256 of the written file without the command-line header line
            must agree; input bytes and mtime unchanged; no stray files.'''
import hashlib
import json
import os
import random
import shutil
import subprocess
import sys
import tempfile
from concurrent.futures import ThreadPoolExecutor
from pathlib import Path

import common
import c18_audit
import c18_gen
import c18_tie
import c18_cover
import impl
from common import cstr, cbool, clist, cpair

THEOREMS = ['C18_run_fresh_state', 'C18_history_independent',
            'C18_shared_state_would_leak', 'C18_output_order_irrelevant',
            'C18_deterministic_model', 'C18_full_run_fresh_state',
            'C18_full_history_independent',
            'C18_full_deterministic_model', 'C18_upstream_state_relevant',
            'C18_stage_history_independent',
            'C18_leaky_stage_depends_on_history', 'C18_stage_shapes_linked',
            'C18_history_independent_linked',
            'C18_chained_pipeline_history_independent_linked',
            'C18_chained_pipeline_shapes_linked',
            'C18_volume_text_order_irrelevant',
            'C18_remove_keys_order_irrelevant',
            'C18_sorted_depends_on_set_only',
            'C18_numbering_order_sensitive_partial',
            'C18_audit_globals_readonly', 'C18_audit_ord_only_ints',
            'C18_audit_effects_allowlisted', 'C18_audit_ambient_allowlisted',
            'C18_audit_fail_closed']
TRUSTED = [
    'hand-written models coq/C18/Model.v and coq/C18/Upstream.v (modelled, '
    'tied by execution only); the other owners\' models imported read-only '
    'in LinkStages.v / ChainStages.v are tied by their owners',
    'the translator harness/c18_audit.py (Python ast -> Footprint.v): '
    'syntactic, name-based, fail-closed; its classification of a construct '
    'is trusted, the decision over the classified footprint is proved',
    'the allow-list coq/C18/Allow.v: each reason is a human judgement',
    'RUNTIME FACTS TESTED, NOT PROVED (notes/C18.md section 5): '
    '(1) CPython iterates a set of ints in an order that does not depend on '
    'the hash seed, the process or earlier runs (it is NOT ascending); '
    '(2) same bytes in fresh processes under every hash seed tried; '
    '(3) same bytes after every tried history in one interpreter; '
    '(4) no dependence on the working directory or on the environment '
    'variables tried, no environment variable read by the converter; '
    '(5) no module-/class-level state of the converter\'s modules changes '
    'during a conversion (third-party modules not inspected); '
    '(6) the input file is not written and no stray file is left; '
    '(7) stages C18 does not model itself are covered by (2)-(6) only',
    'harness: generators, worker processes, observation hooks, PEG shim '
    'replacing TatSu',
]
ASSUMPTIONS = [
    'fresh process = a new CPython 3.12 interpreter with the PEG shim '
    'installed (the repository\'s TatSu grammar object is not exercised); '
    'most fresh runs are forked from a per-seed zygote that imported the '
    'converter but never converted, a sample is cold-started',
    'the output is compared after removing the header line that echoes the '
    'command line (as the property text allows)',
    '--cache is exercised only with a private directory per run, except in '
    'the witness of the known finding cache_option_stale_disk_cache',
    'set_preserving order: the iteration order handed to the model delivers '
    'exactly the elements of the set (hypothesis of the order theorems)',
]

HERE = Path(__file__).resolve().parent.parent
WORKER = HERE / 'c18_worker.py'
AUDIT_HEADER = ('From Coq Require Import List Bool String Ascii.\n'
                'From T4V Require Import C18.Audit C18.AuditProofs C18.Allow.\n'
                'Import ListNotations.\nOpen Scope string_scope.\n')


# ---------------------------------------------------------------------------
# (b) effect-footprint audit
# ---------------------------------------------------------------------------

def coq_entry(ent):
    return (f'mkEntry {cstr(ent["file"])} {cstr(ent["func"])} '
            f'{cstr(ent["text"])} {cbool(ent["live"])} ({ent["c"]})')


def footprint_source(entries):
    body = '\n  ; '.join(coq_entry(e) for e in entries)
    return (
        '(* GENERATED on every run by harness/props/c18.py from the Python ast '
        'of the sources — do not edit. *)\n' + AUDIT_HEADER +
        f'Definition footprint : list entry :=\n  [ {body} ].\n\n'
        '(* the obligation, evaluated by the kernel\'s VM on every run *)\n'
        'Theorem footprint_ok : audit_ok allow footprint = true.\n'
        'Proof. vm_compute. reflexivity. Qed.\n\n'
        '(* what it means, by the soundness theorems of C18/AuditProofs.v *)\n'
        'Theorem footprint_globals_readonly : forall e v, In e footprint -> '
        'e_live e = true ->\n  is_global_binding e = Some v -> v = VImmutable '
        '\\/ Allowed allow e.\n'
        'Proof. exact (audit_globals_readonly allow footprint footprint_ok). '
        'Qed.\n'
        'Theorem footprint_ord_only_ints : forall e k, In e footprint -> '
        'e_live e = true ->\n  is_set_loop e = Some (k, SinkOrdered) -> '
        'k = KInt \\/ Allowed allow e.\n'
        'Proof. exact (audit_ord_only_ints allow footprint footprint_ok). '
        'Qed.\n'
        'Theorem footprint_effects_allowlisted : forall e, In e footprint -> '
        'e_live e = true ->\n  is_store e = true \\/ is_write e = true \\/ '
        'is_unknown e = true -> Allowed allow e.\n'
        'Proof. exact (audit_effects_allowlisted allow footprint '
        'footprint_ok). Qed.\n'
        'Theorem footprint_ambient_allowlisted : forall e, In e footprint -> '
        'e_live e = true ->\n  is_ambient e = true -> Allowed allow e.\n'
        'Proof. exact (audit_ambient_allowlisted allow footprint '
        'footprint_ok). Qed.\n'
        'Print Assumptions footprint_ok.\n'
        'Print Assumptions footprint_ord_only_ints.\n')


def offenders_source(entries):
    body = '\n  ; '.join(coq_entry(e) for e in entries)
    return (AUDIT_HEADER +
            f'Definition footprint : list entry :=\n  [ {body} ].\n'
            'Eval vm_compute in (map (fun e => (e_file e, e_func e, e_text e)) '
            '(offenders allow footprint)).\n'
            'Eval vm_compute in (map (fun a => (a_file a, a_func a, a_text a)) '
            '(stale allow footprint)).\n')


def python_entry_ok(ent, allow_keys):
    '''Harness-side mirror of Audit.entry_ok, used ONLY to name the offending
    entries in the report when the Coq obligation fails.'''
    if not ent['live']:
        return True
    c = ent['c']
    if c in ('CBinding ScModule VImmutable', 'CBinding ScClass VImmutable',
             'CMutDefault VImmutable', 'COpen WRead'):
        return True
    if c.startswith('CSetLoop'):
        _, kind, sink = c.split()
        if sink == 'SinkInsensitive' or kind == 'KInt':
            return True
    return (ent['file'], ent['func'], ent['text']) in allow_keys \
        or (ent['file'], '*', ent['text']) in allow_keys


def run_audit(res):
    entries, info = c18_audit.audit(common.REPO)
    common.GEN.mkdir(exist_ok=True)
    path = common.GEN / 'Footprint.v'
    path.write_text(footprint_source(entries))
    rc, out = common.sh(['coqc'] + common.COQ_FLAGS + [str(path)], 600,
                        cwd=common.GEN)
    closed = out.count('Closed under the global context') == 2
    ok = rc == 0 and closed
    live = [e for e in entries if e['live']]
    res.extra['audit'] = {
        'entries': len(entries), 'live_entries': len(live),
        'files': info['files'], 'live_files': info['live_files'],
        'by_construct': _histogram(e['c'].split()[0] for e in live),
        'set_valued_functions': info['set_funcs'],
        'set_valued_attributes': info['set_attrs'],
        'stores_rooted_at_locals_or_self': info['local_store_counts'],
    }
    detail = '' if ok else out[-1200:]
    res.obligation(f'audit: audit_ok allow footprint = true by vm_compute '
                   f'({len(entries)} entries, {len(live)} live, '
                   f'{info["files"]} files; coq/generated/Footprint.v)', ok,
                   detail)
    for ext in ('.vo', '.vok', '.vos', '.glob'):
        q = path.with_suffix(ext)
        if q.exists():
            q.unlink()
    aux = path.parent / '.Footprint.aux'
    if aux.exists():
        aux.unlink()
    if ok:
        # stale allow-list items: a note only
        return entries
    # name the offenders (evaluated in Coq; falls back to listing nothing)
    opath = common.GEN / 'FootprintOffenders.v'
    opath.write_text(offenders_source(entries))
    rc2, out2 = common.sh(['coqc'] + common.COQ_FLAGS + [str(opath)], 600,
                          cwd=common.GEN)
    for ext in ('.v', '.vo', '.vok', '.vos', '.glob'):
        q = opath.with_suffix(ext)
        if q.exists():
            q.unlink()
    aux = opath.parent / '.FootprintOffenders.aux'
    if aux.exists():
        aux.unlink()
    import re
    m = re.search(r'=\s*(\[.*?\])\s*:\s*list', out2, flags=re.S)
    listed = ' '.join(m.group(1).split()) if (rc2 == 0 and m) else \
        f'(could not evaluate offenders: {out2[-300:]})'
    res.violation(
        'proof-obligation',
        'effect-footprint obligation audit_ok allow footprint = true no '
        f'longer holds; offending constructs (file, function, text): {listed}',
        {'theorem_or_correspondence': 'audit: footprint_ok',
         'offenders': listed, 'coqc': out[-600:]},
        found_input=False)
    return entries


def _histogram(items):
    out = {}
    for item in items:
        out[item] = out.get(item, 0) + 1
    return out


# ---------------------------------------------------------------------------
# (c) runtime sweep
# ---------------------------------------------------------------------------

def run_worker(runs, hashseed, scratch, tag, fork_each=False, env_extra=None):
    jobs = scratch / f'jobs_{tag}.json'
    out = scratch / f'out_{tag}.json'
    jobs.write_text(json.dumps({'runs': runs, 'fork_each': fork_each}))
    env = dict(os.environ)
    env['PYTHONHASHSEED'] = str(hashseed)
    env['T4GC_REPO'] = str(common.REPO)
    env['PYTHONPATH'] = f'{common.REPO}:{HERE}'
    env['PYTHONDONTWRITEBYTECODE'] = '1'
    env['T4GC_SCRATCH'] = str(scratch)
    env.update(env_extra or {})
    try:
        proc = subprocess.run([sys.executable, str(WORKER), str(jobs),
                               str(out)], env=env, capture_output=True,
                              text=True, timeout=600)
    except subprocess.TimeoutExpired:
        return None, 'worker timeout'
    if proc.returncode != 0 or not out.exists():
        return None, (proc.stderr or proc.stdout)[-800:]
    data = json.loads(out.read_text())
    jobs.unlink()
    out.unlink()
    return data['results'], ''


def strip_job(job, want_text=False, slot=None, cwd=None):
    run = {'deck': job['deck'], 'args': job['args'],
           'encoding': job.get('encoding', 'utf-8')}
    if cwd is not None:
        run['cwd'] = cwd
    if want_text:
        run['want_text'] = True
    if slot is not None:
        run['slot'] = slot
    return run


def outcome(r):
    return (r['ok'], r['exc'], r['sha'])


ENV_READS = {}      # variable -> (first job that read it, where)
ENVIRONMENTS = [
    {},
    {'LC_ALL': 'C', 'LANG': 'C', 'TZ': 'Asia/Tokyo', 'HOME': '/nonexistent',
     'COLUMNS': '40', 'DEBUG': '1', 'VERBOSE': '1', 'T4_DEBUG': '1'},
    {'LC_ALL': 'C.UTF-8', 'LANG': 'en_US.UTF-8', 'TZ': 'America/Anchorage',
     'USER': 'nobody', 'PYTHONUTF8': '1', 'NO_COLOR': '1'},
]
CACHE_FILES = ['deck.mcnp.cache', 'deck.surfaces.cache', 'deck.volumes.cache']


def check_side_effects(res, job, r, where):
    '''Input untouched, no stray files. Returns True when clean.'''
    clean = True
    payload = {'input': {'deck': job['deck'], 'args': job['args'],
                         'encoding': job.get('encoding', 'utf-8'),
                         'where': where}}
    if not r['input_unchanged'] or not r['input_exists']:
        res.violation('impl-violation',
                      f'the input file was modified by the conversion '
                      f'({where}; args {job["args"]})', payload,
                      found_input=True)
        clean = False
    elif not r['input_mtime_unchanged']:
        res.violation('impl-violation',
                      'the input file was rewritten (same bytes, new '
                      f'modification time) by the conversion ({where})',
                      payload, found_input=True)
        clean = False
    if r.get('module_changes'):
        payload['observed'] = r['module_changes']
        res.violation('impl-violation',
                      'the conversion changed module-level / class-level '
                      f'state of the converter: {r["module_changes"][:6]} '
                      f'({where}; deck {job["tags"]})', payload,
                      found_input=True)
        clean = False
    for item in r.get('env_reads', []):
        ENV_READS.setdefault(item.split(' ')[0], (job, item))
    extra = [f for f in r['new_files']
             if not ('--cache' in job['args'] and f.startswith('deck.')
                     and f.endswith('.cache'))]
    if extra:
        payload['observed'] = r['new_files']
        res.violation('impl-violation',
                      f'the conversion left files behind: {extra} ({where})',
                      payload, found_input=True)
        clean = False
    return clean


def sweep(res, tier, seed, rng):
    scratch = Path(tempfile.mkdtemp(prefix='c18_', dir=os.environ.get(
        'T4GC_SCRATCH', tempfile.gettempdir())))
    try:
        return _sweep(res, tier, seed, rng, scratch)
    finally:
        shutil.rmtree(scratch, ignore_errors=True)


def cache_witness(res, scratch):
    '''Known finding: --cache keeps pickles beside the input and never checks
    that they belong to the deck being converted.'''
    deck_a = ('deck A\n1 0 -1 imp:n=1\n2 0 1 imp:n=0\n\n1 so 5\n\n')
    deck_b = ('deck B\n1 0 -1 2 imp:n=1\n2 0 1 imp:n=0\n3 0 -2 -1 imp:n=1\n\n'
              '1 so 7\n2 px 1\n\n')
    job_a = {'deck': deck_a, 'args': ['--cache']}
    job_b = {'deck': deck_b, 'args': ['--cache']}
    fresh, err = run_worker([strip_job(job_b)], 0, scratch, 'cw0')
    warm, err2 = run_worker([strip_job(job_a, slot='s'),
                             strip_job(job_a, slot='s'),
                             strip_job(job_b, slot='s')], 0, scratch, 'cw1')
    if fresh is None or warm is None:
        res.obligation('sweep: --cache witness ran', False, err + err2)
        return
    res.seen(('cache-witness',), nontrivial=True)
    if outcome(warm[0]) != outcome(warm[1]):
        res.violation('impl-violation',
                      'the same deck converted twice with --cache at the same '
                      'path gives different files',
                      {'input': {'history': [job_a], 'deck': deck_a,
                                 'args': ['--cache'], 'same_path': True}},
                      found_input=True)
    if outcome(warm[2]) != outcome(fresh[0]):
        res.violation(
            'impl-violation',
            'deck B converted with --cache after deck A was converted with '
            '--cache at the same path: the written file is deck A\'s geometry '
            '(stale <input>.volumes.cache / .mcnp.cache are read back without '
            'any check), not what a fresh conversion of B gives',
            {'input': {'history': [job_a], 'deck': deck_b,
                       'args': ['--cache'], 'same_path': True},
             'expected_sha': fresh[0]['sha'], 'observed_sha': warm[2]['sha']},
            cls='cache_option_stale_disk_cache', found_input=True)


def env_followup(res, fresh_res, hashseeds, jobs, scratch):
    '''Every environment variable the converter's own code looked up during
    the sweep (recorded by the worker's os.environ proxy) is varied on the
    deck that read it: set to "1", set to "", unset.'''
    res.extra['sweep']['environment_variables_read_by_the_converter'] = \
        sorted(ENV_READS)
    for var, (job, where) in sorted(ENV_READS.items())[:8]:
        outs = []
        for n, value in enumerate(['1', '', None]):
            env_extra = {} if value is None else {var: value}
            runs = [strip_job(job)]
            saved = os.environ.pop(var, None) if value is None else None
            try:
                out, err = run_worker(runs, 0, scratch, f'e{var}_{n}',
                                      env_extra=env_extra)
            finally:
                if saved is not None:
                    os.environ[var] = saved
            outs.append(None if out is None else outcome(out[0]))
        res.count('env-followup')
        if len({o for o in outs if o is not None}) > 1:
            res.violation(
                'impl-violation',
                f'output depends on the environment variable {var} (read at '
                f'{where}): set to "1" / "" / unset gives {outs} (deck '
                f'{job["tags"]}, args {job["args"]})',
                {'input': {'deck': job['deck'], 'args': job['args'],
                           'encoding': job.get('encoding', 'utf-8'),
                           'envs': [{var: '1'}, {var: ''}, {}]}},
                found_input=True)


def same_path_pairs(res, quick, rng, jobs, fresh_res, hashseeds, scratch):
    '''Same process, same input path: convert A, then B (another deck,
    possibly other options, possibly failing), then A again.  B must come out
    as in a fresh process, and so must the second A.'''
    good = [k for k in range(len(jobs)) if (k, hashseeds[0]) in fresh_res
            and '--cache' not in jobs[k]['args']]
    n_pairs = 16 if quick else 150
    pairs = [(n, rng.choice(good), rng.choice(good)) for n in range(n_pairs)]

    def one(item):
        n, a, b = item
        out, err = run_worker([strip_job(jobs[a], slot='p'),
                               strip_job(jobs[b], slot='p'),
                               strip_job(jobs[a], slot='p')],
                              hashseeds[n % len(hashseeds)], scratch, f'p{n}')
        return item, out, err

    errors = []
    with ThreadPoolExecutor(max_workers=12) as pool:
        for (n, a, b), out, err in pool.map(one, pairs):
            if out is None:
                errors.append(f'pair {n}: {err[-300:]}')
                continue
            res.count('same-path-pair')
            for pos, k in enumerate((a, b, a)):
                ref = fresh_res[(k, hashseeds[0])]
                check_side_effects(res, jobs[k], out[pos],
                                   f'same-path sequence A,B,A position {pos}')
                if outcome(out[pos]) != outcome(ref):
                    hist = [{'deck': jobs[j]['deck'], 'args': jobs[j]['args'],
                             'encoding': jobs[j].get('encoding', 'utf-8')}
                            for j in (a, b, a)[:pos]]
                    res.violation(
                        'impl-violation',
                        'same process, same input path: deck '
                        f'{jobs[k]["tags"]} (args {jobs[k]["args"]}) '
                        f'converted at position {pos} of the sequence A,B,A '
                        f'gives {outcome(out[pos])}, a fresh process gives '
                        f'{outcome(ref)} (A = {jobs[a]["tags"]}, B = '
                        f'{jobs[b]["tags"]})',
                        {'input': {'history': hist, 'deck': jobs[k]['deck'],
                                   'args': jobs[k]['args'],
                                   'encoding': jobs[k].get('encoding',
                                                           'utf-8'),
                                   'same_path': True}}, found_input=True)
    res.obligation(f'sweep: {len(pairs)} same-path sequences A,B,A in one '
                   'process ran', not errors, '; '.join(errors[:3]))


def _sweep(res, tier, seed, rng, scratch):
    quick = tier == 'quick'
    corpus = c18_gen.corpus_jobs(common.REPO)
    n_gen = 50 if quick else 600
    n_broken = 10 if quick else 80
    generated = [c18_gen.gen_deck(rng) for _ in range(n_gen)]
    broken = [c18_gen.break_deck(rng, rng.choice(generated))
              for _ in range(n_broken)]
    regression = c18_gen.regression_jobs()
    jobs = regression + corpus + generated + broken
    hashseeds = [0, 1, 4242] if quick else \
        [0, 1, 2, 3, 17, 4242, 65537, 4294967295]
    hashseeds[-1] = rng.randrange(4294967296)
    res.extra['sweep'] = {'corpus_decks': len(corpus),
                          'generated_decks': len(generated),
                          'broken_decks': len(broken),
                          'hash_seeds': hashseeds}

    # ---- fresh processes: one per (deck, hash seed) ----
    # forked from a per-seed zygote that has imported the converter but never
    # converted anything; a sample is also run in cold-started interpreters
    n_chunks = 4
    chunks = [(c, hs, list(range(c, len(jobs), n_chunks)))
              for hs in hashseeds for c in range(n_chunks)]

    # the working directory varies with the seed as well: worker's own cwd
    # (absolute names), the deck's directory (relative names), an unrelated
    # empty directory (absolute names; it must stay empty)
    cwd_of = {hs: [None, 'deckdir', 'elsewhere'][i % 3]
              for i, hs in enumerate(hashseeds)}
    res.extra['sweep']['cwd_by_hash_seed'] = {str(k): str(v)
                                              for k, v in cwd_of.items()}

    # ... and so does the environment (locale, time zone, HOME, a few
    # "debug"-like variables)
    env_of = {hs: ENVIRONMENTS[i % len(ENVIRONMENTS)]
              for i, hs in enumerate(hashseeds)}
    res.extra['sweep']['environment_by_hash_seed'] = {
        str(k): v for k, v in env_of.items()}
    ENV_READS.clear()

    def fresh(item):
        c, hs, ks = item
        out, err = run_worker([strip_job(jobs[k], want_text=(hs == 0),
                                         cwd=cwd_of[hs])
                               for k in ks], hs, scratch, f'f{c}_{hs}',
                              fork_each=True, env_extra=env_of[hs])
        return ks, hs, out, err

    fresh_res = {}
    worker_errors = []
    with ThreadPoolExecutor(max_workers=12) as pool:
        for ks, hs, out, err in pool.map(fresh, chunks):
            if out is None:
                worker_errors.append(f'seed {hs}: {err[-300:]}')
                continue
            for k, r in zip(ks, out):
                if 'worker_error' in r:
                    worker_errors.append(f'job {k} seed {hs}: '
                                         f'{r["worker_error"]}')
                else:
                    fresh_res[(k, hs)] = r
    # extra hash seeds for the decks whose output is keyed by strings in
    # several places (regression decks, both kinds of boundary condition):
    # an order that depends on the seed flips only for some seeds
    n_extra = 12 if quick else 24
    extra_seeds = [rng.randrange(4294967296) for _ in range(n_extra)]
    subset = [k for k, job in enumerate(jobs)
              if job['tags'][0] == 'regression' or 'bc-both' in job['tags']]
    subset = subset[:24 if quick else 120]
    res.extra['sweep']['extra_hash_seeds'] = extra_seeds
    res.extra['sweep']['decks_under_extra_seeds'] = len(subset)

    def fresh_extra(hs):
        out, err = run_worker([strip_job(jobs[k]) for k in subset], hs,
                              scratch, f'x{hs}', fork_each=True)
        return hs, out, err

    with ThreadPoolExecutor(max_workers=12) as pool:
        for hs, out, err in pool.map(fresh_extra, extra_seeds):
            if out is None:
                worker_errors.append(f'extra seed {hs}: {err[-300:]}')
                continue
            for k, r in zip(subset, out):
                ref = fresh_res.get((k, hashseeds[0]))
                if ref is None or 'worker_error' in r:
                    continue
                res.count('fresh:extra-seed')
                if outcome(r) != outcome(ref):
                    res.violation(
                        'impl-violation',
                        f'output depends on the hash seed: PYTHONHASHSEED='
                        f'{hashseeds[0]} gives {outcome(ref)}, PYTHONHASHSEED='
                        f'{hs} gives {outcome(r)} (deck {jobs[k]["tags"]}, '
                        f'args {jobs[k]["args"]})',
                        {'input': {'deck': jobs[k]['deck'],
                                   'args': jobs[k]['args'],
                                   'encoding': jobs[k].get('encoding',
                                                           'utf-8'),
                                   'hashseeds': [hashseeds[0], hs]}},
                        found_input=True)
    n_fresh = len(fresh_res)
    res.obligation(f'sweep: {n_fresh} fresh-process conversions ran '
                   f'({len(jobs)} decks x {len(hashseeds)} hash seeds, forked '
                   'from a zygote that never converted)',
                   not worker_errors, '; '.join(worker_errors[:3]))
    # cold-started interpreters for a sample: must agree with the forked ones
    n_cold = 12 if quick else 120
    cold_items = [(n, rng.randrange(len(jobs)), rng.choice(hashseeds))
                  for n in range(n_cold)]

    def cold(item):
        n, k, hs = item
        out, err = run_worker([strip_job(jobs[k])], hs, scratch,
                              f'c{n}_{k}_{hs}')
        return k, hs, out, err

    cold_errors = []
    with ThreadPoolExecutor(max_workers=8) as pool:
        for k, hs, out, err in pool.map(cold, cold_items):
            if out is None:
                cold_errors.append(f'job {k} seed {hs}: {err[-300:]}')
                continue
            ref = fresh_res.get((k, hashseeds[0]))
            if ref is not None and outcome(out[0]) != outcome(ref):
                res.violation(
                    'impl-violation',
                    f'cold-started interpreter (PYTHONHASHSEED={hs}) gives '
                    f'{outcome(out[0])}, reference {outcome(ref)} (deck '
                    f'{jobs[k]["tags"]}, args {jobs[k]["args"]})',
                    {'input': {'deck': jobs[k]['deck'],
                               'args': jobs[k]['args'],
                               'encoding': jobs[k].get('encoding', 'utf-8'),
                               'hashseeds': [hashseeds[0], hs]}},
                    found_input=True)
    res.obligation(f'sweep: {len(cold_items)} cold-start conversions ran',
                   not cold_errors, '; '.join(cold_errors[:3]))
    n_ok = 0
    for k, job in enumerate(jobs):
        ref = fresh_res.get((k, hashseeds[0]))
        if ref is None:
            continue
        n_ok += bool(ref['ok'])
        res.seen((job['deck'], job['args']), nontrivial=bool(ref['ok']))
        for tag in job['tags'][:1]:
            res.count('deck:' + tag)
        res.count('fresh:' + ('ok' if ref['ok'] else str(ref['exc'])))
        check_side_effects(res, job, ref, f'fresh process, hash seed '
                           f'{hashseeds[0]}')
        for hs in hashseeds[1:]:
            other = fresh_res.get((k, hs))
            if other is None:
                continue
            check_side_effects(res, job, other,
                               f'fresh process, hash seed {hs}')
            if outcome(other) != outcome(ref):
                res.violation(
                    'impl-violation',
                    f'output depends on the hash seed, the working directory '
                    f'or the environment: PYTHONHASHSEED={hashseeds[0]} (cwd: '
                    f'worker) gives {outcome(ref)}, PYTHONHASHSEED={hs} (cwd: '
                    f'{cwd_of[hs]}, env + {sorted(env_of[hs])}) gives '
                    f'{outcome(other)} (deck '
                    f'{job["tags"]}, args {job["args"]})',
                    {'input': {'deck': job['deck'], 'args': job['args'],
                               'encoding': job.get('encoding', 'utf-8'),
                               'hashseeds': [hashseeds[0], hs],
                               'cwds': [None, cwd_of[hs]],
                               'envs': [{}, env_of[hs]]}},
                    found_input=True)
    res.extra['sweep']['converted_ok'] = n_ok

    # ---- warm processes: histories of 1-5 other conversions ----
    n_hist = 20 if quick else 200
    histories = []
    good = [k for k in range(len(jobs))
            if (k, hashseeds[0]) in fresh_res]
    for h in range(n_hist):
        length = rng.randint(2, 6)
        ks = [rng.choice(good) for _ in range(length)]
        if rng.random() < 0.5:
            ks.append(ks[rng.randrange(len(ks))])     # same deck again
        if rng.random() < 0.7 and broken:
            ks.insert(rng.randrange(len(ks)),
                      len(jobs) - 1 - rng.randrange(len(broken)))
        shared = rng.random() < 0.5
        hs = rng.choice(hashseeds)
        cwds = [rng.choice([None, None, 'deckdir', 'elsewhere']) for _ in ks]
        histories.append((h, ks, shared, hs, cwds))

    def warm(item):
        h, ks, shared, hs, cwds = item
        runs = []
        for k, cwd in zip(ks, cwds):
            slot = 'shared' if (shared and '--cache' not in jobs[k]['args']) \
                else None
            runs.append(strip_job(jobs[k], slot=slot, cwd=cwd))
        out, err = run_worker(runs, hs, scratch, f'w{h}')
        return item, out, err

    n_warm = 0
    werrors = []
    with ThreadPoolExecutor(max_workers=16) as pool:
        for (h, ks, shared, hs, cwds), out, err in pool.map(warm, histories):
            if out is None:
                werrors.append(f'history {h}: {err[-300:]}')
                continue
            for pos, (k, r) in enumerate(zip(ks, out)):
                ref = fresh_res[(k, hashseeds[0])]
                job = jobs[k]
                n_warm += 1
                res.count(f'warm:position{min(pos, 6)}')
                where = (f'warm process, hash seed {hs}, after {pos} other '
                         f'conversions, shared input path={shared}, cwd='
                         f'{cwds[pos]}')
                check_side_effects(res, job, r, where)
                if outcome(r) != outcome(ref):
                    hist = [{'deck': jobs[j]['deck'], 'args': jobs[j]['args'],
                             'encoding': jobs[j].get('encoding', 'utf-8')}
                            for j in ks[:pos]]
                    res.violation(
                        'impl-violation',
                        f'output depends on earlier conversions in the same '
                        f'process: fresh {outcome(ref)}, after {pos} other '
                        f'conversions {outcome(r)} (deck {job["tags"]}, args '
                        f'{job["args"]}, shared path={shared}, cwd='
                        f'{cwds[pos]})',
                        {'input': {'history': hist, 'deck': job['deck'],
                                   'args': job['args'],
                                   'encoding': job.get('encoding', 'utf-8'),
                                   'same_path': shared, 'hashseed': hs,
                                   'cwds': cwds[:pos + 1]}},
                        found_input=True)
    res.obligation(f'sweep: {n_warm} warm-process conversions in '
                   f'{len(histories)} histories ran', not werrors,
                   '; '.join(werrors[:3]))
    same_path_pairs(res, quick, rng, jobs, fresh_res, hashseeds, scratch)
    env_followup(res, fresh_res, hashseeds, jobs, scratch)
    cache_witness(res, scratch)
    return jobs, fresh_res, hashseeds


# ---------------------------------------------------------------------------
# (a) tie of the state-threaded model, on conversions done in THIS (warm)
#     interpreter one after the other
# ---------------------------------------------------------------------------

TIE_HEADER = ('From Coq Require Import List ZArith Bool.\n'
              'From T4V Require Import C18.Model C18.Upstream C18.Exec.\n'
              'Import ListNotations.\nOpen Scope Z_scope.\n')
STAGE_ERRORS = ('CellConversionError', 'KeyError')


def observe(job):
    '''Convert in-process with the observation hooks. Returns
    (ConvResult, capture, expected) where expected is the Coq term of the
    observed output, 'None' when the implementation raised inside the modelled
    stage, or None when the case is outside the model.'''
    cap = c18_tie.Capture()
    with c18_tie.hooks(cap):
        conv = impl.convert(job['deck'], job['args'],
                            encoding=job.get('encoding', 'utf-8'),
                            keep_stdout=False)
    if cap.items is None or cap.key0 is None or cap.unsupported \
            or cap.n_number_items != 1 or '--cache' in job['args']:
        return conv, cap, None
    if conv.ok:
        try:
            surfs, volumes = c18_tie.parse_written(conv.text)
        except ValueError:
            return conv, cap, None
        return conv, cap, f'(Some {c18_tie.coq_output(surfs, volumes)})'
    if conv.exc in STAGE_ERRORS and (conv.text is None
                                     or 'ENDG' not in conv.text):
        if cap.skipped is None:
            cap.skipped = []
        return conv, cap, 'None'
    return conv, cap, None


def model_tie(res, tier, rng, jobs, fresh_res, hashseeds):
    quick = tier == 'quick'
    limit = 120 if quick else 1500
    n_reg = sum(1 for j in jobs if j['tags'][0] == 'regression')
    order = list(range(n_reg, len(jobs)))
    rng.shuffle(order)
    order = list(range(n_reg)) + order
    histories, current = [], []
    n_cases = n_in = n_warm_mismatch = 0
    size_budget = 0
    try:
        cover = c18_cover.Coverage()
    except Exception:       # pylint: disable=broad-except
        cover = None
    for k in order:
        if n_cases >= limit:
            break
        job = jobs[k]
        if job['tags'][0] == 'regression' and cover is not None:
            with cover:
                conv, cap, expected = observe(job)
        else:
            conv, cap, expected = observe(job)
        # warm (this interpreter, after all the earlier conversions) vs fresh
        ref = fresh_res.get((k, hashseeds[0]))
        if ref is not None:
            import c18_worker
            sha = None if conv.text is None else c18_worker.digest(
                c18_worker.strip_cmdline(conv.text))
            if (conv.ok, conv.exc, sha) != outcome(ref):
                n_warm_mismatch += 1
                res.violation(
                    'impl-violation',
                    'conversion in the harness interpreter (warm, after '
                    f'{n_in} other conversions) gives {(conv.ok, conv.exc, sha)}'
                    f', a fresh process gives {outcome(ref)} (deck '
                    f'{job["tags"]}, args {job["args"]})',
                    {'input': {'deck': job['deck'], 'args': job['args'],
                               'encoding': job.get('encoding', 'utf-8')}},
                    found_input=True)
        n_in += 1
        order_seen = cap.tr_order()
        if order_seen and len(order_seen) >= 2:
            res.count('tr-surf-set-order:' + (
                'ascending' if order_seen == sorted(order_seen)
                else 'NOT-ascending'))
            if len(order_seen) > 5:
                res.count('tr-surf-set:more-than-5-ids (table resized)')
        if expected is None:
            res.count('tie:outside-model')
            continue
        size = sum(c18_tie.gtree_size(t) for _, t in cap.conv) \
            + sum(c18_tie.gtree_size(t) for t in cap.cells.values()) \
            + len(cap.items)
        if size > (400 if quick else 1500):
            res.count('tie:too-large')
            continue
        # the upstream phases (TRCL / lattice / FILL), when captured
        upstream = 'None'
        if cap.up is not None and not cap.up_unsupported \
                and expected != 'None':
            usize = c18_tie.upstream_size(cap.up)
            if usize <= (600 if quick else 2500):
                upstream = f'(Some {c18_tie.coq_uinput(cap.up)})'
                size += usize
                res.count('tie:with-upstream')
                for op in cap.up['ops']:
                    res.count('upstream-op:' + op[0])
            else:
                res.count('tie:upstream-too-large')
        else:
            res.count('tie:no-upstream')
        n_cases += 1
        res.count('tie:' + ('ok' if expected != 'None' else 'stage-error'))
        if cap.cells:
            res.count('tie:with-cellrefs')
        if any(len(sides) > 1 for _, sides in cap.items):
            res.count('tie:with-aux-surfaces')
        current.append((cpair(upstream, c18_tie.coq_input(cap), expected),
                        job))
        size_budget += size
        if len(current) >= 6 or size_budget > 1400:
            histories.append(current)
            current, size_budget = [], 0
    if current:
        histories.append(current)
    # line coverage of the modelled functions: information only, never fails
    try:
        total, missing, _stale = cover.report()
        res.obligation(f'coverage: every executable line of the '
                       f'{len(cover.targets)} modelled code objects ({total} '
                       'lines) is executed by a tied regression deck, except '
                       f'{len(c18_cover.UNREACHED)} listed unreachable lines',
                       not missing,
                       '; '.join(f'{f}: {t}' for f, t in missing[:6]))
        res.extra['coverage_missing'] = [list(m) for m in missing]
        res.extra['coverage_functions_not_present'] = list(c18_cover.MISSING)
    except Exception as exc:    # pylint: disable=broad-except
        res.extra['coverage_error'] = repr(exc)
    cases = [clist(c for c, _ in hist) for hist in histories]
    bad, errs = common.run_case_files(
        'c18_hist', TIE_HEADER,
        'list (option uinput * input * option output)',
        'check_full_history', cases, chunk=8)
    res.obligation(f'tie:history ({n_cases} conversions in {len(cases)} '
                   'histories: upstream model (pot_transform / cell_transform '
                   '/ apply_trcl / pot_fill counter: new_cell_key, '
                   'new_surf_key, cache, dic_surf_t4 order) = state observed '
                   'at number_items, and model conversion fed with it = '
                   'SURF/VOLU lines written by the implementation in a warm '
                   'interpreter)',
                   not bad and not errs,
                   f'{len(bad)} disagreements {errs[:1]}')
    if histories:
        res.sample({'tie_case_deck': histories[0][0][1]['deck'],
                    'args': histories[0][0][1]['args']})
    for idx in bad[:5]:
        hist = histories[idx]
        # which conversion of the history disagrees?
        culprit = None
        for pos, (case, job) in enumerate(hist):
            val, _ = common.coq_eval(TIE_HEADER, f'check_full {case}')
            if val is None or 'false' in val:
                culprit = (pos, job)
                if os.environ.get('C18_DEBUG'):
                    Path(os.environ['C18_DEBUG']).write_text(
                        json.dumps({'case': case, 'job': job}))
                break
        if culprit is None:
            what = ('the model agrees on every conversion of the history '
                    'taken alone but not on the history: state leaks in the '
                    'model or the implementation')
            job = hist[-1][1]
        else:
            what = (f'conversion {culprit[0]} of the history: model and '
                    'written file disagree')
            job = culprit[1]
        res.violation('correspondence',
                      f'tie:history disagreement ({what}); deck {job["tags"]} '
                      f'args {job["args"]}',
                      {'input': {'deck': job['deck'], 'args': job['args'],
                                 'encoding': job.get('encoding', 'utf-8')},
                       'theorem_or_correspondence': 'tie:history'},
                      found_input=False)


def run(res, tier, seed, proofs_ok):
    rng = random.Random(seed)
    res.rule = ('decks = the upstream integration decks with their '
                'converter-flags + generated decks (plain / TRCL with '
                '1000*cell+surf ids / FILL with transformations / lattices / '
                'LIKE n BUT / mixed; cones, macrobodies, facets, complements, '
                'several densities per material, every CLI option) + broken '
                'decks; each converted in a fresh process per hash seed and '
                'in warm processes after 1-5 other conversions; non-trivial = '
                'a deck that converts; distinct by (deck text, options)')
    run_audit(res)
    jobs, fresh_res, hashseeds = sweep(res, tier, seed, rng)
    model_tie(res, tier, rng, jobs, fresh_res, hashseeds)


def replay(path):
    data = json.load(open(path))
    inp = data.get('input')
    print('recorded:', data.get('what'))
    if not inp:
        print(json.dumps({k: v for k, v in data.items()
                          if k not in ('input',)}, indent=1)[:3000])
        return 0
    scratch = Path(tempfile.mkdtemp(prefix='c18r_'))
    try:
        job = {'deck': inp['deck'], 'args': inp.get('args', []),
               'encoding': inp.get('encoding', 'utf-8')}
        seeds = inp.get('hashseeds') or [inp.get('hashseed', 0)]
        cwds = inp.get('cwds') or [None] * len(seeds)
        envs = inp.get('envs') or [{}]
        seeds = list(seeds) + [seeds[-1]] * (len(envs) - len(seeds))
        for n, hs in enumerate(seeds):
            cwd = cwds[n] if n < len(cwds) else None
            env_extra = envs[n] if n < len(envs) else {}
            out, err = run_worker([strip_job(job, cwd=cwd)], hs, scratch,
                                  f'r{n}_{hs}', env_extra=env_extra)
            print(f'fresh process, PYTHONHASHSEED={hs}, cwd={cwd}, env + '
                  f'{env_extra}:', out[0] if out else err)
        if inp.get('history') is not None:
            slot = 'shared' if inp.get('same_path') else None
            runs = [strip_job(h, slot=slot) for h in inp['history']]
            runs.append(strip_job(job, slot=slot))
            out, err = run_worker(runs, seeds[0], scratch, 'rw')
            print(f'warm process after {len(runs) - 1} conversions:',
                  out[-1] if out else err)
    finally:
        shutil.rmtree(scratch, ignore_errors=True)
    return 0
