'''C13 — de-duplication and inlining options never change the geometry.

Theorems: coq/Properties/C13.v.  Ties (correspondence by execution):
  eq       : SurfaceT4.__eq__ on generated descriptor pairs  vs  Model.desc_eqb
             (+ on the implementation side: == symmetric, != its negation,
             equal objects hash alike and find each other in a dict)
  dedup    : remove_duplicate_surfaces on generated dictionaries
  renumber : renumber_surfaces with arbitrary renumberings (KeyError included)
  finish   : the real convertMCNPGeometry tail + writeT4Geometry on generated
             surface / volume tables (de-duplication on and off) vs Model.finish;
             also which option reaches construct_volume_t4 in which position
  size     : geometry_size / extract_subcells
  occ      : find_occurrences
  inline   : inline_cells with the implementation's own to_inline set captured
  score    : inline_cells(dic, max_inline_score) as a whole (score = float
             division, selection by <) vs Model.inline_cells_score at binary64
  fill     : the FILL loop (pot_fill) under the four inline flag combinations
Sweep with an independent oracle: generated decks (universes, fills with
transformations, lattices, unions, duplicate surfaces in several spellings)
converted under the option vectors; the written files are compared pairwise at
sample points (t4eval) and on sense assignments over surface descriptors:
same provenance comment and same composition for the owner of every point.'''
import json
import multiprocessing
import random

import common
import impl
import deck as deckmod
import c13_tie as tie
import c13_sweep as sweep
import c13_corpus
from common import cz, cbool, clist, cpair, cn

THEOREMS = [
    'C13_family_dedup',
    'C13_family_written',
    'C13_family_inline',
    'C13_family_fill',
    'C13_family_linked',
]
# the members of the families (coq/Properties/C13.v): each is a Theorem of its
# own there; one Print Assumptions per family audits them
MEMBERS = [
    'C13_dedup_merges_equal',
    'C13_dedup_merges_tested',
    'C13_desc_eqb_sound',
    'C13_hash_consistent',
    'C13_dedup_survivor_smallest',
    'C13_dedup_survivor_minimal',
    'C13_dedup_covers',
    'C13_dedup_idempotent',
    'C13_renumber_den',
    'C13_dedup_den',
    'C13_dedup_den_any_scalar',
    'C13_dedup_helpers_survive',
    'C13_dedup_writer_finds_surfaces',
    'C13_remove_empty_sound',
    'C13_finish_sound',
    'C13_written_same_dedup',
    'C13_vden_model',
    'C13_dedup_all_empty_refuted',
    'C13_inline_den',
    'C13_inline_score_den',
    'C13_find_occurrences_sound',
    'C13_find_occurrences_complete',
    'C13_find_occurrences_count',
    'C13_inline_complete',
    'C13_inline_model',
    'C13_inline_total',
    'C13_acyclic_unique_model',
    'C13_fill_geometry_den',
    'C13_cell_transform_den',
    'C13_fill_geometry_den_tr',
    'C13_pot_fill_tr_spec',
    'C13_fill_tr_two_runs',
    'C13_fill_flags_lockstep',
    'C13_options_same_geometry',
    'C13_merged_surfaces_equal_senses',
    'C13_options_same_written_linked',
    'C13_options_same_written_dedup_linked',
    'C13_options_same_written_provenance_linked',
    'C13_options_same_written_tr_linked',
    'C13_senv_of_ok',
    'C13_pot_fill_tr_inv',
    'C13_options_same_written_tr_env_linked',
    'C13_pot_fill_tr_acyclic',
    'C13_final_state_model',
    'C13_fill_tr_items',
    'C13_finish_is_c01_prune_linked',
]
TRUSTED = [
    'hand-written models coq/C13/Model.v and ModelTr.v (modelled, tied by '
    'execution: 13 ties incl. captured FILL loops of real conversions)',
    'Python dict lookup by hash then ==: modelled as "first stored key equal '
    'to the probe"; C13_hash_consistent proves the hash structure consistent '
    'with ==, the tie checks the structure and the element-hash law on the '
    'implementation; Python\'s tuple / float hash functions stay abstract',
    'binary64 == on finite numbers is PrimFloat.eqb; that eqb true implies '
    'equality of the represented reals is Flocq\'s Beqb correctness (cited, '
    'not imported); theorems are stated at R or for every scalar',
    'the conversion of cell trees into volumes and the VOLU lines: C01\'s '
    'model, linked in Coq (C13_*_linked: C01_partition applied through an '
    'embedding; C13_finish_is_c01_prune_linked: the two models of the tail of '
    'convertMCNPGeometry agree up to the representation of sets)',
    'TRIPOLI-4 reading of SURF/VOLU lines (DESIGN Appendix B) in t4eval and in '
    'the sense-assignment evaluator of harness/c13_sweep.py',
    'harness: generators, impl.T4File reader, PEG shim replacing TatSu',
]
ASSUMPTIONS = [
    'surface parameters are finite numbers (no NaN: Python compares tuple '
    'items by identity first)',
    'cell geometry at inlining time is never a bare CellRef (pot_fill always '
    'builds a (\'*\', ., .) node)',
    'with FILL/TRCL transformations (C13_options_same_written_tr_env_linked): '
    'the surface environment of each run is constructed from the senses of '
    'the deck\'s surfaces by the interface law (discharged: C13_senv_of_ok); '
    'a model D of the final cell table exists and is unique (discharged: '
    'C13_final_state_model); still assumed: the TRIPOLI-4 level reading of '
    'that environment at the point (C02/C04); the '
    'conversion lists are given; lattices (develop_lattice) are outside',
    'helper planes: sigma u0 -> sigma u1 (x > 1 implies x > -1) is a '
    'hypothesis of the volume-level theorems (C01_partition_points proves it '
    'for real points)',
]
HEADER = ('From Coq Require Import List NArith ZArith Bool PrimFloat.\n'
          'From T4V Require Import Base.Scalar C13.Model C13.ModelTr C13.Exec.\n'
          'Open Scope Z_scope.\n')

WITNESS_HELPER = '''helper plane merged with a user plane
1 1 -1.0 (2 -3):-1 imp:n=1
2 0 #1 imp:n=0

1 px 1
2 py 0
3 py 0

m1 1001 1.0
'''


# ---------------------------------------------------------------------------

WITNESS_EMPTY = '''whole geometry empty after de-duplication
1 1 -1.0 -1 2 imp:n=1
2 0 1:-2 imp:n=0

1 px 2
2 px 2

m1 1001 1.0
'''
# the tables of C13_dedup_all_empty_refuted (empty_surfs / empty_volus)
WITNESS_EMPTY_SURFS = [(1, ('PLANEX', (2.0,))), (2, ('PLANEX', (2.0,))),
                       (4, ('PLANEX', (1.0,))), (5, ('PLANEX', (-1.0,)))]
WITNESS_EMPTY_VOLS = [(4, ([2], [1], None, True)), (1, ([2], [1], None, False))]

# the tables of C13_dedup_helper_merge_refuted (coq/C13/ProofsDedup.v
# helper_surfs / helper_volus), as construct_volume_t4 returns them
WITNESS_SURFS = [(1, ('PLANEX', (1.0,))), (2, ('PLANEY', (0.0,))),
                 (3, ('PLANEY', (0.0,))), (5, ('PLANEX', (1.0,))),
                 (6, ('PLANEX', (-1.0,)))]
WITNESS_VOLS = [(4, ([2], [3], None, True)), (6, ([], [1], None, True)),
                (5, ([2], [3], ('UNION', (6,)), True)),
                (1, ([2], [3], ('UNION', (6,)), False))]


def witness_tables(deck_text=None):
    '''What construct_volume_t4 hands to the de-duplication step for the
    witness deck.'''
    deck_text = deck_text or WITNESS_HELPER
    from t4_geom_convert.Kernel.FileHandlers.Writer import WriteT4Geometry as W
    real = getattr(W, 'construct_volume_t4', None)
    cap = {}
    if real is None:
        return {'skipped': 'construct_volume_t4 is not a name of WriteT4Geometry'}

    def spy(*args):
        out = real(*args)
        try:
            record(out)
        except Exception as exc:      # pylint: disable=broad-except
            cap.clear()
            cap['skipped'] = f'construct_volume_t4 result not readable: {exc!r}'
        return out

    def record(out):
        cap['surfs'] = [(k, (v.type_surface.name,
                             tuple(float(x) for x in v.param_surface)))
                        for k, v in out[2].items()]
        cap['vols'] = [(k, (sorted(v.pluses), sorted(v.minuses), v.ops,
                            v.fictive)) for k, v in out[0].items()]
        cap['union_ids'] = tuple(out[4])
        return out
    W.construct_volume_t4 = spy
    try:
        impl.convert(deck_text, ['--skip-deduplication'])
    finally:
        W.construct_volume_t4 = real
    return cap


def run_witnesses(res):
    '''Former finding helper_plane_dedup_merge (fixed in /repo by "renumber the
    union helper planes together with the other surfaces"): the witness deck must
    convert under both settings, and the tables of C13_example_helper_merge must
    be the ones the implementation builds.'''
    cap = witness_tables()
    same = ('skipped' in cap or 'surfs' not in cap) or \
        (cap.get('surfs') == WITNESS_SURFS and cap.get('vols') == WITNESS_VOLS
         and cap.get('union_ids') == (5, 6))
    res.seen(('witness', 'helper'), nontrivial=True)
    res.obligation('tie:witness (the tables of C13_example_helper_merge are the '
                   'ones the implementation builds for the witness deck)', same,
                   f'captured {cap}')
    if not same:
        res.violation('correspondence',
                      'the tables in C13_example_helper_merge are not what '
                      'construct_volume_t4 returns for the witness deck',
                      {'observed': cap,
                       'theorem_or_correspondence': 'tie:witness'},
                      found_input=False)
    out = sweep.run_deck(WITNESS_HELPER, [], [[], ['--skip-deduplication']],
                         5, 200, 100)
    bad = [(v, st) for v, st in out['status'] if st != 'ok']
    if bad or out['diffs']:
        res.violation(
            'impl-violation',
            'deck with a user PX 1 and a union that is patently empty after '
            f'de-duplication: {bad or out["diffs"][0]["sigs"]}',
            {'input': {'deck': WITNESS_HELPER,
                       'vectors': [[], ['--skip-deduplication']]},
             'observed': out['status']}, found_input=True)


def patently_empty_everywhere(t4):
    '''Every non-FICTIVE volume of the file has a PLUS and a MINUS surface with
    the same descriptor (so no point is in any volume).'''
    desc = {sid: sweep.descriptor(t4, sid) for sid in t4.surfaces}
    live = [v for v in t4.volumes.values() if not v['fictive']]
    return bool(live) and all(
        {desc.get(s) for s in v['plus']} & {desc.get(s) for s in v['minus']}
        for v in live)


def run_witness_empty(res):
    '''Known finding all_volumes_empty_after_dedup.'''
    cap = witness_tables(WITNESS_EMPTY)
    same = ('skipped' in cap or 'surfs' not in cap) or \
        (cap.get('surfs') == WITNESS_EMPTY_SURFS
         and cap.get('vols') == WITNESS_EMPTY_VOLS
         and cap.get('union_ids') == (4, 5))
    bad = impl.convert(WITNESS_EMPTY, [])
    good = impl.convert(WITNESS_EMPTY, ['--skip-deduplication'])
    res.seen(('witness', 'empty'), nontrivial=True)
    if good.ok and not bad.ok and bad.exc == 'ValueError' and \
            'max()' in bad.msg and \
            patently_empty_everywhere(impl.T4File(good.text)):
        res.violation(
            'impl-violation',
            'every volume is patently empty after de-duplication: '
            f'ValueError ({bad.msg}) with default options, success with '
            '--skip-deduplication',
            {'input': {'deck': WITNESS_EMPTY,
                       'vectors': [[], ['--skip-deduplication']]},
             'observed': [repr(bad), repr(good)]},
            cls='all_volumes_empty_after_dedup', found_input=True)
        res.obligation('tie:witness-empty (the tables of C13_dedup_all_empty_'
                       'refuted are the ones the implementation builds for '
                       'the witness deck)', same, f'captured {cap}')
        if not same:
            res.violation('correspondence',
                          'the tables in C13_dedup_all_empty_refuted are not '
                          'what construct_volume_t4 returns for the witness '
                          'deck', {'observed': cap,
                                   'theorem_or_correspondence':
                                   'tie:witness-empty'}, found_input=False)


def run_corpus(res):
    vectors = sweep.option_vectors('thorough', random.Random(0))
    for name, text in c13_corpus.CORPUS:
        out = sweep.run_deck(text, [], vectors, 1, 150, 150)
        res.seen(('corpus', name), nontrivial=True)
        bad = [(v, st) for v, st in out['status'] if st != 'ok']
        if bad or out['diffs']:
            what = (f'{bad[0][0]} -> {bad[0][1]}' if bad else
                    f'{out["diffs"][0]["kind"]} {out["diffs"][0]["sigs"]}')
            res.violation('impl-violation',
                          f'corpus deck {name}: the option vectors disagree: '
                          + what[:300],
                          {'input': {'deck': text, 'vectors': vectors},
                           'observed': out['status']}, found_input=True)
    res.obligation(f'corpus ({len(c13_corpus.CORPUS)} decks x {len(vectors)} '
                   'option vectors)', True, '')


def tie_eq(res, rng, n):
    cases, meta = [], []
    for _ in range(n):
        a = tie.gen_desc(rng)
        if rng.random() < 0.8:
            b, kind = tie.variant(rng, a)
        else:
            b, kind = tie.gen_desc(rng), 'fresh'
        sa, sb = tie.to_surface(a, ['x']), tie.to_surface(b, ['y', 2])
        eq = bool(sa == sb)
        res.seen(('eq', tie.desc_key(a), tie.desc_key(b), kind), nontrivial=True)
        res.count('eq:' + kind + (':equal' if eq else ':different'))
        # implementation-side laws the dictionary relies on
        laws = []
        if bool(sb == sa) != eq:
            laws.append('== is not symmetric')
        if bool(sa != sb) == eq:
            laws.append('!= is not the negation of ==')
        if eq and hash(sa) != hash(sb):
            laws.append('equal surfaces hash differently')
        if (sb in {sa: 1}) != eq:
            laws.append('dict lookup disagrees with ==')
        # __hash__ is the tuple hash of exactly the compared components
        # (Model.desc_hash with Python's own element and tuple hashes)
        for d, surf in ((a, sa), (b, sb)):
            comps = (surf.type_surface, tuple(d['params']))
            if d['trans'] is not None:
                comps += (tuple(float(v) for v in d['trans'][0]),
                          tuple(float(v) for v in d['trans'][1]))
            if hash(surf) != hash(comps):
                laws.append('__hash__ is not the tuple hash of (type, params'
                            '[, translation, matrix])')
        for x, y in zip(a['params'], b['params']):
            if x == y and hash(x) != hash(y):
                laws.append(f'element hash does not respect ==: {x!r} {y!r}')
        # independent reading: same type, same values
        if eq != (tie.desc_key(a) == tie.desc_key(b)):
            res.violation('impl-violation',
                          f'SurfaceT4.__eq__ says {eq} for descriptors '
                          f'{a} / {b}',
                          {'input': {'eq_pair': [a, b]}, 'observed': eq},
                          found_input=True)
        for law in laws:
            res.violation('correspondence', f'SurfaceT4: {law} on {a} / {b}',
                          {'input': {'eq_pair': [a, b]},
                           'theorem_or_correspondence': 'tie:eq'},
                          found_input=False)
        cases.append(cpair(tie.coq_desc(a), tie.coq_desc(b), cbool(eq)))
        meta.append((a, b, kind, eq))
    bad, errs = common.run_case_files(
        'c13_eq', HEADER, 'desc float * desc float * bool', 'check_eq', cases)
    res.obligation(f'tie:eq ({len(cases)} descriptor pairs: SurfaceT4.__eq__ '
                   '= Model.desc_eqb at binary64)', not bad and not errs,
                   f'{len(bad)} disagreements {errs[:1]}')
    for idx in bad[:5]:
        a, b, kind, eq = meta[idx]
        res.violation('correspondence',
                      f'__eq__ = {eq} but the model disagrees on {a} / {b} '
                      f'({kind})',
                      {'input': {'eq_pair': [a, b]}, 'observed': eq,
                       'theorem_or_correspondence': 'tie:eq'},
                      found_input=False)
    res.sample({'eq_pair': meta[0][:2], 'equal': meta[0][3]})


def dedup_oracle(items, keys, ren):
    '''The property itself on the implementation's answer: merged numbers have
    the same descriptor; the survivor is the smallest number of its class;
    nothing else is touched.'''
    desc = dict((k, tie.desc_key(d)) for k, d in items)
    ren = dict(ren)
    if sorted(ren) != sorted(desc):
        return 'renumbering does not cover exactly the surface numbers'
    for k, k2 in ren.items():
        if k2 not in desc or desc[k2] != desc[k]:
            return f'surface {k} renumbered to {k2}: a different surface'
        if k2 not in keys:
            return f'surface {k} renumbered to {k2}, which was removed'
    return None


def tie_dedup(res, rng, n):
    cases, meta = [], []
    for _ in range(n):
        items, _, _ = tie.gen_surface_dict(rng, helpers=rng.random() < 0.5)
        keys, ren = tie.impl_dedup(items)
        why = dedup_oracle(items, keys, ren)
        classes = len({tie.desc_key(d) for _, d in items})
        res.seen(('dedup', [(k, tie.desc_key(d)) for k, d in items]),
                 nontrivial=classes < len(items))
        res.count(f'dedup:merged:{min(len(items) - len(keys), 4)}')
        if why:
            res.violation('impl-violation', 'remove_duplicate_surfaces: ' + why,
                          {'input': {'surfaces': items},
                           'observed': [keys, ren]}, found_input=True)
        cases.append(cpair(tie.coq_surfs(items),
                           cpair(clist(cz(k) for k in keys),
                                 clist(cpair(cz(a), cz(b)) for a, b in ren))))
        meta.append((items, keys, ren))
    bad, errs = common.run_case_files(
        'c13_dedup', HEADER, 'list (Z * desc float) * (list Z * list (Z * Z))',
        'check_dedup', cases)
    res.obligation(f'tie:dedup ({len(cases)} surface dictionaries: '
                   'remove_duplicate_surfaces = model)', not bad and not errs,
                   f'{len(bad)} disagreements {errs[:1]}')
    for idx in bad[:5]:
        items, keys, ren = meta[idx]
        res.violation('correspondence',
                      f'remove_duplicate_surfaces differs from the model on '
                      f'{items}: impl keys {keys} renumbering {ren}',
                      {'input': {'surfaces': items}, 'observed': [keys, ren],
                       'theorem_or_correspondence': 'tie:dedup'},
                      found_input=False)
    res.sample({'surfaces': meta[0][0], 'kept': meta[0][1],
                'renumbering': meta[0][2]})


def render_vol_out(out):
    return tie.coq_volus(out[1])


def tie_renumber(res, rng, n):
    cases, meta = [], []
    for _ in range(n):
        items, u0, u1 = tie.gen_surface_dict(rng)
        skeys = [k for k, _ in items]
        vols = tie.gen_volumes(rng, skeys, u0, u1,
                               bad_refs=rng.random() < 0.2)
        ren = [(k, rng.choice(skeys)) for k in skeys]
        if rng.random() < 0.15:
            ren.pop(rng.randrange(len(ren)))
        out = tie.impl_renumber(vols, ren)
        res.seen(('renumber', vols, ren), nontrivial=True)
        res.count('renumber:' + out[0])
        cases.append(cpair(tie.coq_volus(vols),
                           clist(cpair(cz(a), cz(b)) for a, b in ren),
                           tie.coq_res(out, render_vol_out)))
        meta.append((vols, ren, out))
    bad, errs = common.run_case_files(
        'c13_renumber', HEADER,
        'list (Z * volu) * list (Z * Z) * res (list (Z * volu))',
        'check_renumber', cases)
    res.obligation(f'tie:renumber ({len(cases)} volume tables: '
                   'renumber_surfaces = model)', not bad and not errs,
                   f'{len(bad)} disagreements {errs[:1]}')
    for idx in bad[:5]:
        vols, ren, out = meta[idx]
        res.violation('correspondence',
                      'renumber_surfaces differs from the model',
                      {'input': {'volumes': vols, 'renumbering': ren},
                       'observed': out,
                       'theorem_or_correspondence': 'tie:renumber'},
                      found_input=False)


def tie_finish(res, rng, n):
    cases, meta = [], []
    plumbing_bad = None
    for i in range(n):
        items, u0, u1 = tie.gen_surface_dict(rng, helpers=rng.random() < 0.9)
        skeys = [k for k, _ in items]
        vols = tie.gen_volumes(rng, skeys, u0, u1)
        skip = rng.random() < 0.3
        out, seen = tie.impl_finish(skip, items, vols, u0, u1)
        if seen == 'skipped':
            res.count('finish:constructors-not-stubbable')
            res.extra['skipped'] = ('tie:finish runs through the public '
                                    'functions: the constructors could not be '
                                    'stubbed in convertMCNPGeometry')
        elif seen != (False, True, 3.5):
            plumbing_bad = seen
        res.seen(('finish', skip, vols, [(k, tie.desc_key(d)) for k, d in items]),
                 nontrivial=True)
        res.count(f'finish:{"skip" if skip else "dedup"}:{out[0]}')

        def render(o):
            return cpair(clist(cz(k) for k in o[1]), tie.coq_volus(o[2]),
                         clist(cz(k) for k in o[3]))
        cases.append(cpair(cbool(skip), tie.coq_surfs(items),
                           tie.coq_volus(vols), cz(u0), cz(u1),
                           tie.coq_res(out, render)))
        meta.append((skip, items, vols, u0, u1, out))
    res.obligation('tie:plumbing (always_inline_filled, always_inline_filling, '
                   'max_inline_score reach construct_volume_t4 in this order)',
                   plumbing_bad is None, f'observed {plumbing_bad}')
    if plumbing_bad is not None:
        res.violation('correspondence',
                      'convertMCNPGeometry hands (always_inline_filled, '
                      'always_inline_filling, max_inline_score) = '
                      f'{plumbing_bad} to construct_volume_t4, expected '
                      '(False, True, 3.5)',
                      {'theorem_or_correspondence': 'tie:plumbing',
                       'observed': plumbing_bad}, found_input=False)
    bad, errs = common.run_case_files(
        'c13_finish', HEADER,
        'bool * list (Z * desc float) * list (Z * volu) * Z * Z '
        '* res (list Z * list (Z * volu) * list Z)', 'check_finish', cases)
    res.obligation(f'tie:finish ({len(cases)} tables: convertMCNPGeometry tail '
                   '+ SURF lines of the writer = Model.finish)',
                   not bad and not errs,
                   f'{len(bad)} disagreements {errs[:1]}')
    for idx in bad[:5]:
        skip, items, vols, u0, u1, out = meta[idx]
        res.violation('correspondence',
                      'the tail of convertMCNPGeometry differs from the model '
                      f'(skip_deduplication={skip})',
                      {'input': {'finish': [skip, items, vols, u0, u1]},
                       'observed': out,
                       'theorem_or_correspondence': 'tie:finish'},
                      found_input=False)


def tie_inlining(res, rng, n):
    size_cases, occ_cases, inl_cases, score_cases = [], [], [], []
    occ_meta, inl_meta, score_meta = [], [], []
    for i in range(n):
        cyclic = rng.random() < 0.08
        missing = rng.random() < 0.08
        cells = tie.gen_hierarchy(rng, cyclic=cyclic, missing=missing)
        for _, c in cells[:2]:
            size, subs = tie.impl_size(c['geom'], rng)
            size_cases.append(cpair(f'({tie.coq_geom(c["geom"])})', cn(size),
                                    clist(cz(s) for s in subs)))
        occ = tie.impl_occurrences(cells, rng)
        occ_cases.append(cpair(
            tie.coq_cells(cells),
            tie.coq_res(occ, lambda o: clist(
                cpair(cz(k), clist(cz(x) for x in v)) for k, v in o[1]))))
        occ_meta.append((cells, occ))
        res.count('occ:' + occ[0])
        score = rng.choice([0.0, 0.5, 1.0, 1.0, 1.5, 2.0, 2.5, 3.0, 10.0,
                            float('inf'), -1.0, 1 / 3, 4 / 3])
        plain = tie.impl_inline_plain(cells, score, rng)
        score_cases.append(cpair(tie.coq_cells(cells), common.cfloat(score),
                                 tie.coq_res(plain,
                                             lambda o: tie.coq_cells(o[1]))))
        score_meta.append((cells, score, plain))
        if occ[0] != 'ok':
            continue
        ti, out = tie.impl_inline(cells, score, rng)
        if ti is None:
            # helper not present: the capture tie is skipped, tie:score runs
            # the same code through inline_cells
            res.extra['skipped_inline'] = 'skipped: helper ' \
                'inline_cells_worker not present'
            continue
        n_refs = sum(len(refs_of(c['geom'])) for _, c in cells)
        res.seen(('inline', cells, ti), nontrivial=bool(ti) and n_refs > 0)
        res.count(f'inline:{out[0]}:to_inline={min(len(ti), 3)}')
        inl_cases.append(cpair(tie.coq_cells(cells), clist(cz(k) for k in ti),
                               tie.coq_res(out, lambda o: tie.coq_cells(o[1]))))
        inl_meta.append((cells, score, ti, out))
        if out[0] == 'ok':
            why = inline_oracle(cells, ti, out[1])
            if why:
                res.violation('impl-violation', 'inline_cells: ' + why,
                              {'input': {'cells': cells, 'score': score},
                               'observed': out}, found_input=True)
    groups = (
        ('c13_size', 'geom * N * list Z', 'check_size', size_cases),
        ('c13_occ', 'list (Z * mcell) * res (list (Z * list Z))',
         'check_occ', occ_cases),
        ('c13_inline', 'list (Z * mcell) * list Z * res (list (Z * mcell))',
         'check_inline', inl_cases),
        ('c13_score', 'list (Z * mcell) * float * res (list (Z * mcell))',
         'check_inline_score', score_cases))
    # the four groups of generated files are independent: compile them together
    from concurrent.futures import ThreadPoolExecutor
    with ThreadPoolExecutor(max_workers=4) as pool:
        futs = {g[0]: pool.submit(common.run_case_files, g[0], HEADER, g[1],
                                  g[2], g[3], 100) for g in groups}
        results = {k: f.result() for k, f in futs.items()}
    for name, typ, fun, cases in (
            ('c13_size', 'geom * N * list Z', 'check_size', size_cases),
            ('c13_occ', 'list (Z * mcell) * res (list (Z * list Z))',
             'check_occ', occ_cases),
            ('c13_inline', 'list (Z * mcell) * list Z * res (list (Z * mcell))',
             'check_inline', inl_cases),
            ('c13_score', 'list (Z * mcell) * float * res (list (Z * mcell))',
             'check_inline_score', score_cases)):
        bad, errs = results[name]
        res.obligation(f'tie:{name[4:]} ({len(cases)} cases: implementation = '
                       'model)', not bad and not errs,
                       f'{len(bad)} disagreements {errs[:1]}')
        for idx in bad[:5]:
            payload = {'theorem_or_correspondence': 'tie:' + name[4:]}
            if name == 'c13_inline':
                cells, score, ti, out = inl_meta[idx]
                payload.update(input={'cells': cells, 'score': score},
                               observed=[ti, out])
            elif name == 'c13_score':
                cells, score, out = score_meta[idx]
                payload.update(input={'cells': cells, 'score': score},
                               observed=out)
            elif name == 'c13_occ':
                payload.update(input={'cells': occ_meta[idx][0]},
                               observed=occ_meta[idx][1])
            else:
                payload.update(input={'case': size_cases[idx]})
            res.violation('correspondence',
                          f'{name[4:]}: implementation and model disagree '
                          f'(case {idx})', payload, found_input=False)
    if inl_meta:
        res.sample({'cells': inl_meta[0][0], 'score': inl_meta[0][1],
                    'to_inline': inl_meta[0][2]})


def refs_of(tree):
    if tree[0] == 'r':
        return [tree[1]]
    if tree[0] == 's':
        return []
    return [r for t in tree[1] for r in refs_of(t)]


def tree_eval(tree, sigma, table, depth=0):
    if depth > 100:
        raise RecursionError
    if tree[0] == 's':
        val = sigma[abs(tree[1])]
        return val if tree[1] > 0 else not val
    if tree[0] == 'r':
        return tree_eval(table[tree[1]], sigma, table, depth + 1)
    vals = [tree_eval(t, sigma, table, depth + 1) for t in tree[1]]
    return all(vals) if tree[0] == '*' else any(vals)


def inline_oracle(before, ti, after):
    '''Every cell denotes the same Boolean function before and after (all
    sense assignments on the 8 surfaces of the generator... sampled), and no
    reference to an inlined cell is left below the top of a tree.'''
    tb = {k: c['geom'] for k, c in before}
    ta = {k: c['geom'] for k, c in after}
    rng = random.Random(len(before))
    for _ in range(24):
        sigma = {n: rng.random() < 0.5 for n in range(1, 9)}
        for key in tb:
            try:
                want = tree_eval(tb[key], sigma, tb)
            except (RecursionError, KeyError):
                continue
            try:
                got = tree_eval(ta[key], sigma, ta)
            except (RecursionError, KeyError):
                return f'cell {key} can no longer be evaluated'
            if want != got:
                return (f'cell {key} changes value under the sense assignment '
                        f'{sigma}')
    for key, tree in ta.items():
        if tree[0] in '*:' and any(r in ti for r in refs_of(tree)):
            return f'cell {key} still refers to an inlined cell'
    return None


def tie_fill(res, rng, n):
    cases, meta = [], []
    for i in range(n):
        cells = tie.gen_fill_table(rng, cyclic=rng.random() < 0.05)
        fd, fg = rng.random() < 0.5, rng.random() < 0.5
        free_key, out = tie.impl_fill(cells, fd, fg, rng)
        res.seen(('fill', cells, fd, fg), nontrivial=True)
        res.count(f'fill:{int(fd)}{int(fg)}:{out[0]}')
        cases.append(cpair(cbool(fd), cbool(fg), tie.coq_cells(cells),
                           cz(free_key),
                           tie.coq_res(out, lambda o: cpair(
                               tie.coq_cells(o[1]), cz(o[2])))))
        meta.append((cells, fd, fg, out))
    bad, errs = common.run_case_files(
        'c13_fill', HEADER,
        'bool * bool * list (Z * mcell) * Z * res (list (Z * mcell) * Z)',
        'check_fill', cases)
    res.obligation(f'tie:fill ({len(cases)} tables: the FILL loop / pot_fill '
                   'under the inline flags = model)', not bad and not errs,
                   f'{len(bad)} disagreements {errs[:1]}')
    for idx in bad[:5]:
        cells, fd, fg, out = meta[idx]
        res.violation('correspondence',
                      f'pot_fill(inline_filled={fd}, inline_filling={fg}) '
                      'differs from the model',
                      {'input': {'fill_cells': cells, 'flags': [fd, fg]},
                       'observed': out,
                       'theorem_or_correspondence': 'tie:fill'},
                      found_input=False)


def tie_fill_tr(res, rng, n, cov=None):
    '''The FILL loop WITH transformations on generated decks: cell table
    captured from the real conversion before and after the loop vs
    ModelTr.fill_loop_tr.'''
    cases, meta = [], []
    tries = 0
    hooks_missing = False
    converted_not_captured = 0
    while len(cases) < n and tries < 4 * n:
        tries += 1
        dck, info = sweep.gen_deck(rng)
        if info['depth'] == 0:
            continue
        text = deckmod.render(dck)
        fd, fg = rng.random() < 0.5, rng.random() < 0.5
        args = (['--always-inline-filled'] if fd else []) + \
            (['--always-inline-filling'] if fg else []) + \
            deckmod.lattice_args(dck)
        if cov is not None and len(cases) < 30:
            # whole conversions are slow under the tracer: the first 30 decks
            # are enough to execute every line of pot_fill / cell_transform /
            # pot_transform
            with cov:
                got = tie.impl_fill_tr(text, args)
        else:
            got = tie.impl_fill_tr(text, args)
        if got == 'hooks-missing':
            res.extra['skipped_fill_tr'] = ('skipped: capture hooks '
                                            '(by_universe / inline_cells / '
                                            'CellConversion in '
                                            'ConstructVolumeT4) not present; '
                                            'the sweep covers pot_fill with '
                                            'transformations')
            hooks_missing = True
            break
        if got is None or (isinstance(got, tuple) and got[0] == 'not-captured'):
            res.count('fill_tr:not-captured')
            if got is not None and got[1]:
                converted_not_captured += 1
            continue
        (cells, tinfo, ckey, skey, ncache), (post, ckey2, skey2) = got
        if ncache:
            res.count('fill_tr:cache-not-empty')
            continue
        res.seen(('fill_tr', text, fd, fg), nontrivial=bool(tinfo))
        res.count(f'fill_tr:{int(fd)}{int(fg)}:new-cells='
                  f'{min((ckey2 - ckey) // 5 * 5, 30)}')
        res.count('fill_tr:with-transformations' if tinfo
                  else 'fill_tr:no-transformation')
        cases.append(cpair(cbool(fd), cbool(fg), tie.coq_cells(cells),
                           tie.coq_tinfo(tinfo), cz(ckey), cz(skey),
                           f'(Ok ({tie.coq_cells(post)}, {cz(ckey2)}, '
                           f'{cz(skey2)}))'))
        meta.append((text, args))
    # the conversions work but the two hooks are never reached: a rewrite calls
    # by_universe / inline_cells differently; the sweep still covers the code
    hooks_ineffective = not cases and converted_not_captured >= 10
    if hooks_ineffective:
        res.extra['skipped_fill_tr'] = ('skipped: the hooks on by_universe / '
                                        'inline_cells are not reached by the '
                                        'conversion; the sweep covers pot_fill '
                                        'with transformations')
    bad, errs = common.run_case_files(
        'c13_filltr', HEADER,
        'bool * bool * list (Z * mcell) * list (Z * (option (list float) * '
        'list (list float))) * Z * Z * res (list (Z * mcell) * Z * Z)',
        'check_fill_tr', cases, chunk=40)
    res.obligation(f'tie:fill_tr ({len(cases)} decks: FILL loop with '
                   'transformations (pot_fill, cell_transform and its cache, '
                   'pot_transform numbering) = ModelTr.fill_loop_tr)',
                   not bad and not errs and (len(cases) >= n // 2
                                             or hooks_missing
                                             or hooks_ineffective),
                   f'{len(bad)} disagreements {errs[:1]}')
    for idx in bad[:5]:
        text, args = meta[idx]
        res.violation('correspondence',
                      'the FILL loop with transformations differs from the '
                      f'model (options {args})',
                      {'input': {'deck': text, 'vectors': [args]},
                       'theorem_or_correspondence': 'tie:fill_tr'},
                      found_input=False)


# ---------------------------------------------------------------------------
# sweep
# ---------------------------------------------------------------------------

def _sweep_job(job):
    text, lat, vectors, seed, n_points, n_sigma = job
    return sweep.run_deck(text, lat, vectors, seed, n_points, n_sigma)


def classify_failures(text, lat, status):
    '''status: [(vector, 'ok' | 'exc:..' | 'bad:..')] with at least one ok and
    one failure.  Returns the known-finding class or None.'''
    failing = [(v, s) for v, s in status if s != 'ok']
    if all(s.startswith('exc:ValueError:max()') for _, s in failing) and \
            all('--skip-deduplication' not in v for v, _ in failing) and \
            all(s == 'ok' for v, s in status if '--skip-deduplication' in v):
        good = [v for v, s in status if s == 'ok'][0]
        conv = impl.convert(text, list(good) + list(lat), keep_stdout=False)
        if conv.ok and patently_empty_everywhere(impl.T4File(conv.text)):
            return 'all_volumes_empty_after_dedup'
    return None


def run_sweep(res, tier, rng):
    n_decks = 60 if tier == 'quick' else 600
    n_points = 120 if tier == 'quick' else 200
    n_sigma = 100 if tier == 'quick' else 200
    jobs, metas = [], []
    for _ in range(n_decks):
        dck, info = sweep.gen_deck(rng)
        text = deckmod.render(dck)
        lat = deckmod.lattice_args(dck)
        vectors = sweep.option_vectors(tier, rng)
        jobs.append((text, lat, vectors, rng.randrange(10 ** 9), n_points,
                     n_sigma))
        metas.append(info)
    ctx = multiprocessing.get_context('fork')
    with ctx.Pool(14) as pool:
        results = pool.map(_sweep_job, jobs, chunksize=2)
    n_cmp = n_ok = 0
    for job, info, out in zip(jobs, metas, results):
        text, lat, vectors = job[0], job[1], job[2]
        kinds = {s if s == 'ok' else s.split(':', 2)[0] + ':' + s.split(':', 2)[1][:40]
                 for _, s in out['status']}
        res.seen(('deck', text), nontrivial=info['depth'] > 0 or info['dups'] > 0
                 or info['unions'] > 0)
        res.count(f'sweep:depth={info["depth"]}')
        res.count(f'sweep:dups={info["dups"]}')
        res.count('sweep:lattice' if info['lattice'] else 'sweep:no-lattice')
        res.count('sweep:unions' if info['unions'] else 'sweep:no-union')
        n_cmp += out['checked']
        if kinds == {'ok'}:
            n_ok += 1
        elif 'ok' not in kinds:
            res.count('sweep:rejected-by-all:' + sorted(kinds)[0][:60])
            if len(kinds) > 1:
                res.violation(
                    'impl-violation',
                    'the option vectors fail in different ways on one deck: '
                    f'{sorted(kinds)}',
                    {'input': {'deck': text, 'lattice_args': lat,
                               'vectors': vectors},
                     'observed': out['status']}, found_input=True)
        else:
            cls = classify_failures(text, lat, out['status'])
            failing = [(v, s) for v, s in out['status'] if s != 'ok']
            res.violation(
                'impl-violation',
                f'{len(failing)} of {len(vectors)} option vectors fail where '
                f'the others succeed, e.g. {failing[0][0]} -> {failing[0][1]}',
                {'input': {'deck': text, 'lattice_args': lat,
                           'vectors': [failing[0][0],
                                       [v for v, s in out['status']
                                        if s == 'ok'][0]]},
                 'observed': out['status']}, cls=cls, found_input=True)
        for diff in out['diffs'][:1]:
            i, j = diff['vectors']
            what = (f'options {vectors[i]} and {vectors[j]} disagree at '
                    f'{diff["kind"]} {str(diff["at"])[:120]}: owners '
                    f'{diff["sigs"][0]} vs {diff["sigs"][1]}')
            res.violation(
                'impl-violation' if diff['kind'] == 'point'
                else 'correspondence', what,
                {'input': {'deck': text, 'lattice_args': lat,
                           'vectors': [vectors[i], vectors[j]],
                           'at': diff['at'], 'kind': diff['kind']},
                 'observed': diff['sigs'],
                 'theorem_or_correspondence': 'sweep:sense-assignments'},
                found_input=diff['kind'] == 'point')
    res.obligation(f'sweep ({n_decks} decks x {len(jobs[0][2])} option '
                   f'vectors, {n_cmp} point/assignment comparisons)',
                   True, f'{n_ok} decks converted by every vector')
    res.sample({'deck': jobs[0][0], 'vectors': jobs[0][2][:3]})


def run(res, tier, seed, proofs_ok):
    rng = random.Random(seed)
    quick = tier == 'quick'
    res.rule = ('descriptor pairs (17 types, -0.0/0.0, int/float, 1-ulp, '
                'transform variants); surface dictionaries with repeated '
                'descriptors + volume tables (empty equations, UNION/INTE); '
                'cell hierarchies (acyclic, cyclic, dangling references) with '
                'the implementation\'s to_inline captured; FILL tables; decks '
                'with universes/fills/lattices/unions/duplicate surfaces under '
                'the option vectors. non-trivial = duplicates present / '
                'non-empty to_inline / nested or duplicated deck')
    res.extra['family_members'] = MEMBERS
    run_witnesses(res)
    run_witness_empty(res)
    run_corpus(res)
    # line coverage of the anchored functions by the tied calls: information
    # only, never allowed to raise
    cov = None
    try:
        import c13_cov
        cov = c13_cov.LineCov(c13_cov.anchored_functions())
    except Exception:      # pylint: disable=broad-except
        cov = None

    class _NoCov:
        def __enter__(self):
            return self

        def __exit__(self, *exc):
            return False
    with (cov if cov is not None else _NoCov()):
        tie_eq(res, rng, 300 if quick else 4000)
        tie_dedup(res, rng, 250 if quick else 2000)
        tie_renumber(res, rng, 150 if quick else 1500)
        tie_finish(res, rng, 250 if quick else 2000)
        tie_inlining(res, rng, 250 if quick else 2000)
        tie_fill(res, rng, 150 if quick else 1500)
    tie_fill_tr(res, rng, 60 if quick else 800, cov)
    try:
        if cov is not None:
            total, missing = cov.missing(c13_cov.UNREACHABLE)
            res.extra['line_coverage'] = {
                'anchored_lines': total,
                'code_objects': len(cov.codes),
                'never_executed': [list(m) for m in missing[:20]],
                'functions_not_present': list(c13_cov.MISSING)}
    except Exception as exc:      # pylint: disable=broad-except
        res.extra['line_coverage'] = {'error': repr(exc)}
    run_sweep(res, tier, rng)


EVAL_HEADER = HEADER + 'Import ListNotations.\n'


def model_eval(term):
    val, raw = common.coq_eval(EVAL_HEADER, term)
    return val if val is not None else 'coqc said: ' + raw[-400:]


def replay(path):
    '''Re-run the recorded input through the implementation (and the model or
    the oracle) and print what happens.'''
    data = json.load(open(path))
    inp = data.get('input', {})
    print('recorded:', data.get('what'))
    if 'deck' in inp:
        vectors = inp.get('vectors') or [[]]
        out = sweep.run_deck(inp['deck'], inp.get('lattice_args', []),
                             [list(v) for v in vectors], 1, 400, 200)
        for vec, status in out['status']:
            print(vec, '->', status)
        for diff in out['diffs']:
            print('difference at', diff['kind'], diff['at'], diff['sigs'])
        if not out['diffs']:
            print('no difference between the outputs that were written')
    elif 'eq_pair' in inp:
        a, b = (fix_desc(d) for d in inp['eq_pair'])
        print('implementation ==:', tie.to_surface(a) == tie.to_surface(b))
        model = model_eval(f'desc_eqb FS {tie.coq_desc(a)} '
                                   f'{tie.coq_desc(b)}')
        print('model:', model)
    elif 'surfaces' in inp:
        items = [(k, fix_desc(d)) for k, d in inp['surfaces']]
        print('implementation:', tie.impl_dedup(items))
        model = model_eval('let (s, r) := '
                                   f'remove_duplicate_surfaces FS '
                                   f'{tie.coq_surfs(items)} in (map fst s, r)')
        print('model:', model)
    elif 'cells' in inp:
        cells = [(k, fix_tree_cell(c)) for k, c in inp['cells']]
        ti, out = tie.impl_inline(cells, inp.get('score', 1.0),
                                  random.Random(0))
        print('implementation: to_inline', ti, out)
        model = model_eval(f'inline_cells 60 '
                                   f'{clist(cz(k) for k in ti)} '
                                   f'{tie.coq_cells(cells)}')
        print('model:', model)
    elif 'finish' in inp:
        skip, items, vols, u0, u1 = inp['finish']
        items = [(k, fix_desc(d)) for k, d in items]
        vols = [(k, v) for k, v in vols]
        out, seen = tie.impl_finish(skip, items, vols, u0, u1)
        print('implementation:', out)
        model = model_eval(f'match finish FS {cbool(skip)} {tie.coq_surfs(items)} '
            f'{tie.coq_volus(vols)} {cz(u0)} {cz(u1)} with Ok (s, v, w) => '
            'Ok (map fst s, v, w) | Err e => Err e end')
        print('model:', model)
    elif 'volumes' in inp:
        vols = [(k, v) for k, v in inp['volumes']]
        ren = [tuple(x) for x in inp['renumbering']]
        print('implementation:', tie.impl_renumber(vols, ren))
        model = model_eval(f'renumber_surfaces {tie.coq_volus(vols)} '
            + clist(cpair(cz(a), cz(b)) for a, b in ren))
        print('model:', model)
    elif 'fill_cells' in inp:
        cells = [(k, fix_tree_cell(c)) for k, c in inp['fill_cells']]
        fd, fg = inp['flags']
        free_key, out = tie.impl_fill(cells, fd, fg, random.Random(0))
        print('implementation:', out)
        model = model_eval(f'fill_loop 40 {cbool(fd)} {cbool(fg)} '
            f'{tie.coq_cells(cells)} (fill_keys {tie.coq_cells(cells)}) '
            f'({tie.coq_cells(cells)}, {cz(free_key)})')
        print('model:', model)
    else:
        print(json.dumps(inp)[:2000])
    return 0


def fix_desc(d):
    d = dict(d)
    if d.get('trans') is not None:
        d['trans'] = (list(d['trans'][0]), list(d['trans'][1]))
    return d


def fix_tree(tree):
    if tree[0] in 'sr':
        return (tree[0], tree[1])
    return (tree[0], [fix_tree(t) for t in tree[1]])


def fix_tree_cell(c):
    c = dict(c)
    c['geom'] = fix_tree(c['geom'])
    return c
