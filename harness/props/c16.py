'''C16 — reflecting (*) and white (+) surfaces become boundary conditions on
the right surfaces.

Theorems: coq/Properties/C16.v.  Ties (correspondence by execution):
  run      : whole conversion of a generated deck (0-4 flagged surfaces,
             duplicates of flagged surfaces in several spellings, macrobodies,
             cones, cells with TRCL translations incl. importance-0 ones, with
             and without --skip-deduplication / --skip-boundary-conditions):
             exception class, or the (id, class) of every SURF line and the
             (kind, id) of every ALL_COMPLETE line  vs  Model.run_t
  split    : MIP.geom.surfaces.re_name on flag/number strings vs split_flags
  kinds    : CConversionBoundaryCondition.conversionBoundCond on synthetic
             dictionaries (incl. flags that are neither * nor +) vs conv_kinds
  numbering: CollectionDict.number_items on synthetic dictionaries vs
             Model.number_items
Independent oracle (sweep): the abstract deck (which cards are flagged, the
reference MCNP sense function of each card from mcnpref) against the written
file only: every ALL_COMPLETE line designates a written SURF, that SURF has the
locus of a flagged card of that kind, possibly moved by the TRCL / FILL
translation of a cell naming it (sign pattern of t4eval vs mcnpref on sample
points), every flagged card bounding a written cell has such a line for each
locus it takes, no two lines designate the same SURF, a line naming an
unflagged card needs a coincident flagged duplicate merged into it, the count
is right, a flagged multi-facet macrobody stops the run, a ValueError is
accepted only for coincident loci flagged differently.  The sweep also runs on decks outside the model
(unions, complements, TRCL, TR on surfaces, one-sheet cones and macrobodies
referenced by cells).'''
import json
import random
import re
import sys

import numpy as np

import common
import impl
import mcnpref
import t4eval
from common import cstr, clist, cbool, cpair, cn, cz, cnat

THEOREMS = ['C16_split_flags_star', 'C16_split_flags_plus',
            'C16_split_flags_none', 'C16_parsed_keys_distinct',
            'C16_bc_kind', 'C16_bc_one_per_flag', 'C16_bc_entries_exact',
            'C16_macrobody_flag_rejected', 'C16_macrobody_flag_stops_run',
            'C16_written_surfaces_exact',
            'C16_bc_designates_present_same_locus',
            'C16_bc_entries_designate_written',
            'C16_conflicting_flags_rejected', 'C16_number_items_distinct',
            'C16_run_t_plain', 'C16_expanded_table',
            'C16_bc_designates_present_same_locus_trcl',
            'C16_bc_entries_designate_written_trcl',
            'C16_conflicting_flags_rejected_trcl', 'C16_trcl_copy_in_table',
            'C16_unflagged_deck_no_entries',
            'C16_macrobody_flag_stops_run_t', 'C16_bc_entry_sound',
            'C16_bc_stale_kind_quirk', 'C16_bc_designates_keys',
            'C16_aux_ids_above', 'C16_bc_designates_keys_trcl',
            'C16_finish_designates', 'C16_finish_sound',
            'C16_merge_entries_gen',
            'C16_bc_designates_present_same_locus_linked',
            'C16_bc_entries_designate_written_linked',
            'C16_conflicting_flags_rejected_linked',
            'C16_bc_designates_present_same_locus_cells_linked',
            'C16_rep_is_C13_renumbering_linked',
            'C16_bc_designates_present_same_locus_all_linked']
TRUSTED = [
    'hand-written executable model coq/C16/Model.v (modelled, tied by '
    'execution only); the models of C01 (cell cards -> volume table, pruning) '
    'and C13 (SurfaceT4.__eq__ over the reals, de-duplication) that the '
    '_linked theorems import are trusted as tied by those properties',
    'in the executable model a descriptor CLASS stands for a SurfaceT4 '
    'descriptor; the harness assigns the classes from a hand-written table of '
    'canonical TRIPOLI-4 forms (and a hand-written rigid-motion table for '
    'TRCL copies: translations and quarter-turn rotations) and the tie '
    'compares them with the written SURF lines.  What is assumed of that '
    'table is only that it names real descriptors injectively: then '
    'C16_rep_is_C13_renumbering_linked identifies the de-duplication on '
    'classes with C13\'s on real descriptors',
    'the executable model covers cells that are intersections of signed '
    'surface numbers (single surfaces and collections, either sense), TRCL, '
    'importance 0, 1000*cell+surface; unions written with `:`, complements, '
    'cell references and the FILL development are covered by the oracle '
    'sweep and by the theorems linked with C13 (any volume table) and C01 '
    '(any cell cards); TR on surface cards: oracle sweep only',
    'the union helper planes are not in the executable model (cells of its '
    'fragment never use them and they can never be the smallest of a '
    'duplicate group); the linked theorems carry them explicitly',
    'harness: generators, impl.T4File reader, mcnpref/t4eval sense functions, '
    'the evaluation of CPython\'s set order for the implicit surfaces, PEG '
    'shim replacing TatSu',
]
ASSUMPTIONS = [
    'surface numbers are decimal digits (the card regex guarantees it)',
    'C16_bc_designates_present_same_locus has no guard beyond the property\'s '
    'own "bounds a converted cell": in the executable fragment a surviving '
    'cell whose card names the surface; in the linked theorems bounds_cell '
    '(two points differing only on the surface, one in the cell, one not); '
    'the designated SURF is the representative of the flagged surface under '
    'de-duplication, kept with the same descriptor over the reals',
    'coincident surfaces flagged * and + whose representative is written are '
    'refused with a ValueError (C16_conflicting_flags_rejected); the oracle '
    'accepts that refusal only when it finds such a pair numerically',
    'a macrobody with a single facet (SPH) is not rejected by the code: it is '
    'converted like the sphere S and its entry designates the right surface',
    'not composed: C13\'s pot_fill model feeding C01\'s convert_cells; '
    'C16\'s executable fragment vs C01\'s pipeline on that fragment',
]
HEADER = ('From Coq Require Import List NArith ZArith Bool String Ascii.\n'
          'From T4V Require Import Base.Str C16.Model C16.Exec.\n'
          'Open Scope string_scope.\n')

# ---- the pool of surfaces --------------------------------------------------
# (locus name, canonical TRIPOLI-4 form = descriptor class, spellings)
POOL = [
    ('x0', ('PLANEX', (0.0,)), ['px 0', 'px 0.0', 'p 1 0 0 0', 'px 0.',
                                'p 2 0 0 0']),
    ('x0', ('PLANE', (-1.0, 0.0, 0.0, 0.0)), ['p -1 0 0 0']),
    ('x5', ('PLANEX', (5.0,)), ['px 5', 'px 5.0', 'p 1 0 0 5', 'px 5.']),
    ('y3', ('PLANEY', (3.0,)), ['py 3', 'p 0 1 0 3', 'py 3.0']),
    ('y7', ('PLANEY', (7.0,)), ['py 7', 'py 7.']),
    ('z1', ('PLANEZ', (1.0,)), ['pz 1', 'p 0 0 1 1']),
    ('z-2', ('PLANEZ', (-2.0,)), ['pz -2', 'pz -2.0']),
    ('z0', ('PLANEZ', (0.0,)), ['pz 0']),
    ('s4', ('SPHERE', (0.0, 0.0, 0.0, 4.0)), ['so 4', 's 0 0 0 4', 'sx 0 4']),
    ('s6', ('SPHERE', (1.0, 0.0, 0.0, 6.0)), ['s 1 0 0 6', 'sx 1 6']),
    ('s9', ('SPHERE', (0.0, 0.0, 0.0, 9.0)), ['so 9', 'sph 0 0 0 9']),
    ('cz2', ('CYLZ', (0.0, 0.0, 2.0)), ['cz 2', 'c/z 0 0 2']),
    ('cx3', ('CYLX', (0.0, 0.0, 3.0)), ['cx 3', 'c/x 0 0 3']),
    ('kz', ('CONEZ', (0.0, 0.0, 0.0, 45.0)), ['kz 0 1', 'k/z 0 0 0 1']),
]
CLASS_OF = {}
for _locus, _form, _sp in POOL:
    CLASS_OF.setdefault(_form, len(CLASS_OF) + 1)
FRESH0 = 1000        # classes of facets that duplicate nothing

# TRCL transformations used by the tie stream: translations ((5 0 0) and
# (0 4 0) move one pool surface onto another one, (0 0 0) makes a copy equal
# to its original) and two rotations by a quarter turn given as direction
# cosines (exact in binary64); the first one maps px 0 onto py 3
SHIFTS = ['0 0 0', '5 0 0', '0 4 0', '1 2 3',
          '0 3 0 0 1 0 -1 0 0 0 0 1', '0 0 0 1 0 0 0 0 1 0 -1 0']
AXES = {(1.0, 0.0, 0.0): 0, (0.0, 1.0, 0.0): 1, (0.0, 0.0, 1.0): 2}


def tr_spec(text):
    '''(O, M): origin and the matrix whose columns are the auxiliary axes in
    main coordinates (MCNP manual: B_ij = cosine between main axis x_i and
    auxiliary axis x'_j; the card lists B by rows of the AUXILIARY axes
    x', y', z' expressed in the main frame).'''
    v = [float(x) for x in text.split()]
    o = np.array(v[:3])
    m = np.eye(3) if len(v) == 3 else np.array(v[3:12]).reshape(3, 3).T
    return o, m


def moved_form(form, tr):
    '''Canonical TRIPOLI-4 form of a pool surface moved by the rigid motion
    `tr` = (O, M), main = O + M aux (written from the geometry, not from the
    code; M is a signed permutation matrix here so everything is exact).'''
    typ, prm = form
    o, m = tr
    if typ in ('PLANEX', 'PLANEY', 'PLANEZ', 'PLANE'):
        if typ == 'PLANE':
            n, dist = np.array(prm[:3]), -prm[3]    # a x + b y + c z + d = 0
        else:
            n = np.eye(3)['XYZ'.index(typ[-1])]
            dist = prm[0]
        big_n = m @ n
        dist = dist + float(big_n @ o)
        axis = AXES.get(tuple(float(x) + 0.0 for x in big_n))
        if axis is not None:
            return ('PLANE' + 'XYZ'[axis], (dist,))
        return ('PLANE', (*(float(x) + 0.0 for x in big_n), -dist + 0.0))
    if typ == 'SPHERE':
        c = o + m @ np.array(prm[:3])
        return (typ, (*(float(x) + 0.0 for x in c), prm[3]))
    k = 'XYZ'.index(typ[-1])                        # CYLk / CONEk
    others = [i for i in range(3) if i != k]
    if typ.startswith('CYL'):
        p = np.zeros(3)
        p[others[0]], p[others[1]] = prm[0], prm[1]
        rest = (prm[2],)
    else:
        p = np.array(prm[:3])
        rest = (prm[3],)
    axis = m @ np.eye(3)[k]
    j = AXES[tuple(abs(float(x)) for x in axis)]
    q = o + m @ p
    if typ.startswith('CYL'):
        oj = [i for i in range(3) if i != j]
        return ('CYL' + 'XYZ'[j], (float(q[oj[0]]) + 0.0,
                                   float(q[oj[1]]) + 0.0, *rest))
    return ('CONE' + 'XYZ'[j], (*(float(x) + 0.0 for x in q), *rest))




def moved_parts(s, trcl):
    '''(descriptor classes, sides) of the sub-surfaces of the copy of card
    `s` made for a cell with TRCL=(trcl).  Facets of a macrobody move as
    planes and keep their sides; the plane of a one-sheet cone is made anew
    from the moved cone: normal to its axis through the apex, the kept sheet
    on its positive side when the sheet points along the positive axis.'''
    forms = [FORM_OF_CLASS[c] for c in [s['cls']] + list(s['aux'])]
    sides = list(s.get('sides') or [True] * len(forms))
    tr = tr_spec(trcl)
    moved = [moved_form(f, tr) for f in forms]
    if s['text'].startswith('kz') and len(forms) == 2:
        sheet = 1.0 if sides[1] is False else -1.0
        axis = tr[1] @ np.array([0.0, 0.0, 1.0])
        j = AXES[tuple(abs(float(x)) for x in axis)]
        sheet *= float(axis[j])
        moved[1] = ('PLANE' + 'XYZ'[j], (moved[0][1][j],))
        sides[1] = sheet < 0
    return [CLASS_OF[f] for f in moved], sides


def moved_cls(cls, trcl):
    '''Descriptor class of the copy of a single-part pool surface of class
    `cls` made for a cell with TRCL=(trcl).'''
    form = FORM_OF_CLASS.get(cls)
    if form is None:
        return 0
    return CLASS_OF[moved_form(form, tr_spec(trcl))]

# cards with several sub-surfaces: spelling, MCNP parts, canonical TRIPOLI-4
# forms of the sub-surfaces in collection order, and their sides (True = the
# MCNP negative sense lies on the negative side of the TRIPOLI-4 surface);
# written from the geometry of the bodies
def _px(a): return ('PLANEX', (float(a),))
def _py(a): return ('PLANEY', (float(a),))
def _pz(a): return ('PLANEZ', (float(a),))


_KZ = ('CONEZ', (0.0, 0.0, 0.0, 45.0))
MULTI = [
    ('kz 0 1 1', 1, [_KZ, _pz(0)], [True, False]),     # sheet z > 0
    ('kz 0 1 -1', 1, [_KZ, _pz(0)], [True, True]),     # sheet z < 0
    ('rpp -11 12 -13 14 -15 16', 6,
     [_px(12), _px(-11), _py(14), _py(-13), _pz(16), _pz(-15)],
     [True, False] * 3),
    ('rpp -11 12 -13 3 -2 16', 6,        # two facets are pool planes
     [_px(12), _px(-11), _py(3), _py(-13), _pz(16), _pz(-2)],
     [True, False] * 3),
    ('rcc 0 0 -20 0 0 40 9.5', 3,
     [('CYLZ', (0.0, 0.0, 9.5)), _pz(20), _pz(-20)], [True, True, False]),
    ('box -30 -30 -30 60 0 0 0 60 0 0 0 60', 6,
     [_px(30), _px(-30), _py(30), _py(-30), _pz(30), _pz(-30)],
     [True, False] * 3),
]
for _form in [f for _l, f, _s in POOL] + [f for m in MULTI for f in m[2]]:
    CLASS_OF.setdefault(_form, len(CLASS_OF) + 1)
for _form in list(CLASS_OF):
    for _sh in SHIFTS:
        _mv = moved_form(_form, tr_spec(_sh))
        CLASS_OF.setdefault(_mv, len(CLASS_OF) + 1)
        if _mv[0].startswith('CONE'):      # plane of a one-sheet cone
            _j = 'XYZ'.index(_mv[0][-1])
            CLASS_OF.setdefault(('PLANE' + 'XYZ'[_j], (_mv[1][_j],)),
                                len(CLASS_OF) + 1)
assert len(CLASS_OF) < FRESH0
FORM_OF_CLASS = {v: k for k, v in CLASS_OF.items()}
WEIRD_FLAGS = ['**', '*+', '+*', '++', '***']


def card_semantics(spelling):
    toks = spelling.split()
    return toks[0], [float(x) for x in toks[1:]]


def pool_pick(rng, idx=None):
    idx = rng.randrange(len(POOL)) if idx is None else idx
    locus, form, spellings = POOL[idx]
    return {'pool': idx, 'locus': locus, 'cls': CLASS_OF[form],
            'text': rng.choice(spellings), 'mcnp': 1, 'aux': [],
            'single': True}


# ---- generation -----------------------------------------------------------

def gen_deck(rng, malformed=False):
    '''Abstract deck inside the model's scope.'''
    n = rng.randint(2, 7)
    # numbers up to 999, so that 1000 * cell + surface needs all three digits
    ids = rng.sample(list(range(1, 40)) + [105, 240, 999], n + 8)
    surfs = []
    for k in range(n):
        s = pool_pick(rng)
        s['id'] = ids[k]
        s['flag'] = ''
        surfs.append(s)
    n_flag = rng.choice([0, 1, 1, 2, 2, 3, 4])
    flagged = rng.sample(surfs, min(n_flag, len(surfs)))
    for s in flagged:
        s['flag'] = rng.choice('*+')
    # duplicates of flagged (and sometimes other) surfaces
    extra = ids[n:]
    rng.shuffle(extra)
    for s in list(surfs):
        p = 0.55 if s['flag'] else 0.15
        while rng.random() < p and extra:
            d = pool_pick(rng, s['pool'])
            d['id'] = extra.pop()
            d['flag'] = rng.choice(['', '', s['flag'], '*', '+']) \
                if s['flag'] else ''
            surfs.append(d)
            p *= 0.4
    def multi(flag):
        text, parts, forms, sides = rng.choice(MULTI)
        return {'pool': None, 'locus': None, 'text': text, 'mcnp': parts,
                'flag': flag, 'single': False, 'sides': sides,
                'cls': CLASS_OF[forms[0]],
                'aux': [CLASS_OF[f] for f in forms[1:]]}
    if rng.random() < 0.4 and extra:
        m = multi('')
        m['id'] = extra.pop()
        surfs.append(m)
    fault = None
    if malformed:
        fault = rng.choice(['macro', 'macro', 'weird', 'weird', 'dupnum',
                            'missing', 'nocell', 'allempty', 'cone1'])
        if fault == 'macro' and extra:
            m = multi(rng.choice('*+'))
            while m['mcnp'] == 1:
                m = multi(m['flag'])
            m['id'] = extra.pop()
            surfs.append(m)
        elif fault == 'cone1' and extra:
            m = multi(rng.choice('*+'))
            while m['mcnp'] != 1:
                m = multi(m['flag'])
            m['id'] = extra.pop()
            surfs.append(m)
        elif fault == 'weird':
            rng.choice(surfs)['flag'] = rng.choice(WEIRD_FLAGS)
        elif fault == 'dupnum':
            d = pool_pick(rng)
            d['id'] = rng.choice(surfs)['id']
            d['flag'] = rng.choice(['', '*', '+'])
            surfs.append(d)
    rng.shuffle(surfs)
    if rng.random() < 0.15:
        rng.choice(surfs)['zeros'] = True
    # cells: intersections of signed single-part surfaces
    singles = [s for s in surfs if s['single']]
    last = {}
    for s in surfs:                 # what the dictionary ends up holding
        last[s['id']] = s
    usable = sorted({s['id'] for s in singles if last[s['id']]['single']})
    cells = []
    n_cells = rng.randint(1, 4)
    # collections (one-sheet cones, macrobodies): negative literals (an
    # intersection of the sub-surfaces) and positive ones (a UNION volume)
    bodies = sorted(k for k, s in last.items() if not s['single'])
    for c in range(n_cells):
        k = rng.randint(1, min(4, len(usable)))
        lits = [sid if rng.random() < 0.5 else -sid
                for sid in rng.sample(usable, k)]
        if bodies and rng.random() < 0.5:
            body = rng.choice(bodies)
            lits.insert(rng.randrange(len(lits) + 1),
                        body if rng.random() < 0.35 else -body)
        cells.append({'id': c + 1, 'lits': lits, 'imp': 1})
    if rng.random() < 0.12:         # the same surface with both senses
        c = rng.choice(cells)
        if abs(c['lits'][0]) in usable:
            c['lits'].append(-c['lits'][0])
    if fault == 'missing':
        rng.choice(cells)['lits'].append(rng.choice([77, -78]))
    elif fault == 'nocell':
        for c in cells:
            c['imp'] = 0
    elif fault == 'allempty':
        # every converted cell uses two duplicates with opposite senses
        a = pool_pick(rng, 0)
        b = pool_pick(rng, 0)
        a['id'], b['id'] = 41, 42
        a['flag'], b['flag'] = rng.choice(['', '*']), rng.choice(['', '+'])
        surfs.extend([a, b])
        for c in cells:
            c['lits'] = [41, -42] + [x for x in c['lits']
                                    if abs(x) in usable][:1]
    cells.append({'id': n_cells + 1, 'lits': [usable[0]], 'imp': 0})
    if rng.random() < 0.35:         # TRCL on some cells (also on the skipped one)
        for c in cells:
            if rng.random() < 0.5:
                c['trcl'] = rng.choice(SHIFTS)
    # MCNP's 1000 * cell + surface: the surface as moved by the TRCL of that
    # cell, named by a cell without TRCL (one or two per deck, kept only when
    # Python's set order is the ascending one the model assumes)
    owners = [c for c in cells if c.get('trcl')]
    hosts = [c for c in cells if not c.get('trcl')]
    if hosts and fault in (None, 'macro', 'weird', 'dupnum') \
            and rng.random() < (0.45 if owners else 0.04):
        names = set()
        badref = False
        for _ in range(rng.choice([1, 1, 2, 3])):
            roll = rng.random()
            owner = rng.choice(owners) if owners and roll < 0.9 else \
                rng.choice(cells + [{'id': 8}])      # no TRCL / no such cell
            sid = rng.choice(usable + bodies) if rng.random() < 0.93 else 79
            n = 1000 * owner['id'] + sid
            if n in names:
                continue
            names.add(n)
            badref = badref or sid == 79 or owner['id'] == 8
            lit = -n if rng.random() < (0.7 if sid in bodies else 0.5) else n
            rng.choice(hosts)['lits'].append(lit)
        if badref and fault is None:
            fault = 'missing'       # names a surface / a cell that does not exist
        elif badref:
            return gen_deck(rng, malformed)
    return {'surfs': surfs, 'cells': cells, 'fault': fault}


def surf_name(s):
    num = f'{s["id"]:03d}' if s.get('zeros') else str(s['id'])
    return s['flag'] + num


def render(deck):
    lines = ['C16 generated deck']
    for c in deck['cells']:
        expr = c.get('expr') or ' '.join(str(x) for x in c['lits'])
        opts = f' imp:n={c["imp"]}'
        if c.get('trcl'):
            opts += f' trcl=({c["trcl"]})'
        opts += c.get('opts', '')
        lines.append(f'{c["id"]} 0 {expr}{opts}')
    lines.append('')
    for s in deck['surfs']:
        tr = f' {s["tr"]}' if s.get('tr') else ''
        lines.append(f'{surf_name(s)}{tr} {s["text"]}')
    lines.append('')
    for num, vec in deck.get('trs', {}).items():
        lines.append(f'tr{num} ' + ' '.join(str(x) for x in vec))
    if deck.get('trs'):
        lines.append('')
    return '\n'.join(lines) + '\n'


# ---- implementation side ---------------------------------------------------

EXC = {'NotImplementedError': 'ENotImplemented',
       'UnboundLocalError': 'EUnbound', 'KeyError': 'EKey',

       'ValueError': 'EValue'}
KIND = {'REFLECTION': 'Reflection', 'COSINUS': 'Cosinus'}


def observe(deck, args):
    '''Run the converter; returns (conv, t4 or None, coq term of the result).'''
    conv = impl.convert(render(deck), args, keep_stdout=False)
    if not conv.ok:
        return conv, None, f'(Err {EXC.get(conv.exc, "EOther")})'
    t4 = impl.T4File(conv.text)
    surf = []
    for sid in t4.surf_order:
        typ, prm, tr = t4.surfaces[sid]
        cls = CLASS_OF.get((typ, tuple(prm)), 999999) if tr is None else 999998
        surf.append(cpair(cn(sid), cn(cls)))
    if any(k not in KIND for k, _ in t4.boundary) or t4.errors:
        return conv, t4, '(Err EOther)'
    bcs = [cpair(KIND[k], cn(sid)) for k, sid in t4.boundary]
    return conv, t4, f'(Ok ({clist(surf)}, {clist(bcs)}))'


def walk_order(deck):
    '''The order in which the converter walks the implicit surfaces: it builds
    set(numbers >= 1000 named by the cells, in card and literal order) minus
    set(surface cards) and iterates over it; the same expression is evaluated
    here, so the model is fed the order CPython really uses.'''
    named = [abs(x) for c in deck['cells'] for x in c['lits']
             if abs(x) >= 1000]
    cards = {}
    for s in deck['surfs']:
        cards[s['id']] = s
    return list(set(named) - set(cards))


def coq_cards(deck):
    return clist(f'(mkS {cstr(surf_name(s))} {cnat(s["mcnp"])} {cn(s["cls"])} '
                 f'{clist(cn(a) for a in s["aux"])} '
                 f'{clist(cbool(b) for b in s.get("sides", []))})'
                 for s in deck['surfs'])


def coq_cells(deck):
    '''Every cell card as a Model.tcell: converted or skipped (importance
    0), with TRCL or not; each literal of a TRCL cell carries the descriptor
    class of the translated copy of the surface it names.'''
    last = effective_surfs(deck)
    out = []
    for c in deck['cells']:
        lits = []
        for x in c['lits']:
            cls, aux, sides = 0, [], []
            s = last.get(abs(x))
            if c.get('trcl') and s is not None:
                (cls, *aux), sides = moved_parts(s, c['trcl'])
            lits.append(f'(mkL {cz(x)} {cn(cls)} {clist(cn(a) for a in aux)} '
                        f'{clist(cbool(b) for b in sides)})')
        impl_ = []
        if c.get('trcl'):
            for n in sorted(k for k, v in last.items()
                            if v.get('moved') and k // 1000 == c['id']):
                v = last[n]
                impl_.append(cpair(
                    cn(n % 1000),
                    f'(mkD {cn(v["cls"])} {clist(cn(a) for a in v["aux"])} '
                    f'{clist(cbool(b) for b in v["sides"])})'))
        out.append(f'(mkC {cn(c["id"])} {cbool(c["imp"] != 0)} '
                   f'{cbool(bool(c.get("trcl")))} {clist(lits)} '
                   f'{clist(impl_)})')
    return clist(out)


# ---- independent oracle ----------------------------------------------------

def sample_points(rng, n=48, half=10.0):
    return [tuple(rng.uniform(-half, half) for _ in range(3)) for _ in range(n)]


def mcnp_value(deck, s, p, shift=None):
    mn, prm = card_semantics(s['text'])
    if shift is not None:     # the surface as moved by a cell's TRCL / FILL
        tr = {'O': list(shift[:3]),
              'B': list(shift[3:12]) if len(shift) > 3 else None}
        p = tuple(mcnpref.to_aux(tr, p))
    if s.get('moved'):        # an implicit surface 1000 * cell + surface
        v = [float(x) for x in s['moved'].split()]
        p = tuple(mcnpref.to_aux({'O': v[:3],
                                  'B': v[3:12] if len(v) > 3 else None}, p))
    if s.get('tr'):
        vec = [float(x) for x in deck['trs'][s['tr']]]
        p = tuple(mcnpref.to_aux({'O': vec[:3],
                                  'B': vec[3:12] if len(vec) > 3 else None}, p))
    if (mn in ('kx', 'ky', 'kz') and len(prm) == 3) or \
            (mn in ('k/x', 'k/y', 'k/z') and len(prm) == 5):
        prm = prm[:-1]       # one-sheet cone: the written cone has both sheets
    if mn == 'sph':
        mn = 's'
    return mcnpref.surface_value(mn, prm, p)


def same_locus(deck, s, t4, sid, points, shift=None):
    '''Sign patterns agree or are opposite on every sample point.'''
    same = opposite = True
    for p in points:
        a = mcnp_value(deck, s, p, shift)
        b = t4eval.surf_value(t4, sid, p)
        if abs(a) < 1e-6 or abs(b) < 1e-6:
            continue
        if (a > 0) == (b > 0):
            opposite = False
        else:
            same = False
    return same or opposite


def cell_refs(deck, c, seen=()):
    if 'refs' in c:
        out = set(c['refs'])
        for other in c.get('compl', []):
            if other not in seen:
                oc = next(x for x in deck['cells'] if x['id'] == other)
                out |= cell_refs(deck, oc, seen + (c['id'],))
        return out
    return {abs(x) for x in c['lits']}


def effective_surfs(deck):
    '''What each surface number finally denotes: a later card with the same
    number replaces an earlier one; a number n >= 1000 named by a cell and
    not a card is surface n % 1000 as moved by the TRCL of cell n // 1000
    (it inherits the flag).'''
    last = {}
    for s in deck['surfs']:
        last[s['id']] = s
    cells = {c['id']: c for c in deck['cells']}
    for c in deck['cells']:
        for x in c.get('lits') or []:
            n = abs(x)
            base, owner = last.get(n % 1000), cells.get(n // 1000)
            if n < 1000 or n in last or base is None or owner is None:
                continue
            if not owner.get('trcl'):     # no TRCL: an untransformed copy
                last[n] = dict(base, id=n, implicit=True, zeros=False)
                continue
            (cls, *aux), sides = moved_parts(base, owner['trcl'])
            last[n] = dict(base, id=n, cls=cls, aux=aux, sides=list(sides),
                           moved=owner['trcl'], implicit=True, zeros=False)
    return last


def oracle(deck, args, conv, t4, rng):
    '''Property check on the written file. Returns a list of (cls, message).'''
    dedup = '--skip-deduplication' not in args
    skip_bc = '--skip-boundary-conditions' in args
    last = effective_surfs(deck)
    flagged = {k: s for k, s in last.items() if s['flag']}
    good_flags = all(s['flag'] in ('*', '+') for s in flagged.values())
    macro_flagged = [s for s in flagged.values() if s['mcnp'] > 1]
    out = []
    if not conv.ok:
        if conv.exc == 'NotImplementedError' and macro_flagged:
            return out          # the fault the property wants rejected
        if deck.get('fault') in ('missing', 'nocell', 'allempty', 'weird') \
                or not good_flags:
            return out          # not a valid deck: any loud stop is fine
        if conv.exc == 'ValueError' and all('lits' in c for c in deck['cells']) \
                and not written_possible(deck, dedup):
            return out
        if conv.exc == 'ValueError' and 'lits' not in deck['cells'][0] \
                and 'iterable argument is empty' in conv.msg:
            return out          # sweep-only stream: every written volume was
            # removed as patently empty (duplicate planes with opposite senses)
        if conv.exc == 'ValueError' and dedup and 'conflicting' in conv.msg \
                and conflicting_loci(deck, last):
            return out          # coincident surfaces (cards or TRCL/FILL
            # copies) flagged * and +: the converter refuses to merge them
        out.append((None, f'valid deck rejected: {conv.exc}: {conv.msg[:120]}'))
        return out
    if t4.errors:
        out.append((None, f'unreadable output: {t4.errors[:2]}'))
        return out
    if skip_bc:
        if t4.boundary or t4.n_boundary is not None:
            out.append((None, 'boundary block written under '
                        '--skip-boundary-conditions'))
        return out
    if macro_flagged:
        out.append((None, 'flag on a macrobody accepted: surface '
                    f'{macro_flagged[0]["id"]}'))
        return out
    if not good_flags:
        return out              # not MCNP: nothing is promised
    if t4.boundary and t4.n_boundary != len(t4.boundary):
        out.append((None, f'block declares {t4.n_boundary} entries, has '
                    f'{len(t4.boundary)}'))
    points = sample_points(rng)
    written_cells = {vid for vid, v in t4.volumes.items() if not v['fictive']}
    for v in t4.volumes.values():       # "(universe cell, container)" of a
        if not v['fictive']:            # volume made by developing a FILL
            written_cells.update(int(x) for x in
                                 re.findall(r'\d+', v.get('comment') or ''))
    users = {}
    for c in deck['cells']:
        if c['imp'] == 0:
            continue
        for k in cell_refs(deck, c):
            users.setdefault(k, []).append(c)
    designated = [sid for _, sid in t4.boundary]
    for sid in sorted(set(designated)):
        if designated.count(sid) > 1:
            out.append((None, f'{designated.count(sid)} entries designate '
                        f'surface {sid}'))
    covered = set()
    for kind, sid in t4.boundary:
        if kind not in KIND:
            out.append((None, f'unknown boundary kind {kind}'))
            continue
        want = '*' if kind == 'REFLECTION' else '+'
        if sid not in t4.surfaces:
            out.append((None,
                        f'ALL_COMPLETE {kind} {sid}: no SURF {sid} in the '
                        'written geometry'))
            continue
        # the loci a flagged surface takes: its own, and the one moved by the
        # TRCL / FILL translation of each cell naming it (under
        # de-duplication also of a skipped cell: its copy may be the
        # duplicate that brings the flag to a written surface)
        cand = [(k, None) for k, s in flagged.items() if s['flag'] == want]
        for c in deck['cells']:
            shift = trcl_shift(c)
            if shift and (dedup or c['imp'] != 0):
                cand += [(k, tuple(shift)) for k in cell_refs(deck, c)
                         if k in flagged and flagged[k]['flag'] == want]
        match = [(k, sh) for k, sh in dict.fromkeys(cand)
                 if same_locus(deck, flagged[k], t4, sid, points, sh)]
        if not match:
            out.append((None, f'ALL_COMPLETE {kind} {sid}: SURF {sid} '
                        f'({t4.surfaces[sid][0]}) is not the locus of any '
                        f'surface flagged {want}'))
        card = last.get(sid)
        if match and card is not None and card['flag'] != want \
                and not (dedup and any(k > sid or sh is not None
                                       for k, sh in match)):
            # the designated number is a card of the deck that is not flagged
            # this way; only the merge of a larger-numbered flagged duplicate
            # (a card, or the copy made for a TRCL / FILL) justifies the entry
            out.append((None, f'ALL_COMPLETE {kind} {sid}: surface {sid} is '
                        f'not flagged {want} (only a coincident surface is)'))
        covered.update(match)
    for k, s in flagged.items():
        for c in users.get(k, []):
            if c['id'] not in written_cells:
                continue
            sh = trcl_shift(c)
            if (k, tuple(sh) if sh else None) in covered:
                continue
            out.append((None, f'flagged surface {s["flag"]}{k} bounds written '
                        f'cell {c["id"]} but no entry of its kind designates '
                        'a surface with its locus'
                        + (f' (moved by {sh})' if sh else '')))
            break
    return out


def written_possible(deck, dedup):
    '''False when no converted cell can survive (the run then stops on an
    empty max()): no cell with non-zero importance, or every one has two
    coincident sub-surfaces (the same one when de-duplication is off) with
    opposite senses.'''
    last = effective_surfs(deck)
    for c in deck['cells']:
        if c['imp'] == 0 or 'lits' not in c:
            continue
        pos, neg = set(), set()
        for n, x in enumerate(c['lits']):
            s = last.get(abs(x))
            if s is None:
                continue
            if c.get('trcl'):
                classes, sides = moved_parts(s, c['trcl'])
                names = [('copy', n, i) for i in range(len(classes))]
            else:
                classes = [s['cls']] + list(s['aux'])
                sides = list(s.get('sides') or [True] * len(classes))
                names = [('card', abs(x), i) for i in range(len(classes))]
            if x > 0 and len(classes) > 1:
                continue        # a UNION volume: not in the cell's equation
            for cls, side, name in zip(classes, sides, names):
                positive = (x > 0) == side
                (pos if positive else neg).add(cls if dedup else name)
        if not pos & neg:
            return True
    return False


def conflicting_loci(deck, last):
    '''Two coincident loci carrying different proper flags: flagged single
    cards and the copies made for converted cells with a TRCL / placed by a
    FILL with a translation (compared numerically on sample points).'''
    loci = []
    for s in last.values():
        if s['flag'] in ('*', '+') and s['mcnp'] == 1:
            loci.append((s, None))
    for c in deck['cells']:
        shift = trcl_shift(c)
        if shift is None:
            continue        # skipped cells included: their copies are merged
        for k in cell_refs(deck, c):    # with coincident surfaces all the same
            s = last.get(k)
            if s is not None and s['flag'] in ('*', '+') and s['mcnp'] == 1:
                loci.append((s, shift))
    points = sample_points(random.Random(4242), n=64)

    def coincide(a, b):
        same = opposite = True
        for p in points:
            va = mcnp_value(deck, a[0], p, a[1])
            vb = mcnp_value(deck, b[0], p, b[1])
            if abs(va) < 1e-6 or abs(vb) < 1e-6:
                continue
            if (va > 0) == (vb > 0):
                opposite = False
            else:
                same = False
        return same or opposite
    return any(a[0]['flag'] != b[0]['flag'] and coincide(a, b)
               for i, a in enumerate(loci) for b in loci[i + 1:])


def trcl_shift(c):
    '''Translation applied to the surfaces of the cell: its TRCL, or the
    transformation of the FILL that places its universe.'''
    text = c.get('trcl') or c.get('fillshift')
    return [float(x) for x in text.split()] if text else None


# ---- decks that failed before the repair of writeT4BoundCond ---------------

def witness(kind):
    px0 = lambda i, f: {'id': i, 'flag': f, 'text': 'px 0', 'mcnp': 1,
                        'cls': CLASS_OF[('PLANEX', (0.0,))], 'aux': [],
                        'single': True, 'locus': 'x0'}
    other = lambda i, f, t, form: {'id': i, 'flag': f, 'text': t, 'mcnp': 1,
                                   'cls': CLASS_OF[form], 'aux': [],
                                   'single': True, 'locus': t}
    base = [other(1, '', 'px 5', ('PLANEX', (5.0,))),
            other(4, '', 'py 3', ('PLANEY', (3.0,)))]
    if kind == 'dedup':
        surfs = base + [px0(2, '*'), px0(3, '*')]
        cells = [{'id': 1, 'lits': [-1, 3, -4], 'imp': 1}]
    elif kind == 'unused':
        surfs = base + [px0(2, ''), other(5, '*', 'py 7', ('PLANEY', (7.0,)))]
        cells = [{'id': 1, 'lits': [-1, 2, -4], 'imp': 1}]
    elif kind == 'trcl':
        surfs = base + [px0(2, '*')]
        cells = [{'id': 1, 'lits': [-1, 2, -4], 'imp': 1, 'trcl': '1 0 0'}]
    elif kind == 'fill':
        so2 = {'id': 4, 'flag': '*', 'text': 'so 2', 'mcnp': 1, 'cls': 900,
               'aux': [], 'single': True, 'locus': 'so2'}
        surfs = [other(1, '', 'px 5', ('PLANEX', (5.0,))), px0(2, ''),
                 other(3, '', 'py 3', ('PLANEY', (3.0,))), so2]
        ucell = lambda i, e: {'id': i, 'imp': 1, 'expr': e, 'refs': [4],
                              'opts': ' u=1', 'fillshift': '1 0 0'}
        cells = [{'id': 1, 'imp': 1, 'expr': '-1 2 -3', 'refs': [1, 2, 3],
                  'opts': ' fill=1 (1 0 0)'}, ucell(2, '-4'), ucell(3, '4'),
                 {'id': 5, 'imp': 0, 'expr': '1', 'refs': [1]}]
        return {'surfs': surfs, 'cells': cells, 'trs': {}, 'fault': None,
                'feature': 'fill'}
    elif kind == 'trclskipped':
        surfs = base + [px0(2, '*')]
        cells = [{'id': 1, 'lits': [-1, 2, -4], 'imp': 1},
                 {'id': 3, 'lits': [-2], 'imp': 0, 'trcl': '1 0 0'}]
    else:
        surfs = base + [px0(2, '*')]
        cells = [{'id': 1, 'lits': [-1, 2, -4], 'imp': 1, 'trcl': '0 0 0'},
                 {'id': 3, 'lits': [-1, -2], 'imp': 1}]
    cells.append({'id': 2, 'lits': [1], 'imp': 0})
    return {'surfs': surfs, 'cells': cells, 'fault': None}


WITNESSES = [('bc_on_deduplicated_surface', 'dedup'),
             ('bc_on_unused_surface', 'unused'),
             ('bc_on_trcl_original_surface', 'trcl'),
             ('bc_on_deduplicated_trcl_copy', 'trclcopy'),
             ('bc_on_unused_trcl_copy', 'trclskipped'),
             ('bc_on_fill_original_surface', 'fill'),
             ('bc_on_deduplicated_fill_copy', 'fill')]


def corpus_decks():
    '''Minimised decks kept from earlier disagreements / mutation runs: each
    pins one corner of the model.'''
    def card(i, flag, idx, text=None, **kw):
        locus, form, spellings = POOL[idx]
        d = {'id': i, 'flag': flag, 'text': text or spellings[0], 'mcnp': 1,
             'cls': CLASS_OF[form], 'aux': [], 'single': True, 'locus': locus,
             'pool': idx}
        d.update(kw)
        return d

    def deck(surfs, cells):
        return {'surfs': surfs, 'cells': cells, 'fault': None}
    skip = {'id': 9, 'lits': [1], 'imp': 0}
    out = []
    # representative is the smallest NUMBER, not the first card (m3)
    out.append((deck([card(7, '*', 0), card(3, '', 0, 'p 1 0 0 0'),
                      card(1, '', 2)],
                     [{'id': 1, 'lits': [7, -1], 'imp': 1}, skip]), []))
    # a later card with the same number replaces the earlier one in place (m7)
    out.append((deck([card(5, '*', 3), card(1, '', 2), card(5, '+', 8)],
                     [{'id': 1, 'lits': [-5, -1], 'imp': 1}, skip]), []))
    # TRCL moving a flagged plane onto another card: copy merged into it
    out.append((deck([card(1, '', 2), card(2, '+', 0), card(4, '', 3)],
                     [{'id': 1, 'lits': [2, -4], 'imp': 1, 'trcl': '5 0 0'},
                      {'id': 2, 'lits': [-1, 4], 'imp': 1}, skip]), []))
    # the same surface twice in a TRCL cell: two copies, the cell is empty
    # under de-duplication only
    for args in ([], ['--skip-deduplication']):
        out.append((deck([card(1, '*', 0), card(2, '', 3)],
                         [{'id': 1, 'lits': [1, -1], 'imp': 1,
                           'trcl': '0 0 0'},
                          {'id': 2, 'lits': [-1, 2], 'imp': 1}, skip]), args))
    # 1000 * cell + surface with a three-digit surface number (m16), the owner
    # with a rotation, the flagged original unused
    out.append((deck([card(1, '', 2), card(105, '*', 0), card(4, '', 3)],
                     [{'id': 2, 'lits': [-1], 'imp': 1,
                       'trcl': '0 3 0 0 1 0 -1 0 0 0 0 1'},
                      {'id': 3, 'lits': [2105, -4, -1], 'imp': 1}, skip]), []))
    # a one-sheet cone inside a cell: the plane of the sheet is merged into a
    # card, the entry stays on the cone; and its copy under a quarter turn
    # (the plane of the copy changes side)
    cone_lo = {'id': 6, 'flag': '*', 'text': 'kz 0 1 -1', 'mcnp': 1,
               'cls': CLASS_OF[_KZ], 'aux': [CLASS_OF[_pz(0)]],
               'sides': [True, True], 'single': False, 'locus': None,
               'pool': None}
    for trcl in (None, '0 0 0 1 0 0 0 0 1 0 -1 0'):
        cell = {'id': 1, 'lits': [-6, -7, -1], 'imp': 1}
        if trcl:
            cell['trcl'] = trcl
        out.append((deck([card(1, '', 8), dict(cone_lo), card(7, '', 7)],
                         [cell, skip]), []))
    # positive literals of collections (UNION volumes); with de-duplication
    # the second cell dies and leaves the FICTIVE arguments of its UNIONs
    rcc = {'id': 3, 'flag': '', 'text': MULTI[4][0], 'mcnp': MULTI[4][1],
           'cls': CLASS_OF[MULTI[4][2][0]],
           'aux': [CLASS_OF[f_] for f_ in MULTI[4][2][1:]],
           'sides': MULTI[4][3], 'single': False, 'locus': None, 'pool': None}
    cone_up = dict(cone_lo, id=2, text='kz 0 1 1', sides=[True, False])
    for args in ([], ['--skip-deduplication']):
        out.append((deck([card(1, '', 10), cone_up, dict(rcc), card(7, '', 7),
                          card(8, '', 10)],
                         [{'id': 1, 'lits': [-1, 7, 2], 'imp': 1},
                          {'id': 2, 'lits': [-1, 8, 3, 2], 'imp': 1},
                          {'id': 3, 'lits': [1], 'imp': 0}]), args))
    # a flagged macrobody: NotImplementedError
    body = {'id': 5, 'flag': '*', 'text': MULTI[2][0], 'mcnp': MULTI[2][1],
            'cls': CLASS_OF[MULTI[2][2][0]],
            'aux': [CLASS_OF[f_] for f_ in MULTI[2][2][1:]],
            'sides': MULTI[2][3], 'single': False, 'locus': None, 'pool': None}
    for args in ([], ['--skip-geomcomp'], ['--skip-compositions']):
        out.append((deck([card(1, '', 8), dict(body)],
                         [{'id': 1, 'lits': [-1], 'imp': 1}, skip]), args))
    # one-sheet cone (two TRIPOLI-4 parts) flagged, weird flag after a star
    cone = {'id': 6, 'flag': '+', 'text': 'kz 0 1 1', 'mcnp': 1,
            'cls': CLASS_OF[('CONEZ', (0.0, 0.0, 0.0, 45.0))],
            'aux': [CLASS_OF[('PLANEZ', (0.0,))]], 'single': False,
            'locus': None, 'pool': None}
    out.append((deck([card(1, '*', 7), cone, card(3, '**', 4)],
                     [{'id': 1, 'lits': [-1, 3], 'imp': 1}, skip]), []))
    return out


# ---- richer decks for the sweep (outside the model) ------------------------

# flagged surfaces of every mnemonic family, with and without a transformation
# (TR number on the card, TRCL on the cell, FILL with a transformation); the
# oracle needs no descriptor classes: loci are compared numerically
FAMILIES = [
    'p 1 2 -1 3', 'p 0 0 4 4 0 1 0 5 2', 'px 2', 'py -3', 'pz 1',
    'so 6', 's 1 -2 0.5 5', 'sx 2 4', 'sy -1 5', 'sz 3 6',
    'c/x 1 -1 3', 'c/y 0 2 4', 'c/z -2 1 3', 'cx 4', 'cy 3', 'cz 5',
    'k/x 1 0 -1 0.5', 'k/y 0 2 0 0.25', 'k/z 1 1 0 2', 'kx 1 0.5', 'ky -2 1',
    'kz 0 0.3', 'kx 1 0.5 1', 'ky -2 1 -1', 'k/z 1 1 0 2 -1', 'k/x 1 0 -1 0.5 1',
    'sq 1 2 3 0 0 0 -30 1 -1 0.5', 'sq 1 1 0 0 0 -2 -4 0 0 1',
    'sq 2 1 -1 0 0 0 -9 0 1 0',
    'gq 1 2 1.5 0.4 0 0.2 1 -2 0 -25', 'gq 1 1 -1 0 0.5 0 0 0 2 -6',
    'tx 0 0 0 5 1 2', 'ty 1 0 -1 4 1.5 1', 'tz 0 1 0 6 2 1',
    'x 1 2 4 2', 'y 3 1 3 4', 'z 1 2 5 2',
]
FAMILY_TRS = ['1 0 0', '0 2 -1', '0.5 0.5 -1',
              '0 3 0 0 1 0 -1 0 0 0 0 1', '1 -1 2 1 0 0 0 0 1 0 -1 0',
              '0 0 1 0 0 1 1 0 0 0 1 0']


def gen_family(rng):
    n = rng.randint(2, 4)
    texts = rng.sample(FAMILIES, n)
    ids = rng.sample(range(1, 60), n + 1)
    surfs = [{'id': ids[i], 'flag': '', 'text': texts[i], 'mcnp': 1,
              'cls': 2000 + FAMILIES.index(texts[i]), 'aux': [],
              'single': True, 'pool': None, 'locus': texts[i]}
             for i in range(n)]
    for s in rng.sample(surfs, rng.choice([1, 1, 2])):
        s['flag'] = rng.choice('*+')
    trs = {}
    mode = rng.choice(['tr', 'tr', 'trcl', 'trcl', 'fill', 'none'])
    flagged = [s for s in surfs if s['flag']]
    if mode == 'tr':
        trs[7] = [float(x) for x in rng.choice(FAMILY_TRS).split()]
        for s in flagged:
            s['tr'] = 7
        if rng.random() < 0.3:
            rng.choice(surfs)['tr'] = 7
    if mode == 'fill' and n >= 3:
        surfs.sort(key=lambda s: not s['flag'])     # split by a flagged one
        split, *rest = surfs
        shift = rng.choice(FAMILY_TRS)
        box = [s['id'] if rng.random() < 0.5 else -s['id'] for s in rest]

        def ucell(cid, lits):
            return {'id': cid, 'imp': 1, 'expr': ' '.join(map(str, lits)),
                    'refs': sorted({abs(x) for x in lits}), 'opts': ' u=1',
                    'fillshift': shift}
        cells = [{'id': 1, 'imp': 1, 'expr': ' '.join(map(str, box)),
                  'refs': sorted({abs(x) for x in box}),
                  'opts': f' fill=1 ({shift})'},
                 ucell(2, [-split['id']]), ucell(3, [split['id']]),
                 {'id': 4, 'imp': 0, 'expr': str(rest[0]['id']),
                  'refs': [rest[0]['id']]}]
        return {'surfs': surfs, 'cells': cells, 'trs': trs, 'fault': None,
                'feature': 'family-fill'}
    cells = []
    for c in range(rng.randint(1, 2)):
        lits = [s['id'] if rng.random() < 0.5 else -s['id'] for s in surfs]
        rng.shuffle(lits)
        cell = {'id': c + 1, 'imp': 1, 'expr': ' '.join(map(str, lits)),
                'refs': sorted({abs(x) for x in lits})}
        if mode == 'trcl':
            cell['trcl'] = rng.choice(FAMILY_TRS)
            cell['order'] = lits
        cells.append(cell)
    cells.append({'id': len(cells) + 1, 'imp': 0, 'expr': str(surfs[0]['id']),
                  'refs': [surfs[0]['id']]})
    return {'surfs': surfs, 'cells': cells, 'trs': trs, 'fault': None,
            'feature': 'family-' + mode}


def family_corpus():
    '''Fixed sweep-only decks: a flagged surface of a family the pool of the
    tie stream does not hold, moved by TR / TRCL / FILL (the flag has to
    travel through transformation() with the surface).'''
    def card(i, flag, text, tr=None):
        d = {'id': i, 'flag': flag, 'text': text, 'mcnp': 1,
             'cls': 2000 + FAMILIES.index(text), 'aux': [], 'single': True,
             'pool': None, 'locus': text}
        if tr:
            d['tr'] = tr
        return d

    def plain(surfs, trs, trcl=None):
        lits = [-s['id'] for s in surfs]
        cell = {'id': 1, 'imp': 1, 'expr': ' '.join(map(str, lits)),
                'refs': sorted(abs(x) for x in lits)}
        if trcl:
            cell['trcl'], cell['order'] = trcl, lits
        return {'surfs': surfs, 'trs': trs, 'fault': None, 'feature': 'corpus',
                'cells': [cell, {'id': 2, 'imp': 0, 'expr': str(surfs[0]['id']),
                                 'refs': [surfs[0]['id']]}]}
    rot = [float(x) for x in FAMILY_TRS[3].split()]
    out = [plain([card(5, '*', FAMILIES[26], 7), card(9, '', 'so 6')], {7: rot}),
           plain([card(5, '+', FAMILIES[27]), card(9, '', 'so 6')], {},
                 FAMILY_TRS[4]),
           plain([card(5, '*', FAMILIES[29], 7), card(9, '', 'so 6')],
                 {7: [1.0, 0.0, 0.0]}),
           plain([card(5, '+', FAMILIES[31], 7), card(9, '*', 'p 1 2 -1 3')],
                 {7: rot}),
           plain([card(5, '*', FAMILIES[22]), card(9, '', 'so 6')], {},
                 FAMILY_TRS[5])]
    shift = FAMILY_TRS[1]
    split, a, b = card(5, '*', FAMILIES[28]), card(9, '', 'so 6'), card(3, '', 'pz 1')
    ucell = lambda cid, lits: {'id': cid, 'imp': 1, 'opts': ' u=1',
                               'expr': ' '.join(map(str, lits)),
                               'refs': sorted({abs(x) for x in lits}),
                               'fillshift': shift}
    out.append({'surfs': [split, a, b], 'trs': {}, 'fault': None,
                'feature': 'corpus',
                'cells': [{'id': 1, 'imp': 1, 'expr': '-9 3', 'refs': [3, 9],
                           'opts': f' fill=1 ({shift})'},
                          ucell(2, [-5]), ucell(3, [5]),
                          {'id': 4, 'imp': 0, 'expr': '9', 'refs': [9]}]})
    return out


def gen_rich(rng):
    if rng.random() < 0.4:
        return gen_family(rng)
    n = rng.randint(3, 7)
    ids = rng.sample(range(1, 60), n + 6)
    surfs = []
    for k in range(n):
        s = pool_pick(rng)
        s['id'], s['flag'] = ids[k], ''
        surfs.append(s)
    # no two surfaces of the same locus: nothing is trivially empty
    seen, keep = set(), []
    for s in surfs:
        if s['locus'] not in seen:
            seen.add(s['locus'])
            keep.append(s)
    surfs = keep
    for s in rng.sample(surfs, min(len(surfs), rng.choice([1, 1, 2, 3, 4]))):
        s['flag'] = rng.choice('*+')
    trs = {}
    if rng.random() < 0.4:
        trs[3] = (rng.choice([1, -2, 0.5]), rng.choice([0, 1.5]), 0)
        s = rng.choice(surfs)
        s['tr'] = 3
    extra = ids[n:]
    feature = rng.choice(['union', 'compl', 'trcl', 'cone1', 'macro', 'dup',
                          'plain', 'fill'])
    if feature == 'fill' and len(surfs) >= 3:
        return gen_fill(rng, surfs, trs)
    if feature == 'cone1':
        surfs.append({'id': extra.pop(), 'flag': rng.choice(['*', '+', '']),
                      'text': 'kz 0 1 1', 'mcnp': 1, 'single': False,
                      'cls': CLASS_OF[('CONEZ', (0.0, 0.0, 0.0, 45.0))],
                      'aux': [], 'locus': 'kz1', 'pool': None})
    elif feature == 'macro':
        surfs.append({'id': extra.pop(), 'flag': '',
                      'text': rng.choice(['rpp -7 7 -7 7 -7 7',
                                          'rcc 0 0 -6 0 0 12 6.5']),
                      'mcnp': 6, 'single': False, 'cls': 0, 'aux': [],
                      'locus': 'macro', 'pool': None})
    elif feature == 'dup':
        for s in [x for x in surfs if x['flag']][:2]:
            d = pool_pick(rng, s['pool'])
            d['id'], d['flag'] = extra.pop(), rng.choice(['', s['flag']])
            if s.get('tr'):
                d['tr'] = s['tr']
            surfs.append(d)
    rng.shuffle(surfs)
    sids = [s['id'] for s in surfs]
    cells = []
    n_cells = rng.randint(1, 3)
    for c in range(n_cells):
        k = rng.randint(1, min(4, len(sids)))
        lits = [sid if rng.random() < 0.5 else -sid
                for sid in rng.sample(sids, k)]
        cell = {'id': c + 1, 'imp': 1,
                'refs': sorted({abs(x) for x in lits})}
        if feature == 'union' and len(lits) >= 2:
            cut = rng.randint(1, len(lits) - 1)
            cell['expr'] = (' '.join(map(str, lits[:cut])) + ' : '
                            + ' '.join(map(str, lits[cut:])))
        else:
            cell['expr'] = ' '.join(map(str, lits))
        if feature == 'compl' and c > 0:
            cell['expr'] += f' #{c}'
            cell['compl'] = [c]
        if feature == 'trcl' and rng.random() < 0.7:
            cell['trcl'] = rng.choice(['1 0 0', '0 2 0', '0 0 0'])
            cell['order'] = lits
        cells.append(cell)
    cells.append({'id': n_cells + 1, 'imp': 0, 'expr': str(sids[0]),
                  'refs': [sids[0]]})
    return {'surfs': surfs, 'cells': cells, 'trs': trs, 'fault': None,
            'feature': feature}


def gen_fill(rng, surfs, trs):
    '''A container cell filled with a universe of two cells split by one
    surface, the FILL with or without a translation.'''
    rng.shuffle(surfs)
    split, *rest = surfs
    if not any(s['flag'] for s in surfs) or rng.random() < 0.5:
        split['flag'] = rng.choice('*+')
    k = rng.randint(1, min(3, len(rest)))
    box = [s['id'] if rng.random() < 0.5 else -s['id'] for s in rest[:k]]
    shift = rng.choice([None, None, '1 0 0', '0 2 0', '0.5 0.5 -1'])
    fill = ' fill=1' + (f' ({shift})' if shift else '')
    extra = [s['id'] for s in rest[k:k + 1]]

    def ucell(cid, lits):
        c = {'id': cid, 'imp': 1, 'expr': ' '.join(map(str, lits)),
             'refs': sorted({abs(x) for x in lits}), 'opts': ' u=1'}
        if shift:
            c['fillshift'] = shift
        return c
    cells = [{'id': 1, 'imp': 1, 'expr': ' '.join(map(str, box)),
              'refs': sorted({abs(x) for x in box}), 'opts': fill},
             ucell(2, [-split['id']] + [-x for x in extra]),
             ucell(3, [split['id']]),
             {'id': 4, 'imp': 0, 'expr': str(rest[0]['id']),
              'refs': [rest[0]['id']]}]
    if extra and rng.random() < 0.5:
        cells.insert(3, ucell(5, [-split['id'], extra[0]]))
    return {'surfs': surfs, 'cells': cells, 'trs': trs, 'fault': None,
            'feature': 'fill'}


# ---- unit ties -------------------------------------------------------------

def tie_split(res, rng, n):
    try:
        from MIP.geom.surfaces import re_name
        re_name.match('*1').groups()
    except Exception:               # pylint: disable=broad-except
        # a module-level helper, not a function the anchors name: when a
        # rewrite removes it the split is still exercised through
        # get_surfaces by every conversion of tie:run
        res.extra.setdefault('skipped', []).append(
            'skipped: helper MIP.geom.surfaces.re_name not present '
            '(tie:split); the flag/number split is tied through tie:run')
        return
    cases, meta = [], []
    alphabet = '*+*+0123456789 a-'
    strings = ['', '*', '+', '*1', '+1', '1', '**12', '*+3', '1*', '1+2',
               '+*+*007', '* 1', 'a*1']
    while len(strings) < n:
        strings.append(''.join(rng.choice(alphabet)
                               for _ in range(rng.randint(0, 6))))
    for s in strings:
        g = re_name.match(s).groups()
        cases.append(cpair(cstr(s), cpair(cstr(g[0]), cstr(g[1]))))
        meta.append((s, g))
    bad, errs = common.run_case_files('c16_split', HEADER,
                                      'string * (string * string)',
                                      'check_split', cases)
    res.obligation(f'tie:split ({len(cases)} strings: re_name = split_flags)',
                   not bad and not errs, f'bad={bad[:5]} {errs[:1]}')
    for idx in bad[:5]:
        res.violation('correspondence',
                      f're_name and the model disagree on {meta[idx][0]!r}: '
                      f'{meta[idx][1]}',
                      {'input': {'string': meta[idx][0]},
                       'theorem_or_correspondence': 'tie:split'},
                      found_input=False)


def _mcnp_surface(flag):
    '''A real SurfaceMCNP made by its public constructor (a plane; only the
    boundary flag matters to the boundary-condition classes).'''
    from t4_geom_convert.Kernel.Surface.SurfaceMCNP import SurfaceMCNP
    from t4_geom_convert.Kernel.Surface.ESurfaceTypeMCNP import \
        ESurfaceTypeMCNP as MS
    return SurfaceMCNP(flag, MS.P, [1.0, 0.0, 0.0, 0.0], [])


def _kind_of(entry):
    '''The kind string of a CBoundCond-like value (class, namedtuple, ...).'''
    kind = getattr(entry, 'typeOfBound', None)
    if kind is None and isinstance(entry, (tuple, list)) and entry:
        kind = entry[0]
    return kind


def impl_kinds(pairs, parts=None):
    from collections import OrderedDict
    from t4_geom_convert.Kernel.BoundaryCondition.\
        CConversionBoundaryCondition import CConversionBoundaryCondition
    dic = OrderedDict()
    for i, (k, f) in enumerate(pairs):
        npart = parts[i] if parts else 1
        dic[k] = [(_mcnp_surface(f), 1) for _ in range(npart)]
    try:
        out = CConversionBoundaryCondition(dic).conversionBoundCond()
    except Exception as exc:      # pylint: disable=broad-except
        return ('err', EXC.get(type(exc).__name__, 'EOther'))
    return ('ok', [(_kind_of(v), k) for k, v in out.items()])


def tie_kinds(res, rng, n):
    cases, meta = [], []
    flags = ['*', '+', '*', '+', '**', '+*', '*+']
    for _ in range(n):
        m = rng.randint(0, 6)
        keys = rng.sample(range(1, 50), m)
        pairs = [(k, rng.choice(flags if rng.random() < 0.5 else '*+'))
                 for k in keys]
        got = impl_kinds(pairs)
        if got[0] == 'ok':
            term = '(Ok ' + clist(cpair(KIND[kd], cn(k))
                                  for kd, k in got[1]) + ')'
        else:
            term = f'(Err {got[1]})'
        cases.append(cpair(clist(cpair(cn(k), cstr(f)) for k, f in pairs),
                           term))
        meta.append((pairs, got))
        # oracle: with proper flags the kinds are the flags'
        if all(f in '*+' and len(f) == 1 for _, f in pairs):
            want = [('REFLECTION' if f == '*' else 'COSINUS', k)
                    for k, f in pairs]
            if got != ('ok', want):
                res.violation('impl-violation',
                              f'conversionBoundCond({pairs}) = {got}',
                              {'input': {'pairs': pairs}, 'expected': want,
                               'observed': got}, found_input=True)
    bad, errs = common.run_case_files(
        'c16_kinds', HEADER, 'list (N * string) * res (list (kind * N))',
        'check_kinds', cases)
    res.obligation(f'tie:kinds ({len(cases)} dictionaries: '
                   'conversionBoundCond = conv_kinds)', not bad and not errs,
                   f'bad={bad[:5]} {errs[:1]}')
    for idx in bad[:5]:
        res.violation('correspondence',
                      'conversionBoundCond and the model disagree on '
                      f'{meta[idx][0]}: {meta[idx][1]}',
                      {'input': {'pairs': meta[idx][0]},
                       'observed': meta[idx][1],
                       'theorem_or_correspondence': 'tie:kinds'},
                      found_input=False)


def tie_numbering(res, rng, n):
    from t4_geom_convert.Kernel.Surface.CollectionDict import CollectionDict
    lines = []
    meta = []
    for _ in range(n):
        m = rng.randint(1, 6)
        keys = rng.sample(range(1, 40), m)
        dic = CollectionDict()
        table = []
        cls = 0
        for k in keys:
            parts = rng.choice([1, 1, 1, 2, 3, 6])
            vals = []
            for _ in range(parts):
                cls += 1
                vals.append((cls, rng.choice([1, -1])))
            dic[k] = vals
            table.append((k, [c for c, _ in vals], [sd for _, sd in vals]))
        numbering, matching = dic.number_items()
        want = clist(cpair(cn(k), cn(c)) for k, c in numbering.items())
        wantm = clist(cpair(cn(k), clist(cz(i) for i in ids))
                      for k, ids in matching.items())
        tab = clist(cpair(cn(k), f'(mkE "" 1 {cn(cl[0])} '
                          f'{clist(cn(c) for c in cl[1:])} '
                          f'{clist(cbool(sd > 0) for sd in sides)})')
                    for k, cl, sides in table)
        lines.append(f'list_eqb (pair_eqb N.eqb N.eqb) (number_items {tab}) '
                     f'{want} && list_eqb (pair_eqb N.eqb (list_eqb Z.eqb)) '
                     f'(matching_of {tab}) {wantm}')
        meta.append(table)
    term = 'From T4V Require Import Base.Cases.\nImport ListNotations.\n'
    out, log = common.coq_eval(
        HEADER + term, 'bad_indices (fun b : bool => b) '
        + clist(lines))
    ok = out is not None and out.strip() in ('[]', 'nil')
    res.obligation(f'tie:numbering ({n} dictionaries: number_items = '
                   'number_items + matching_of)', ok,
                   f'{out} {log[-300:] if out is None else ""}')
    if not ok:
        res.violation('correspondence',
                      'CollectionDict.number_items and the model disagree: '
                      f'indices {out}',
                      {'input': {'tables': meta, 'bad': out},
                       'theorem_or_correspondence': 'tie:numbering'},
                      found_input=False)


# ---- run ---------------------------------------------------------------

def args_for(rng):
    '''An option set of main.conversion.  --skip-geomcomp and
    --skip-compositions select other sections of the output: they must not
    change the SURF lines or the BOUNDARY_CONDITION block (the model ignores
    them; the oracle expects the block all the same).'''
    args = []
    if rng.random() < 0.45:
        args.append('--skip-deduplication')
    if rng.random() < 0.06:
        args.append('--skip-boundary-conditions')
    if rng.random() < 0.22:
        args.append('--skip-geomcomp')
    if rng.random() < 0.15:
        args.append('--skip-compositions')
    return args


def report(res, deck, args, problems, where):
    for cls, msg in problems:
        res.violation('impl-violation', f'{msg} [{" ".join(args) or "default"}]',
                      {'input': {'deck': render(deck), 'args': args,
                                 'abstract': deck},
                       'observed': msg, 'where': where},
                      cls=cls, found_input=True)


def run(res, tier, seed, proofs_ok):
    rng = random.Random(seed)
    quick = tier == 'quick'
    n_valid = 500 if quick else 12000
    n_bad = 260 if quick else 5000
    n_rich = 320 if quick else 6000
    res.rule = ('abstract decks: 2-7 surfaces from a pool of 14 descriptor '
                'classes in 36 spellings, 0-4 flagged * or +, duplicates of '
                'flagged surfaces (smaller and larger numbers, same or other '
                'spelling, flagged or not), optional macrobody / one-sheet '
                'cone, 1-4 cells that are intersections, 35 % of the decks with '
                'TRCL transformations (4 translations, two of them moving a pool '
                'surface onto another one, one the identity, and 2 quarter-turn rotations) on about half of '
                'their cells incl. the importance-0 cell, with and without '
                '--skip-deduplication and --skip-boundary-conditions; '
                'malformed stream: flagged macrobody, flags **,*+,..., '
                'repeated surface number, missing surface, no converted cell, '
                'all cells empty; sweep-only stream: unions, complements, '
                'TRCL, TR on surfaces, one-sheet cones and macrobodies in '
                'cells; non-trivial = at least one flagged surface; distinct '
                'by deck text + options')

    # ---- 1. the decks that failed before the repair (fix: 540bd39) ----
    for kind in dict.fromkeys(k for _was, k in WITNESSES):
        for args in ([], ['--skip-deduplication'], ['--skip-geomcomp'],
                     ['--skip-compositions', '--skip-geomcomp',
                      '--skip-deduplication']):
            deck = witness(kind)
            conv, t4, _ = observe(deck, args)
            probs = oracle(deck, args, conv, t4, random.Random(1))
            res.count('regression:' + kind + (':fails' if probs else ':passes'))
            report(res, deck, args, probs, 'regression deck ' + kind)

    # ---- 2. unit ties ----
    tie_split(res, rng, 120 if quick else 1200)
    tie_kinds(res, rng, 150 if quick else 1500)
    tie_numbering(res, rng, 60 if quick else 300)

    # ---- 3. deck-level tie + oracle on the same decks ----
    cases, meta = [], []
    inside = outside = 0
    corpus = [(witness(kind), args)
              for kind in ('dedup', 'unused', 'trcl', 'trclcopy', 'trclskipped')
              for args in ([], ['--skip-deduplication'])] + corpus_decks()
    cov, cov_absent, cov_upto = None, [], 150
    try:                            # information only: never raises
        import c16_cov
        cov_funcs, cov_absent = c16_cov.anchored_functions()
        cov = c16_cov.LineCov(cov_funcs)
        cov.__enter__()
    except Exception as exc:        # pylint: disable=broad-except
        cov, cov_absent = None, [f'coverage not started: {exc!r}'[:200]]
    for i in range(-len(corpus), n_valid + n_bad):
        if i == cov_upto and cov is not None:
            sys.settrace(None)      # pause: the sweep-only stream resumes it
        if i < 0:                   # fixed corpus first (not counted below)
            deck, args = corpus[i]
        else:
            deck = gen_deck(rng, malformed=i >= n_valid)
            args = args_for(rng)
        conv, t4, term = observe(deck, args)
        text = render(deck)
        n_flag = sum(1 for s in deck['surfs'] if s['flag'])
        res.seen((text, args), nontrivial=n_flag > 0)
        res.count(f'flagged:{min(n_flag, 5)}')
        res.count('fault:' + str(deck['fault']))
        res.count('shape:implicit-1000*cell+surf:' + str(any(
            abs(x) >= 1000 for c in deck['cells'] for x in c['lits'])))
        res.count('shape:trcl:' + str(any(c.get('trcl') for c in deck['cells'])))
        res.count('shape:collection-in-cell:' + str(any(
            not s['single'] and any(abs(x) % 1000 == s['id'] for c in deck['cells']
                                    for x in c['lits']) for s in deck['surfs'])))
        res.count('impl:' + (conv.exc or 'ok'))
        res.count('dedup:' + str('--skip-deduplication' not in args))
        res.count('options:' + (' '.join(sorted(a for a in args if a in (
            '--skip-geomcomp', '--skip-compositions'))) or 'none'))
        walk = walk_order(deck)
        if walk:
            res.count('shape:implicit-walk-ascending:'
                      + str(walk == sorted(walk)))
        cases.append(cpair(clist(cn(n) for n in walk),
                           cbool('--skip-deduplication' in args),
                           cbool('--skip-boundary-conditions' in args),
                           coq_cards(deck), coq_cells(deck), term))
        meta.append((deck, args, conv, term))
        probs = oracle(deck, args, conv, t4, random.Random(seed + i))
        if conv.ok and n_flag:
            inside += 1
            outside += bool(t4.boundary)
        for c, _ in probs:
            res.count('oracle:' + str(c))
        report(res, deck, args, probs, 'tie stream')
        if i in (0, n_valid):
            res.sample({'deck': text, 'args': args, 'observed': term})
    res.extra['guard'] = {'flagged decks converted (theorems apply, no '
                          'guard)': inside,
                          'of which with a non-empty block': outside}
    bad, errs = common.run_case_files('c16_run', HEADER, 'run_w_case',
                                      'check_run_w', cases)
    res.obligation(f'tie:run ({len(cases)} conversions: Model.run = SURF ids/'
                   'classes + BOUNDARY_CONDITION block or exception class)',
                   not bad and not errs,
                   f'{len(bad)} disagreements {errs[:1]}')
    for idx in bad[:10]:
        deck, args, conv, term = meta[idx]
        model, _ = common.coq_eval(
            HEADER + 'Import ListNotations.\n',
            f'run_t_with {clist(cn(n) for n in walk_order(deck))} (mkCfg {cbool("--skip-deduplication" in args)} '
            f'{cbool("--skip-boundary-conditions" in args)}) '
            f'{coq_cards(deck)} {coq_cells(deck)}')
        res.violation('correspondence',
                      'model and implementation disagree on a deck '
                      f'[{" ".join(args) or "default"}]: impl={term[:150]} '
                      f'model={str(model)[:150]}',
                      {'input': {'deck': render(deck), 'args': args,
                                 'abstract': deck},
                       'observed': term, 'model': model,
                       'theorem_or_correspondence': 'tie:run'},
                      found_input=False)

    # ---- 4. sweep outside the model ----
    fam = family_corpus()
    for i in range(-len(fam), n_rich):
        if cov is not None and i in (-len(fam), 120):
            sys.settrace(cov._global if i < 0 else None)    # first ones traced
        if i < 0:
            deck, args = fam[i], (['--skip-deduplication'] if i % 2 else [])
        else:
            deck = gen_rich(rng)
            args = args_for(rng)
        conv, t4, _ = observe(deck, args)
        text = render(deck)
        res.seen((text, args), nontrivial=True)
        res.count('rich:' + deck['feature'])
        res.count('rich-impl:' + (conv.exc or 'ok'))
        probs = oracle(deck, args, conv, t4, random.Random(seed - i))
        for c, _ in probs:
            res.count('oracle:' + str(c))
        report(res, deck, args, probs, 'rich stream')
        if i == 0:
            res.sample({'deck': text, 'args': args})
    try:
        sys.settrace(None)
        if cov is not None:
            total, missing = cov.missing(c16_cov.UNREACHABLE)
            res.obligation(
                f'line coverage ({total} lines of the anchored functions by '
                f'the first {cov_upto + len(corpus)} tied conversions and '
                'the first 120 sweep-only conversions'
                + (f'; not present: {", ".join(cov_absent)}' if cov_absent
                   else '') + ')',
                not missing and not cov_absent,
                '; '.join(f'{n}:{ln} {t}' for n, ln, t in missing[:8]))
        else:
            res.obligation('line coverage (not measured)', False,
                           '; '.join(cov_absent))
    except Exception as exc:        # pylint: disable=broad-except
        res.obligation('line coverage (not measured)', False, repr(exc)[:200])


def replay(path):
    '''Re-run the recorded input through the implementation, the oracle and
    (when the deck is inside its scope) the model.'''
    data = json.load(open(path))
    inp = data.get('input', {})
    if 'deck' in inp:
        args = inp.get('args', [])
        conv = impl.convert(inp['deck'], args)
        print('conversion:', conv)
        if conv.text:
            t4 = impl.T4File(conv.text)
            print('SURF:', {k: v for k, v in t4.surfaces.items()})
            print('VOLU:', sorted(t4.volumes))
            print('BOUNDARY_CONDITION:', t4.n_boundary, t4.boundary)
        deck = inp.get('abstract')
        if deck:
            deck['trs'] = {int(k): v for k, v in deck.get('trs', {}).items()}
            conv2, t42, term = observe(deck, args)
            print('oracle:', oracle(deck, args, conv2, t42, random.Random(1)))
            if all('lits' in c for c in deck['cells']):
                model, _ = common.coq_eval(
                    HEADER + 'Import ListNotations.\n',
                    f'run_t_with {clist(cn(n) for n in walk_order(deck))} (mkCfg {cbool("--skip-deduplication" in args)} '
                    f'{cbool("--skip-boundary-conditions" in args)}) '
                    f'{coq_cards(deck)} {coq_cells(deck)}')
                print('implementation:', term)
                print('model:', model)
    elif 'pairs' in inp:
        print('implementation:', impl_kinds([tuple(p) for p in inp['pairs']]))
    elif 'string' in inp:
        from MIP.geom.surfaces import re_name
        print('implementation:', re_name.match(inp['string']).groups())
    print('recorded:', data.get('what'))
    return 0
