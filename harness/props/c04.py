'''C04 — coordinate transformations move surfaces and cells by the MCNP rigid
motion.

Theorems: coq/Properties/C04.v.  Ties (correspondence by execution, model at
binary64 vs the functions imported from the repository):
  trcard   : (star, expanded TR entries with J) -> MIP normalize_transform +
             Transformation.normalize_transform        vs Model.tr_card
  nm       : normalize_matrix on None-patterns          vs Model.normalize_matrix
  adjust   : adjust_matrix (incl. its doctest matrix)   vs Model.adjust_matrix
  tocos    : to_cos                                     vs Model.to_cos
  surf     : transformation + conversion_surface_params vs Model.tr_convert
             (kind of the T4 surface, sides and transform exactly; numbers 1e-9)
  trcl/fill: parse_trcl_kw / parse_fill_kw              vs Model.parse_trcl/parse_fill_tr
  implicit : extract_tr_surf_ids - defined              vs Model.implicit_ids
  compose  : compose_transform                          vs Model.compose_transform
Independent oracle (sweep): (1) per surface: sign of the written T4 surface
(t4eval) at points vs mcnpref.surface_value at the back-transformed point;
(2) completed matrices are proper rotations reproducing the supplied entries;
(3) probe decks with `n TR`, TRCL=n, TRCL=(...), *TRCL, 1000c+s converted with
impl.convert and compared against mcnpref.Reference through geomcheck.'''
import itertools
import json
import math
import random
import re
import types
import warnings

import numpy as np

import common
import impl
import deck as deckmod
import geomcheck
import mcnpref
import t4eval
from common import cfloat, cbool, clist, copt, cpair, cz

# every theorem of coq/Properties/C04.v is a member of exactly one family; a family
# is the conjunction of its member theorems, so one Print Assumptions per family
# audits all of them (quick tier < 2 min)
THEOREMS = [
    'C04_family_surfaces',
    'C04_family_matrices',
    'C04_family_cards',
    'C04_family_compose',
    'C04_family_cells',
]
MEMBERS = [
    'C04_tr_card_star_is_cos', 'C04_normalize_transform_abbrev',
    'C04_tr_card_star_abbrev', 'C04_plane_offset_perturbation',
    'C04_quad_congruence',
    'C04_frame_transform_gq',
    'C04_frame_transform_plane',
    'C04_frame_transform_sphere',
    'C04_frame_transform_cylinder',
    'C04_frame_transform_cone',
    'C04_frame_transform_cone_sheet',
    'C04_frame_transform_torus',
    'C04_frame_transform_torus_total',
    'C04_normalize_matrix_9_reproduces',
    'C04_normalize_matrix_6_reproduces',
    'C04_normalize_matrix_6_cols_reproduces',
    'C04_normalize_matrix_3_reproduces',
    'C04_normalize_matrix_3_cols_reproduces',
    'C04_normalize_matrix_5_reproduces',
    'C04_adjust_matrix_fixpoint',
    'C04_adjust_matrix_near_orthonormal',
    'C04_adjust_matrix_idempotent',
    'C04_normalize_matrix_trailing_J',
    'C04_error_branches',
    'C04_normalize_transform_exact',
    'C04_frame_perturbation',
    'C04_normalize_transform_perturbation',
    'C04_to_cos_deg',
    'C04_tr_card_3',
    'C04_tr_card_12',
    'C04_tr_card_star_12',
    'C04_m1_only',
    'C04_inline_12',
    'C04_inline_number',
    'C04_implicit_surface',
    'C04_implicit_surface_value',
    'C04_frame_transform_sq',
    'C04_compose_affine',
    'C04_compose_mcnp_iff',
    'C04_compose_not_mcnp_composition_in_general',
    'C04_compose_translation_second',
    'C04_lattice_filltr_fill',
    'C04_lattice_filltr_trcl',
    'C04_trcl_cell',
    'C04_transformation_law',
    'C04_convert_law',
    'C04_interface_law',
    'C04_interface_law_inv',
    'C04_convert_law_all',
    'C04_entry_law',
    'C04_trcl_cell_t4',
]
TRUSTED = [
    'hand-written model coq/C04/Model.v: tied by execution on every run (20 '
    'ties, branch taken exactly, numbers at 1e-9), not verified against the '
    'Python source',
    'decimal text -> binary64 and expand_data_card (J, R, M): not modelled; '
    'the harness hands the expanded entries to the model (C14)',
    'IEEE rounding, numpy/BLAS summation order in transformation_quad and '
    'rotation_from_vectors: absorbed by the 1e-9 scaled tolerance; theorems '
    'are over the reals',
    'cos/sin/atan at binary64 are series in Base/Scalar.v (|err| < 1e-13)',
    'T4 and MCNP surface semantics in coq/C04/Spec.v are read from DESIGN '
    'Appendix A/B; the sweep oracles mcnpref.py / t4eval.py are independent '
    'Python readings of the same appendix',
    'cell references inside a moved cell (cell_transform recursion, caches): '
    "outside C04's model, proved over C05's model instantiated with C04's "
    'transformation (C05_cell_transform_den_linked)',
    'harness: generators, impl.T4File reader, PEG shim replacing TatSu',
]
ASSUMPTIONS = [
    'rows of B orthonormal (columns follow: cols_orthonormal); exact for a '
    'card whose matrix is exactly orthonormal with no entry strictly between '
    '0 and 1e-10 (C04_normalize_transform_exact), otherwise within 1e-10 '
    'entrywise with explicit bounds on the moved frame and the plane offset '
    '(C04_normalize_transform_perturbation, C04_plane_offset_perturbation); '
    'no bound is proved for QUAD coefficients',
    'surface axes are unit vectors (MIP frames), cone sheet parameter is '
    'absent, 0, +1 or -1, quadrics have ten coefficients',
    'torus: exact statement for every unit axis in '
    'C04_frame_transform_torus_total; inside numpy.allclose of a coordinate '
    'axis the code writes the torus about that axis (angle < 1.5e-8 rad)',
    'compose_transform is the MCNP composition only under the condition of '
    'C04_compose_mcnp_iff; both call sites satisfy it (checked on every run); '
    'a TRCL chain of two rotations is never built by the parser',
    'dictionary entries: side -1 only on single-surface parts (true of '
    'every macrobody: such facets are planes)',
]
HEADER = ('From Coq Require Import List NArith ZArith Bool PrimFloat.\n'
          'From T4V Require Import Base.Scalar C04.Vec C04.Model C04.Exec.\n')

EXC = {'TransformationError': 'ETransformation', 'TypeError': 'EType',
       'StopIteration': 'EStop', 'ValueError': 'EValue',
       'IndexError': 'EIndex', 'KeyError': 'EKey',
       'ZeroDivisionError': 'EZeroDiv'}

KNOWN = set()


# ---------------------------------------------------------------------------
# Coq rendering
# ---------------------------------------------------------------------------

def cfl(vals):
    return clist(cfloat(v) for v in vals)


def cv3(v):
    return f'(mkV {cfloat(v[0])} {cfloat(v[1])} {cfloat(v[2])})'


def cm3(m):
    m = [float(x) for x in np.array(m, float).reshape(9)]
    return f'(mkV {cv3(m[0:3])} {cv3(m[3:6])} {cv3(m[6:9])})'


def cres(out, okf):
    if out[0] == 'err':
        return f'(Err {out[1]})'
    return f'(Ok {okf(out[1])})'


def cmsurf(ms):
    return (f'(mkMS {ms["kind"]} {cv3(ms["pt"])} {cv3(ms["ax"])} '
            f'{cfl(ms["cp"])} {copt(ms["nap"], cz)})')


def ct4(item):
    kind, prm, tr, side = item
    trs = 'None' if tr is None else f'(Some ({cv3(tr[0])}, {cm3(tr[1])}))'
    return f'(mkT4 {kind} {cfl(prm)} {trs}, {cz(side)})'


def call(fun, *args):
    '''Run an implementation function; ('ok', value) or ('err', class).'''
    with warnings.catch_warnings():
        warnings.simplefilter('ignore')
        try:
            return ('ok', fun(*args))
        except Exception as exc:   # pylint: disable=broad-except
            name = type(exc).__name__
            return ('err', EXC.get(name, 'UNEXPECTED_' + name))


# ---------------------------------------------------------------------------
# rotations (rows = B1..B9 as written on the card: row i = e_i' in main coords)
# ---------------------------------------------------------------------------

def signed_perms():
    out = []
    for perm in itertools.permutations(range(3)):
        for signs in itertools.product([1.0, -1.0], repeat=3):
            m = np.zeros((3, 3))
            for i in range(3):
                m[i, perm[i]] = signs[i]
            if round(np.linalg.det(m)) == 1:
                out.append(m + 0.0)
    return out


PERMS = signed_perms()
TRIPLES = [(3, 4, 5), (5, 12, 13), (8, 15, 17), (7, 24, 25), (20, 21, 29)]


def axis_rot(axis, c, s):
    if axis == 0:
        return np.array([[1, 0, 0], [0, c, -s], [0, s, c]], float)
    if axis == 1:
        return np.array([[c, 0, s], [0, 1, 0], [-s, 0, c]], float)
    return np.array([[c, -s, 0], [s, c, 0], [0, 0, 1]], float)


def quat_rot(rng):
    '''Rational rotation from an integer quaternion.'''
    while True:
        a, b, c, d = (rng.randint(-3, 3) for _ in range(4))
        n = a * a + b * b + c * c + d * d
        if n:
            break
    return np.array([
        [a * a + b * b - c * c - d * d, 2 * (b * c - a * d), 2 * (b * d + a * c)],
        [2 * (b * c + a * d), a * a - b * b + c * c - d * d, 2 * (c * d - a * b)],
        [2 * (b * d - a * c), 2 * (c * d + a * b), a * a - b * b - c * c + d * d]],
        float) / n


def gen_rot(rng):
    '''(tag, 3x3 matrix B).'''
    mode = rng.random()
    if mode < 0.08:
        return 'identity', np.eye(3)
    if mode < 0.38:
        return 'signed-perm', rng.choice(PERMS).copy()
    if mode < 0.6:
        a, b, c = rng.choice(TRIPLES)
        co, si = rng.choice([(a / c, b / c), (b / c, a / c), (-a / c, b / c),
                             (a / c, -b / c)])
        m = axis_rot(rng.randrange(3), co, si)
        if rng.random() < 0.4:
            m = m @ rng.choice(PERMS)
        return 'rational-axis', m
    if mode < 0.8:
        return 'rational-quat', quat_rot(rng)
    ang = math.radians(rng.choice([15, 30, 45, 60, 75, 90, 120, 135, 180, 210,
                                   270, 37.5, 194.2, 1.0, 89.0, 91.0, 179.5]))
    m = axis_rot(rng.randrange(3), math.cos(ang), math.sin(ang))
    if rng.random() < 0.5:
        ang = math.radians(rng.uniform(0, 360))
        m = m @ axis_rot(rng.randrange(3), math.cos(ang), math.sin(ang))
    return 'angle', m


def gen_origin(rng):
    if rng.random() < 0.15:
        return [0.0, 0.0, 0.0]
    return [float(rng.choice([0, 0, 1, -1, 2.5, -3, 0.5, 7.25, -0.125]))
            for _ in range(3)]


def degrees_of(b):
    '''Angles whose cosines are the entries (rounded so that the card text is
    short); returns (angles, cosines really meant).'''
    angles = [round(math.degrees(math.acos(max(-1.0, min(1.0, v)))), 9)
              for v in b]
    return angles, [math.cos(math.radians(a)) for a in angles]


MASKS = {
    'full9': [1] * 9,
    'rows01': [1, 1, 1, 1, 1, 1, 0, 0, 0],
    'rows12': [0, 0, 0, 1, 1, 1, 1, 1, 1],
    'rows02': [1, 1, 1, 0, 0, 0, 1, 1, 1],
    'cols01': [1, 1, 0, 1, 1, 0, 1, 1, 0],
    'cols12': [0, 1, 1, 0, 1, 1, 0, 1, 1],
    'cols02': [1, 0, 1, 1, 0, 1, 1, 0, 1],
    'row0': [1, 1, 1, 0, 0, 0, 0, 0, 0],
    'row1': [0, 0, 0, 1, 1, 1, 0, 0, 0],
    'row2': [0, 0, 0, 0, 0, 0, 1, 1, 1],
    'col0': [1, 0, 0, 1, 0, 0, 1, 0, 0],
    'col1': [0, 1, 0, 0, 1, 0, 0, 1, 0],
    'col2': [0, 0, 1, 0, 0, 1, 0, 0, 1],
}
for _i in range(3):
    for _j in range(3):
        MASKS[f'r{_i}c{_j}'] = [1 if (k // 3 == _i or k % 3 == _j) else 0
                                for k in range(9)]
VALID_MASKS = sorted(MASKS)


def gen_trcard(rng, valid=True):
    '''Abstract TR card: dict(star, entries (None = J), truth B or None, mask,
    fault).'''
    tag, b = gen_rot(rng)
    origin = gen_origin(rng)
    star = rng.random() < 0.35
    flat = [float(v) for v in b.reshape(9)]
    card = {'rot': tag, 'star': star, 'fault': None, 'origin': origin}
    shape = rng.random()
    if shape < 0.1:
        card.update(entries=list(origin), mask='none', truth=np.eye(3))
        return card
    if star:
        angles, flat = degrees_of(flat)
        printed = angles
    else:
        printed = flat
    mask_name = 'full9' if shape < 0.45 else rng.choice(VALID_MASKS)
    mask = MASKS[mask_name]
    vals = [v if m else None for v, m in zip(printed, mask)]
    while vals and vals[-1] is None and rng.random() < 0.7:
        vals.pop()          # trailing J placeholders may be left out
    entries = list(origin) + vals
    card.update(entries=entries, mask=mask_name,
                truth=np.array(flat).reshape(3, 3))
    if mask_name == 'full9' and rng.random() < 0.25:
        entries.append(1.0)
        card['mask'] = 'full9+m'
    if mask_name == 'full9' and not star and rng.random() < 0.15:
        # the way decks are written: four significant digits
        card['entries'] = list(origin) + [round(v, 4) for v in flat] + \
            entries[12:]
        card['rot'] = tag + '-rounded4'
        card['truth'] = None
    if not valid:
        fault = rng.choice(['m-1', 'm2', 'count', 'count', 'diag', 'scatter',
                            'row-ex'])
        card['fault'] = fault
        card['truth'] = None
        if fault in ('m-1', 'm2'):
            card['entries'] = list(origin) + printed + \
                [-1.0 if fault == 'm-1' else 2.0]
        elif fault == 'count':
            n = rng.choice([1, 2, 4, 7, 8])
            keep = set(rng.sample(range(9), n))
            card['entries'] = list(origin) + [v if k in keep else None
                                              for k, v in enumerate(printed)]
        elif fault == 'diag':
            card['entries'] = list(origin) + [printed[k] if k in (0, 4, 8)
                                              else None for k in range(9)]
        elif fault == 'scatter':
            n = rng.choice([3, 5, 6])
            keep = set(rng.sample(range(9), n))
            card['entries'] = list(origin) + [v if k in keep else None
                                              for k, v in enumerate(printed)]
        else:
            card['star'] = False
            card['entries'] = list(origin) + rng.choice(
                [[-1.0, 0.0, 0.0], [None, None, None, -1.0, 0.0, 0.0],
                 [-1.0, None, None, 0.0, None, None, 0.0]])
    return card


def card_text(card, num=7):
    toks = ['j' if v is None else repr(float(v)) for v in card['entries']]
    return ('*' if card['star'] else '') + f'tr{num} ' + ' '.join(toks)


def impl_trcard(card):
    from MIP.geom import transforms as MT
    from t4_geom_convert.Kernel.Transformation import Transformation as TR
    dtype = '*tr' if card['star'] else 'tr'
    params = ' '.join('j' if v is None else repr(float(v))
                      for v in card['entries'])

    def run():
        _, pl = MT.normalize_transform('7', dtype, params)
        return [float(v) for v in TR.normalize_transform(pl)]
    return call(run)


def oracle_trcard(card, out):
    '''Property-level check of one normalised card. None or a description.'''
    if card['fault'] == 'row-ex':
        # one vector equal to (-1, 0, 0): a legal spelling (repaired 9a17f3b)
        if out[0] != 'ok':
            return f'a TR card with the single vector (-1,0,0) was rejected ({out[1]})'
        mat = np.array(out[1][3:]).reshape(3, 3)
        if np.abs(mat @ mat.T - np.eye(3)).max() > 1e-9 \
                or abs(np.linalg.det(mat) - 1) > 1e-9:
            return 'completed matrix is not a proper rotation'
        given = card['entries'][3:12]
        for k, v in enumerate(given):
            if v is not None and abs(mat.reshape(9)[k] - v) > 1e-9:
                return f'supplied entry B{k + 1} not reproduced'
        return None
    if card['fault'] is not None:
        if card['fault'] in ('m-1', 'm2') and out[0] == 'ok':
            return 'a transformation with m != 1 was accepted'
        return None
    if out[0] != 'ok':
        return f'a well-formed TR card was rejected ({out[1]})'
    vals = out[1]
    if len(vals) != 12:
        return f'{len(vals)} numbers instead of 12'
    if any(abs(a - b) > 1e-12 * max(1, abs(b))
           for a, b in zip(vals[:3], card['origin'])):
        return 'displacement changed'
    mat = np.array(vals[3:]).reshape(3, 3)
    if card['truth'] is None:       # rounded input: only closeness
        given = card['entries'][3:12]
        if max(abs(a - b) for a, b in zip(mat.reshape(9), given)) > 2e-3:
            return 'adjusted matrix far from the rounded input'
        return None
    if card['mask'] == 'none' and np.abs(mat - np.eye(3)).max() > 1e-12:
        return ('a card with only a displacement (starred or not) must be '
                'a pure translation')
    if np.abs(mat @ mat.T - np.eye(3)).max() > 1e-9:
        return 'completed matrix is not orthonormal'
    if abs(np.linalg.det(mat) - 1) > 1e-9:
        return f'completed matrix has determinant {np.linalg.det(mat):.3g}'
    supplied = card['entries'][3:12]
    truth = card['truth'].reshape(9)
    for k, v in enumerate(supplied):
        if v is not None and abs(mat.reshape(9)[k] - truth[k]) > 1e-9:
            return f'supplied entry B{k + 1} not reproduced'
    degenerate = re.fullmatch(r'r\dc\d', card['mask']) is not None and \
        abs(abs(truth[3 * int(card['mask'][1]) + int(card['mask'][3])]) - 1) \
        < 1e-9      # row+column through an entry +-1: not unique
    if card['mask'] not in ('row0', 'row1', 'row2', 'col0', 'col1', 'col2',
                            'none') and not degenerate \
            and np.abs(mat - card['truth']).max() > 1e-9:
        return 'completed matrix differs from the rotation it determines'
    return None


# ---------------------------------------------------------------------------
# surfaces
# ---------------------------------------------------------------------------

def gen_surface(rng, macro=True):
    '''(mnemonic, params).'''
    def c():
        return float(rng.choice([-2, -1, -0.5, 0, 0, 0.5, 1, 1.5, 2, 3.25]))

    def r():
        return float(rng.choice([0.75, 1, 1.5, 2, 2.5, 3]))
    kinds = ['px', 'py', 'pz', 'p', 'p', 'so', 's', 'sx', 'sy', 'sz', 'cx',
             'cy', 'cz', 'c/x', 'c/y', 'c/z', 'kx', 'ky', 'kz', 'k/x', 'k/y',
             'k/z', 'k/x', 'k/z', 'tx', 'ty', 'tz', 'sq', 'gq', 'gq', 'x', 'z']
    if macro:
        kinds += ['rpp', 'box', 'rcc', 'trc', 'rec', 'hex', 'sph', 'wed', 'ell']
    mn = rng.choice(kinds)
    if mn in ('px', 'py', 'pz'):
        return mn, [c()]
    if mn == 'p':
        n = [float(rng.choice([-1, 0, 1, 2, 0.5])) for _ in range(3)]
        if not any(n):
            n[rng.randrange(3)] = 1.0
        if rng.random() < 0.3:
            n = [0.0, 0.0, 0.0]
            n[rng.randrange(3)] = float(rng.choice([1, -1, 2, -0.5]))
        return mn, n + [c()]
    if mn == 'so':
        return mn, [r()]
    if mn == 's':
        return mn, [c(), c(), c(), r()]
    if mn in ('sx', 'sy', 'sz'):
        return mn, [c(), r()]
    if mn in ('cx', 'cy', 'cz'):
        return mn, [r()]
    if mn in ('c/x', 'c/y', 'c/z'):
        return mn, [c(), c(), r()]
    if mn in ('kx', 'ky', 'kz'):
        prm = [c(), float(rng.choice([0.25, 1, 3, 0.5]))]
        if rng.random() < 0.65:
            prm.append(float(rng.choice([1, -1])))
        return mn, prm
    if mn in ('k/x', 'k/y', 'k/z'):
        prm = [c(), c(), c(), float(rng.choice([0.25, 1, 3, 0.5]))]
        if rng.random() < 0.65:
            prm.append(float(rng.choice([1, -1])))
        return mn, prm
    if mn in ('tx', 'ty', 'tz'):
        return mn, [c(), c(), c(), float(rng.choice([3, 4, 5])),
                    float(rng.choice([0.5, 1, 1.5])),
                    float(rng.choice([0.5, 1, 2]))]
    if mn == 'sq':
        return mn, [float(rng.choice([0.2, 1, 2, 3])),
                    float(rng.choice([0.5, 1, 3])),
                    float(rng.choice([0, 1, 2, -1])),
                    float(rng.choice([0, 0, -2, 1])),
                    float(rng.choice([0, 0, 1.4])),
                    float(rng.choice([0, 0, -1.7])),
                    float(rng.choice([-25, -4, -9, -1, 1, 4, 2.5])), c(), c(), c()]
    if mn == 'gq':
        return mn, [float(rng.choice([1, 2, 0.5, 0, -1])) for _ in range(3)] \
            + [float(rng.choice([0, 0, 0.5, -1])) for _ in range(3)] \
            + [float(rng.choice([0, 1, -2])) for _ in range(3)] \
            + [float(rng.choice([-4, -9, -1, 2]))]
    if mn in ('x', 'z'):
        x1, x2 = rng.sample([-2.0, -1.0, 0.0, 1.0, 2.0, 3.5], 2)
        r1, r2 = rng.sample([0.5, 1.0, 2.0, 3.0], 2)
        if rng.random() < 0.2:
            r2 = r1
        return mn, [x1, r1, x2, r2]
    if mn == 'rpp':
        lo = [c() for _ in range(3)]
        return mn, [v for a in lo for v in (a, a + r())]
    if mn == 'box':
        m = rng.choice(PERMS) if rng.random() < 0.6 else quat_rot(rng)
        return mn, [c(), c(), c()] + [float(v) for i in range(3)
                                      for v in m[i] * r()]
    if mn == 'sph':
        return mn, [c(), c(), c(), r()]
    if mn == 'wed':
        m = rng.choice(PERMS) if rng.random() < 0.6 else quat_rot(rng)
        return mn, [c(), c(), c()] + [float(v) for i in range(3)
                                      for v in m[i] * r()]
    if mn == 'ell':
        m = rng.choice(PERMS) if rng.random() < 0.6 else quat_rot(rng)
        return mn, [c(), c(), c()] + [float(v) for v in m[0] * 2.5] + [-1.0]
    if mn in ('rcc', 'trc', 'rec', 'hex'):
        m = rng.choice(PERMS) if rng.random() < 0.6 else quat_rot(rng)
        base = [c(), c(), c()] + [float(v) for v in m[0] * r() * 2]
        if mn == 'rcc':
            return mn, base + [r()]
        if mn == 'trc':
            r1, r2 = rng.sample([0.5, 1.0, 2.0, 3.0], 2)
            return mn, base + [r1, r2]
        if mn == 'rec':
            return mn, base + [float(v) for v in m[1] * 2.0] + \
                [float(v) for v in m[2] * 1.0]
        return mn, base + [float(v) for v in m[1] * r()]
    raise ValueError(mn)


KINDS = {'P': 'KP', 'S': 'KS', 'C': 'KC', 'K': 'KK', 'T': 'KT', 'SQ': 'KSQ',
         'GQ': 'KGQ'}


def frame_form(surf):
    '''SurfaceMCNP -> dict for the model, or None when outside the modelled
    domain.'''
    kind = KINDS.get(surf.type_surface.name)
    if kind is None:
        return None
    if kind in ('KSQ', 'KGQ'):
        pt, ax = (0.0, 0.0, 0.0), (0.0, 0.0, 0.0)
    else:
        pt, ax = surf.param_surface
    cp = list(surf.compl_param)
    nap = None
    if kind == 'KK':
        nap = cp[2] if len(cp) == 3 else None
        cp = cp[:2]
        if nap is not None:
            if float(nap) != int(nap):
                return None
            nap = int(nap)
    return {'kind': kind, 'pt': [float(v) for v in pt],
            'ax': [float(v) for v in ax], 'cp': [float(v) for v in cp],
            'nap': nap}


def mcnp_parts(mn, params):
    '''[(SurfaceMCNP, side)] of a surface card without transformation.'''
    from t4_geom_convert.Kernel.FileHandlers.Parser.ParseMCNPSurface \
        import to_surfaces_mcnp
    return to_surfaces_mcnp(1, ('', None, mn, list(params)), {})


def impl_surf(tr, surf):
    from t4_geom_convert.Kernel.Transformation.Transformation \
        import transformation
    from t4_geom_convert.Kernel.Surface.ConversionSurfaceMCNPToT4 \
        import conversion_surface_params

    def run():
        new = transformation(tr, surf)
        coll = conversion_surface_params(1, new)
        out = []
        for t4s, side in coll.surfs:
            trf = None
            if t4s.transform is not None:
                trf = ([float(v) for v in t4s.transform[0].flat],
                       [float(v) for v in t4s.transform[1].flat])
            out.append((t4s.type_surface.name,
                        [float(v) for v in t4s.param_surface], trf,
                        int(side)))
        return out, new
    return call(run)


def t4_value(item, p):
    kind, prm, trf, _side = item
    fake = types.SimpleNamespace(
        surfaces={1: (kind, prm, 1 if trf else None)},
        transforms={1: list(trf[0]) + list(trf[1])} if trf else {})
    return t4eval.surf_value(fake, 1, p)


def coll_sense(colls, p, eps=1e-6):
    '''colls: [(items, side)] (macrobody parts); negative region = all signed
    values negative. Returns True (negative), False, or None near a surface.'''
    neg = True
    for items, side in colls:
        for item in items:
            val = t4_value(item, p) * item[3] * side
            if abs(val) < eps:
                return None
            if val > 0:
                neg = False
    return neg


def mcnp_sense(mn, params, p_aux, eps=1e-6):
    if mn in mcnpref.MACROBODIES:
        vals = [f(p_aux) for f in mcnpref.macro_facets(mn, params)]
        if any(abs(v) < eps for v in vals):
            return None
        return max(vals) < 0
    val = mcnpref.surface_value(mn, params, p_aux)
    if abs(val) < eps:
        return None
    return val < 0


def one_sheet(mn, params):
    mn = mn.lower()
    if mn in ('kx', 'ky', 'kz'):
        return len(params) == 3 and params[2] != 0
    if mn in ('k/x', 'k/y', 'k/z'):
        return len(params) == 5 and params[4] != 0
    if mn in ('x', 'y', 'z'):
        return len(params) == 4 and params[0] != params[2] \
            and params[1] != params[3]
    return False


def antialigned(vec, tol=1e-10):
    v = np.array(vec, float)
    k = int(np.argmax(np.abs(v)))
    rest = [abs(v[i]) for i in range(3) if i != k]
    return max(rest) <= tol and v[k] < 0


def moved_axis(mn, b):
    '''Image of the surface's own axis under the rotation with card matrix
    b (rows = auxiliary axes in main coordinates).'''
    k = 'xyz'.index(mn.lower()[-1])
    return np.array(b, float).reshape(3, 3)[k]


def points_for(rng, n):
    pts = []
    for _ in range(n):
        if rng.random() < 0.6:
            pts.append([rng.uniform(-6, 6) for _ in range(3)])
        else:
            pts.append([rng.gauss(0, 2.0) for _ in range(3)])
    return pts


# ---------------------------------------------------------------------------
# transformations for the surface tie
# ---------------------------------------------------------------------------

def gen_tr12(rng, pool):
    '''(tag, list of numbers handed to transformation()).'''
    mode = rng.random()
    if mode < 0.05:
        return 'none', []
    if mode < 0.15:
        return 'translation', gen_origin(rng) + [1.0, 0.0, 0.0, 0.0, 1.0, 0.0,
                                                 0.0, 0.0, 1.0]
    if mode < 0.25 and pool:
        return 'from-card', list(rng.choice(pool))
    if mode < 0.32:
        # what an inline *TRCL leaves: cosines of degrees, not adjusted
        from MIP.geom.transforms import to_cos
        _, b = gen_rot(rng)
        angles, _ = degrees_of([float(v) for v in b.reshape(9)])
        return 'star-inline', gen_origin(rng) + [to_cos(a) for a in angles]
    if mode < 0.36:
        n = rng.choice([6, 8, 9, 11, 13])
        _, b = gen_rot(rng)
        vals = gen_origin(rng) + [float(v) for v in b.reshape(9)] + [1.0]
        return f'length-{n}', vals[:n]
    tag, b = gen_rot(rng)
    return tag, gen_origin(rng) + [float(v) + 0.0 for v in b.reshape(9)]


# ---------------------------------------------------------------------------
# decks for the whole-conversion sweep
# ---------------------------------------------------------------------------

def tr_spec(rng, inline=False, star=None, b=None, origin=None):
    '''Transformation dict in deck.py's format with the truth matrix.'''
    if b is None:
        _, b = gen_rot(rng)
    origin = gen_origin(rng) if origin is None else origin
    if star is None:
        star = rng.random() < 0.4
    flat = [float(v) for v in np.array(b).reshape(9)]
    if star:
        angles, flat = degrees_of(flat)
        printed = origin + angles
    else:
        printed = origin + flat
    return {'O': tuple(origin), 'B': flat, 'star': star, 'print': printed}


def card_spec(rng):
    '''A TR data card for the decks: mostly 12 entries, sometimes only the
    displacement (TRn / *TRn dx dy dz: a pure translation, starred or not).'''
    if rng.random() < 0.25:
        origin = gen_origin(rng)
        return {'O': tuple(origin), 'B': None, 'star': rng.random() < 0.6,
                'print': list(origin)}
    return tr_spec(rng)


def render(deck):
    '''deck.render with our own spelling of the TR cards (J placeholders).'''
    copy = dict(deck)
    lines = []
    for n, tr in sorted(deck.get('transforms', {}).items()):
        toks = ['j' if v is None else deckmod.num(v) for v in tr['print']]
        lines.append(deckmod.wrap(('*' if tr.get('star') else '')
                                  + f'tr{n} ' + ' '.join(toks)))
    copy['transforms'] = {}
    copy['data'] = lines + list(deck.get('data', []))
    return deckmod.render(copy)


SWEEP_KINDS = ['px', 'py', 'pz', 'p', 'so', 's', 'sx', 'cz', 'cx', 'c/y',
               'c/z', 'kz', 'k/x', 'k/y', 'k/z', 'kx', 'tz', 'tx', 'ty',
               'gq', 'sq', 'rpp', 'rcc', 'box', 'z', 'x']


def gen_sweep_surface(rng, sid):
    while True:
        mn, prm = gen_surface(rng)
        if mn in SWEEP_KINDS:
            break
    return {'id': sid, 'mn': mn, 'params': prm, 'tr': None, 'bc': ''}


def gen_deck(rng, mode):
    k = rng.choice([1, 1, 2, 2, 3])
    surfs = [gen_sweep_surface(rng, sid) for sid in range(1, k + 1)]
    lits = [rng.choice([-1, -1, 1]) * s['id'] for s in surfs]
    if mode == 'implicit' and rng.random() < 0.8:
        lits = [-abs(x) for x in lits]   # else: negative-only references
    cell1 = {'id': 1, 'mat': 0, 'rho': None, 'expr': deckmod.leaf_expr(lits),
             'imp': {'n': 1}, 'u': 0}
    cell2 = {'id': 2, 'mat': 0, 'rho': None, 'expr': ('#c', 1),
             'imp': {'n': 1}, 'u': 0}
    transforms = {}
    moved = []          # (surface, truth B) pairs for the class predicates
    if mode == 'surf_tr':
        for s in surfs:
            if rng.random() < 0.8 or s is surfs[0]:
                n = rng.randint(1, 40)
                while n in transforms:
                    n += 1
                transforms[n] = card_spec(rng)
                if transforms[n]['B'] is not None and rng.random() < 0.2:
                    transforms[n] = abbreviate(rng, transforms[n])
                s['tr'] = n
                moved.append((s, transforms[n]))
    else:
        if mode == 'trcl_num' or mode == 'implicit':
            n = rng.randint(1, 40)
            transforms[n] = card_spec(rng)
            cell1['trcl'] = ('num', n)
            spec = transforms[n]
        elif mode == 'trcl_inline3':
            origin = gen_origin(rng)
            spec = {'O': tuple(origin), 'B': None, 'star': False,
                    'print': origin}
            cell1['trcl'] = spec
        elif mode == 'trcl_star12':
            spec = tr_spec(rng, star=True)
            cell1['trcl'] = spec
        elif mode == 'trcl_plain12':
            spec = tr_spec(rng, star=False)
            cell1['trcl'] = spec
        elif mode == 'trcl_13':           # m = 1 spelled out
            spec = tr_spec(rng)
            spec['print'] = spec['print'] + [1.0]
            cell1['trcl'] = spec
        elif mode == 'trcl_abbrev':       # two rows given, third completed
            spec = tr_spec(rng)
            spec['print'] = spec['print'][:9]
            cell1['trcl'] = spec
        else:
            raise ValueError(mode)
        moved = [(s, spec) for s in surfs]
        if mode == 'implicit':
            # cell 2 = complement of cell 1 written with 1000*1 + s
            refs = [deckmod.S(-(1000 + abs(x)) if x > 0 else 1000 + abs(x))
                    for x in lits]
            cell2['expr'] = refs[0] if len(refs) == 1 else (':',) + tuple(refs)
    deck = {'title': f'C04 sweep {mode}', 'cells': [cell1, cell2],
            'surfaces': surfs, 'transforms': transforms}
    return deck, moved


def abbreviate(rng, tr):
    '''Spell a TR card with a 6- or 5-entry matrix (J placeholders); the truth
    matrix is what the entries determine.'''
    if tr['star']:
        return tr
    name = rng.choice(['rows01', 'rows12', 'rows02', 'cols01', 'cols12',
                       'cols02', 'r0c0', 'r1c2', 'r2c1', 'r0c1'])
    if name[0] == 'r' and name[2] == 'c' and \
            abs(abs(tr['B'][3 * int(name[1]) + int(name[3])]) - 1) < 1e-6:
        # a row and a column through an entry +-1 do not determine the
        # rotation: spell two rows instead
        name = 'rows01'
    mask = MASKS[name]
    out = dict(tr)
    out['print'] = list(tr['print'][:3]) + [
        v if m else None for v, m in zip(tr['print'][3:12], mask)]
    return out


FACET_MODES = ['f_trcl_num', 'f_trcl_inline', 'f_trcl_star', 'f_trcl_inline3',
               'f_fill_tr', 'f_fill_star', 'f_fill_trcl', 'f_fill_trcl_num']


def gen_facet_deck(rng, mode):
    '''A cell naming SEVERAL facets of one macrobody (and possibly the whole
    body), moved by TRCL (number, inline, starred, 3 entries) or sitting in a
    universe placed by a FILL transformation.'''
    mn = rng.choice(['rpp', 'rpp', 'box', 'rcc'])
    while True:
        kind, prm = gen_surface(rng)
        if kind == mn:
            break
    nfac = {'rpp': 6, 'box': 6, 'rcc': 3}[mn]
    body = {'id': 10, 'mn': mn, 'params': prm, 'tr': None, 'bc': ''}
    picks = rng.sample(range(1, nfac + 1), rng.choice([2, 2, 3, min(4, nfac)]))
    leaves = [('f', rng.choice([-10, -10, 10]), k) for k in picks]
    if rng.random() < 0.4:
        leaves.insert(rng.randrange(len(leaves) + 1),
                      ('s', rng.choice([-10, 10])))
    if rng.random() < 0.3:      # the same facet twice, opposite roles
        leaves.append(('f', rng.choice([-10, 10]), picks[0]))
    op = '*' if rng.random() < 0.7 else ':'
    expr = (op,) + tuple(leaves)
    spec = tr_spec(rng, star=mode in ('f_trcl_star', 'f_fill_star'))
    if mode == 'f_trcl_inline3':
        origin = gen_origin(rng)
        spec = {'O': tuple(origin), 'B': None, 'star': False, 'print': origin}
    transforms = {}
    if mode in ('f_fill_tr', 'f_fill_star', 'f_fill_trcl', 'f_fill_trcl_num'):
        filled = {'id': 1, 'mat': 0, 'rho': None, 'expr': ('s', -20),
                  'imp': {'n': 1}, 'u': 0, 'fill': {'u': 1, 'tr': spec}}
        if mode == 'f_fill_trcl':
            # FILL without a transformation + TRCL on the filled cell: its
            # boundary AND the universe inside move together
            filled['fill'] = {'u': 1, 'tr': None}
            filled['trcl'] = spec
        elif mode == 'f_fill_trcl_num':
            filled['fill'] = {'u': 1, 'tr': None}
            filled['trcl'] = ('num', 7)
            transforms[7] = spec
        cells = [
            filled,
            {'id': 2, 'mat': 0, 'rho': None,
             'expr': ('#c', 1) if 'trcl' in filled else ('s', 20),
             'imp': {'n': 0}, 'u': 0},
            {'id': 3, 'mat': 0, 'rho': None, 'expr': expr, 'imp': {'n': 1},
             'u': 1},
            {'id': 4, 'mat': 0, 'rho': None, 'expr': ('#c', 3),
             'imp': {'n': 1}, 'u': 1}]
        surfs = [body, {'id': 20, 'mn': 'so', 'params': [6.0], 'tr': None,
                        'bc': ''}]
    else:
        cell1 = {'id': 1, 'mat': 0, 'rho': None, 'expr': expr,
                 'imp': {'n': 1}, 'u': 0}
        if mode == 'f_trcl_num':
            if rng.random() < 0.3:
                spec = card_spec(rng)
            transforms[7] = spec
            cell1['trcl'] = ('num', 7)
        else:
            cell1['trcl'] = spec
        cells = [cell1, {'id': 2, 'mat': 0, 'rho': None, 'expr': ('#c', 1),
                         'imp': {'n': 1}, 'u': 0}]
        surfs = [body]
    return {'title': f'C04 sweep {mode}', 'cells': cells, 'surfaces': surfs,
            'transforms': transforms}, []


TWIN_MODES = ['twin_tr'] * 3 + ['twin_trcl'] * 2


def gen_twin_deck(rng, mode):
    '''The SAME surface card placed by two different transformations in one
    deck (two TR numbers, or a TRCL copy next to the original): the two
    written surfaces must stay distinct.  Often a torus about its own centre,
    the displacement zero, so that only the rotation tells the copies apart.'''
    if rng.random() < 0.6:
        mn = rng.choice(['tz', 'tx', 'ty'])
        prm = [0.0, 0.0, 0.0, float(rng.choice([3, 4])),
               float(rng.choice([0.5, 1.0])), float(rng.choice([0.5, 1.0]))]
        origin = [0.0, 0.0, 0.0]
    else:
        while True:
            mn, prm = gen_surface(rng, macro=False)
            if mn in SWEEP_KINDS and mn != 'sq':
                break
        origin = gen_origin(rng) if rng.random() < 0.5 else [0.0, 0.0, 0.0]
    spec_a = tr_spec(rng, origin=list(origin))
    spec_b = tr_spec(rng, origin=list(origin))
    surf = {'id': 1, 'mn': mn, 'params': prm, 'tr': None, 'bc': ''}

    def cell(cid, expr, **kw):
        out = {'id': cid, 'mat': 0, 'rho': None, 'expr': expr,
               'imp': {'n': 1}, 'u': 0}
        out.update(kw)
        return out
    if mode == 'twin_tr':
        surfs = [dict(surf, id=1, tr=11), dict(surf, id=2, tr=12)]
        cells = [cell(1, ('s', -1)), cell(2, ('*', ('s', 1), ('s', -2))),
                 cell(3, ('*', ('s', 1), ('s', 2)))]
        transforms = {11: spec_a, 12: spec_b}
    else:
        surfs = [surf]
        cells = [cell(1, ('s', -1), trcl=spec_a),
                 cell(2, ('*', ('s', -1), ('#c', 1))),
                 cell(3, ('*', ('s', 1), ('#c', 1)))]
        transforms = {}
    return {'title': f'C04 sweep {mode}', 'cells': cells, 'surfaces': surfs,
            'transforms': transforms}, []


def deck_classes(deck, moved):
    '''Known-finding classes a failing deck of the sweep may belong to: none
    is open for C04 any more.'''
    return set()


def sq_as_gq(deck):
    '''The deck with SQ cards replaced by the GQ card of the same function
    (Appendix A).'''
    out = dict(deck)
    out['surfaces'] = []
    for s in deck['surfaces']:
        if s['mn'] == 'sq':
            a, b, c, d, e, f, g, x, y, z = s['params']
            s = dict(s, mn='gq', params=[
                a, b, c, 0.0, 0.0, 0.0,
                2 * (d - a * x), 2 * (e - b * y), 2 * (f - c * z),
                a * x * x + b * y * y + c * z * z
                - 2 * (d * x + e * y + f * z) + g])
        out['surfaces'].append(s)
    return out


def collect_refs(expr, out):
    if expr[0] in ('s', 'f'):
        out.add(expr[1])
    elif expr[0] in ('*', ':', '#'):
        for sub in expr[1:]:
            collect_refs(sub, out)


# the converter's option sets that change HOW cells are assembled (inlining
# of filled / filling cells, de-duplication), never WHAT region a cell is
OPTION_SETS = [
    [],
    ['--always-inline-filling'],
    ['--always-inline-filled'],
    ['--always-inline-filling', '--always-inline-filled'],
    ['--skip-deduplication'],
    ['--skip-deduplication', '--always-inline-filling'],
]


def check_deck(deck, rng, n_points, opts=()):
    '''Returns (status, detail): 'ok' | 'rejected' | 'mismatch'.'''
    text = render(deck)
    conv = impl.convert(text, list(opts))
    if not conv.ok or conv.text is None:
        return 'rejected', f'{conv.exc}: {conv.msg[:160]}', text
    try:
        t4 = impl.T4File(conv.text)
    except ValueError as exc:
        return 'mismatch', f'written file unreadable: {exc}', text
    pts = points_for(rng, n_points)
    _checked, failures = geomcheck.compare(deck, t4, pts, check_ids=True)
    if failures:
        return 'mismatch', (f'{len(failures)} of {len(pts)} points differ, '
                            f'e.g. {failures[0]}'), text
    return 'ok', '', text


# ---------------------------------------------------------------------------
# witnesses of the open classes (replayed first on every run)
# ---------------------------------------------------------------------------

# decks that used to fail before the lead's fix: commits (must pass now)
CORPUS = {
    'cone_sheet_axis_antialigned':
        'cone sheet witness\n1 0 -1 imp:n=1\n2 0 1 imp:n=1\n\n'
        '1 5 kz 0 1 1\n\ntr5 0 0 0 1 0 0 0 -1 0 0 0 -1\n',
    'implicit_surface_negative_only':
        'negative-only implicit surface\n1 0 -1 trcl=5 imp:n=1\n'
        '2 0 -1001 imp:n=1\n3 0 1 imp:n=0\n\n1 so 2\n\ntr5 1 0 0\n',
    'inline_trcl_not_normalised':
        'inline TRCL witness\n1 0 -1 trcl=(1 0 0 0 1 0 -1 0 0 0 0 1) imp:n=1\n'
        '2 0 #1 imp:n=1\n\n1 c/x 1.5 0.5 1\n\n',
    'star_trcl_abbreviated':
        'abbreviated *TRCL\n1 0 -1 *trcl=(1 0 0 0 90 90 90 30 60) imp:n=1\n'
        '2 0 #1 imp:n=1\n\n1 c/x 1.5 0.5 1\n\n',
    'sq_under_transformation':
        'SQ under TR witness\n1 0 -1 imp:n=1\n2 0 1 imp:n=1\n\n'
        '1 5 sq 0.2 1 3 -2 1.4 -1.7 -25 -3 2.2 -1.9\n\n'
        '*tr5 1 2 3 30 60 90 120 30 90 90 90 0\n',
    'matrix3_row_minus_ex':
        'three-entry matrix witness\n1 0 -1 imp:n=1\n2 0 1 imp:n=1\n\n'
        '1 5 px 1\n\ntr5 0 0 0 -1 0 0\n',
}

CORPUS.update({
    # a TRCL cell whose expression holds a complement node (left alone by
    # pot_transform) next to moved surfaces
    'trcl_with_complement':
        'TRCL cell with #n\n1 0 -1 #3 trcl=(1 0 0 0 1 0 -1 0 0 0 0 1) imp:n=1\n'
        '2 0 #1 #3 imp:n=1\n3 0 -4 imp:n=1\n\n1 so 5\n4 s 1 1 0 0.5\n\n',
    # nested universes, the outer FILL carries a transformation: cell
    # references go through pot_transform (cell_transform recursion)
    'nested_fill_tr':
        'nested fill\n1 0 -10 fill=1 (1 0.5 0 0 1 0 -1 0 0 0 0 1) imp:n=1\n'
        '2 0 -11 fill=2 u=1 imp:n=1\n3 0 11 u=1 imp:n=1\n'
        '4 0 -12 u=2 imp:n=1\n5 0 12 u=2 imp:n=1\n6 0 10 imp:n=0\n\n'
        '10 so 10\n11 s 1 0 0 3\n12 s 2 0 0 1\n\n',
})

CORPUS.update({
    # several facets of one macrobody (and the body itself) in a moved cell:
    # every reference is its own surface (seeded regression C04_C: a memo keyed
    # by the surface number without the facet)
    'facets_under_trcl':
        'facets under TRCL\n1 0 -10.1 10.2 -10.3 -10 '
        'trcl=(1 0 0 0 1 0 -1 0 0 0 0 1) imp:n=1\n2 0 #1 imp:n=1\n\n'
        '10 rpp -1 2 -1.5 1 -0.5 0.5\n\n',
    'facets_under_fill_tr':
        'facets under FILL tr\n1 0 -20 *fill=1 (0.5 0 0 30 60 90 120 30 90 90 90 0) '
        'imp:n=1\n2 0 20 imp:n=0\n3 0 -10.2 -10.1 10.3 u=1 imp:n=1\n'
        '4 0 #3 u=1 imp:n=1\n\n10 rcc 0 0 -1 0 0 2 1.5\n20 so 6\n\n',
})

CORPUS.update({
    # a starred TR card with only a displacement is a pure translation
    # (seeded C04_E: the padded identity went through to_cos)
    'star_tr_displacement_only':
        'star TR displacement only\n1 0 -1 imp:n=1\n2 0 1 -2 trcl=5 imp:n=1\n'
        '3 0 1 #2 imp:n=1\n\n1 5 c/z 0.5 0 1\n2 rpp -1 1 -0.5 0.5 -2 2\n\n'
        '*tr5 3 1 0\n',
    # the same torus about its centre under two rotations: two different
    # surfaces (seeded C04_F: de-duplication by the SURF text alone)
    'twin_tilted_tori':
        'twin tilted tori\n1 0 -1 imp:n=1\n2 0 1 -2 imp:n=1\n3 0 1 2 imp:n=1\n\n'
        '1 11 tz 0 0 0 4 1 1\n2 12 tz 0 0 0 4 1 1\n\n'
        '*tr11 0 0 0 0 90 90 90 40 50 90 130 40\n'
        '*tr12 0 0 0 0 90 90 90 100 10 90 170 100\n',
})

CORPUS.update({
    # a filled cell with TRCL: the boundary and the universe inside move
    # together, under every inlining option (seeded C04_G)
    'fill_with_trcl':
        'FILL with TRCL\n1 0 -20 fill=1 trcl=(2 0 0 0 1 0 -1 0 0 0 0 1) imp:n=1\n'
        '2 0 #1 imp:n=0\n3 0 -30 u=1 imp:n=1\n4 0 30 u=1 imp:n=1\n\n'
        '20 so 4\n30 s 1.5 0.5 0 1\n\n',
})

# decks that MUST be rejected (m = -1 on a TR card used by a surface)
MUST_REJECT = {
    'tr_card_m_minus_one':
        ('m=-1\n1 0 -1 imp:n=1\n2 0 1 imp:n=0\n\n1 5 so 2\n\n'
         'tr5 1 0 0 1 0 0 0 1 0 0 0 1 -1\n', 'TransformationError'),
}

WITNESSES = {}      # no open class

WITNESS_DECKS = {
    'fill_with_trcl': {
        'cells': [{'id': 1, 'mat': 0, 'expr': ('s', -20), 'imp': {'n': 1},
                   'fill': {'u': 1, 'tr': None},
                   'trcl': {'O': (2, 0, 0),
                            'B': [0, 1, 0, -1, 0, 0, 0, 0, 1]}},
                  {'id': 2, 'mat': 0, 'expr': ('#c', 1), 'imp': {'n': 0}},
                  {'id': 3, 'mat': 0, 'expr': ('s', -30), 'imp': {'n': 1},
                   'u': 1},
                  {'id': 4, 'mat': 0, 'expr': ('s', 30), 'imp': {'n': 1},
                   'u': 1}],
        'surfaces': [{'id': 20, 'mn': 'so', 'params': [4.0]},
                     {'id': 30, 'mn': 's', 'params': [1.5, 0.5, 0.0, 1.0]}],
        'transforms': {}},
    'star_tr_displacement_only': {
        'cells': [{'id': 1, 'mat': 0, 'expr': ('s', -1), 'imp': {'n': 1}},
                  {'id': 2, 'mat': 0, 'expr': ('*', ('s', 1), ('s', -2)),
                   'imp': {'n': 1}, 'trcl': ('num', 5)},
                  {'id': 3, 'mat': 0, 'expr': ('*', ('s', 1), ('#c', 2)),
                   'imp': {'n': 1}}],
        'surfaces': [{'id': 1, 'mn': 'c/z', 'params': [0.5, 0.0, 1.0],
                      'tr': 5},
                     {'id': 2, 'mn': 'rpp',
                      'params': [-1.0, 1.0, -0.5, 0.5, -2.0, 2.0]}],
        'transforms': {5: {'O': (3, 1, 0), 'B': None}}},
    'twin_tilted_tori': {
        'cells': [{'id': 1, 'mat': 0, 'expr': ('s', -1), 'imp': {'n': 1}},
                  {'id': 2, 'mat': 0, 'expr': ('*', ('s', 1), ('s', -2)),
                   'imp': {'n': 1}},
                  {'id': 3, 'mat': 0, 'expr': ('*', ('s', 1), ('s', 2)),
                   'imp': {'n': 1}}],
        'surfaces': [{'id': 1, 'mn': 'tz', 'tr': 11,
                      'params': [0.0, 0.0, 0.0, 4.0, 1.0, 1.0]},
                     {'id': 2, 'mn': 'tz', 'tr': 12,
                      'params': [0.0, 0.0, 0.0, 4.0, 1.0, 1.0]}],
        'transforms': {
            11: {'O': (0, 0, 0), 'B': [math.cos(math.radians(a)) for a in
                                       (0, 90, 90, 90, 40, 50, 90, 130, 40)]},
            12: {'O': (0, 0, 0), 'B': [math.cos(math.radians(a)) for a in
                                       (0, 90, 90, 90, 100, 10, 90, 170,
                                        100)]}}},
    'facets_under_trcl': {
        'cells': [{'id': 1, 'mat': 0,
                   'expr': ('*', ('f', -10, 1), ('f', 10, 2), ('f', -10, 3),
                            ('s', -10)), 'imp': {'n': 1},
                   'trcl': {'O': (1, 0, 0),
                            'B': [0, 1, 0, -1, 0, 0, 0, 0, 1]}},
                  {'id': 2, 'mat': 0, 'expr': ('#c', 1), 'imp': {'n': 1}}],
        'surfaces': [{'id': 10, 'mn': 'rpp',
                      'params': [-1.0, 2.0, -1.5, 1.0, -0.5, 0.5]}],
        'transforms': {}},
    'facets_under_fill_tr': {
        'cells': [{'id': 1, 'mat': 0, 'expr': ('s', -20), 'imp': {'n': 1},
                   'fill': {'u': 1, 'tr': {
                       'O': (0.5, 0, 0),
                       'B': [math.cos(math.radians(a)) for a in
                             (30, 60, 90, 120, 30, 90, 90, 90, 0)]}}},
                  {'id': 2, 'mat': 0, 'expr': ('s', 20), 'imp': {'n': 0}},
                  {'id': 3, 'mat': 0,
                   'expr': ('*', ('f', -10, 2), ('f', -10, 1), ('f', 10, 3)),
                   'imp': {'n': 1}, 'u': 1},
                  {'id': 4, 'mat': 0, 'expr': ('#c', 3), 'imp': {'n': 1},
                   'u': 1}],
        'surfaces': [{'id': 10, 'mn': 'rcc',
                      'params': [0.0, 0.0, -1.0, 0.0, 0.0, 2.0, 1.5]},
                     {'id': 20, 'mn': 'so', 'params': [6.0]}],
        'transforms': {}},
    'trcl_with_complement': {
        'cells': [{'id': 1, 'mat': 0, 'expr': ('*', ('s', -1), ('#c', 3)),
                   'imp': {'n': 1},
                   'trcl': {'O': (1, 0, 0),
                            'B': [0, 1, 0, -1, 0, 0, 0, 0, 1]}},
                  {'id': 2, 'mat': 0, 'expr': ('*', ('#c', 1), ('#c', 3)),
                   'imp': {'n': 1}},
                  {'id': 3, 'mat': 0, 'expr': ('s', -4), 'imp': {'n': 1}}],
        'surfaces': [{'id': 1, 'mn': 'so', 'params': [5.0]},
                     {'id': 4, 'mn': 's', 'params': [1.0, 1.0, 0.0, 0.5]}],
        'transforms': {}},
    'nested_fill_tr': {
        'cells': [{'id': 1, 'mat': 0, 'expr': ('s', -10), 'imp': {'n': 1},
                   'fill': {'u': 1, 'tr': {'O': (1, 0.5, 0),
                                           'B': [0, 1, 0, -1, 0, 0, 0, 0, 1]}}},
                  {'id': 2, 'mat': 0, 'expr': ('s', -11), 'imp': {'n': 1},
                   'u': 1, 'fill': {'u': 2, 'tr': None}},
                  {'id': 3, 'mat': 0, 'expr': ('s', 11), 'imp': {'n': 1},
                   'u': 1},
                  {'id': 4, 'mat': 0, 'expr': ('s', -12), 'imp': {'n': 1},
                   'u': 2},
                  {'id': 5, 'mat': 0, 'expr': ('s', 12), 'imp': {'n': 1},
                   'u': 2},
                  {'id': 6, 'mat': 0, 'expr': ('s', 10), 'imp': {'n': 0}}],
        'surfaces': [{'id': 10, 'mn': 'so', 'params': [10.0]},
                     {'id': 11, 'mn': 's', 'params': [1.0, 0.0, 0.0, 3.0]},
                     {'id': 12, 'mn': 's', 'params': [2.0, 0.0, 0.0, 1.0]}],
        'transforms': {}},
    'matrix3_row_minus_ex': {   # PX only sees the supplied vector
        'cells': [{'id': 1, 'mat': 0, 'expr': ('s', -1), 'imp': {'n': 1}},
                  {'id': 2, 'mat': 0, 'expr': ('s', 1), 'imp': {'n': 1}}],
        'surfaces': [{'id': 1, 'mn': 'px', 'params': [1.0], 'tr': 5}],
        'transforms': {5: {'O': (0, 0, 0),
                           'B': [-1, 0, 0, 0, -1, 0, 0, 0, 1]}}},
    'cone_sheet_axis_antialigned': {
        'cells': [{'id': 1, 'mat': 0, 'expr': ('s', -1), 'imp': {'n': 1}},
                  {'id': 2, 'mat': 0, 'expr': ('s', 1), 'imp': {'n': 1}}],
        'surfaces': [{'id': 1, 'mn': 'kz', 'params': [0.0, 1.0, 1.0],
                      'tr': 5}],
        'transforms': {5: {'O': (0, 0, 0),
                           'B': [1, 0, 0, 0, -1, 0, 0, 0, -1]}}},
    'sq_under_transformation': {
        'cells': [{'id': 1, 'mat': 0, 'expr': ('s', -1), 'imp': {'n': 1}},
                  {'id': 2, 'mat': 0, 'expr': ('s', 1), 'imp': {'n': 1}}],
        'surfaces': [{'id': 1, 'mn': 'sq', 'tr': 5,
                      'params': [0.2, 1, 3, -2, 1.4, -1.7, -25, -3, 2.2,
                                 -1.9]}],
        'transforms': {5: {'O': (1, 2, 3),
                           'B': [math.cos(math.radians(a)) for a in
                                 (30, 60, 90, 120, 30, 90, 90, 90, 0)]}}},
    'implicit_surface_negative_only': {
        'cells': [{'id': 1, 'mat': 0, 'expr': ('s', -1), 'imp': {'n': 1},
                   'trcl': ('num', 5)},
                  {'id': 2, 'mat': 0, 'expr': ('s', -1001), 'imp': {'n': 1}},
                  {'id': 3, 'mat': 0, 'expr': ('s', 1), 'imp': {'n': 0}}],
        'surfaces': [{'id': 1, 'mn': 'so', 'params': [2.0]}],
        'transforms': {5: {'O': (1, 0, 0), 'B': None}}},
    'star_trcl_abbreviated': {
        'cells': [{'id': 1, 'mat': 0, 'expr': ('s', -1), 'imp': {'n': 1},
                   'trcl': {'O': (1, 0, 0),
                            'B': [1, 0, 0,
                                  0, math.cos(math.radians(30)), 0.5,
                                  0, -0.5, math.cos(math.radians(30))]}},
                  {'id': 2, 'mat': 0, 'expr': ('#c', 1), 'imp': {'n': 1}}],
        'surfaces': [{'id': 1, 'mn': 'c/x', 'params': [1.5, 0.5, 1.0]}],
        'transforms': {}},
    'inline_trcl_not_normalised': {
        'cells': [{'id': 1, 'mat': 0, 'expr': ('s', -1), 'imp': {'n': 1},
                   'trcl': {'O': (1, 0, 0),
                            'B': [0, 1, 0, -1, 0, 0, 0, 0, 1]}},
                  {'id': 2, 'mat': 0, 'expr': ('#c', 1), 'imp': {'n': 1}}],
        'surfaces': [{'id': 1, 'mn': 'c/x', 'params': [1.5, 0.5, 1.0]}],
        'transforms': {}},
}


def witness_fails(cls, rng, opts=()):
    '''Replay the witness of an open class; (still_failing, description).'''
    conv = impl.convert(WITNESSES.get(cls) or CORPUS[cls], list(opts))
    if not conv.ok or conv.text is None:
        return True, f'{conv.exc}: {conv.msg[:120]}'
    ref = WITNESS_DECKS.get(cls)
    if ref is None:
        return False, 'converted'
    t4 = impl.T4File(conv.text)
    pts = points_for(rng, 200)
    _n, failures = geomcheck.compare(ref, t4, pts, check_ids=True)
    if failures:
        return True, f'{len(failures)} of 200 points on the wrong side'
    return False, 'converted correctly'


# ---------------------------------------------------------------------------
# run
# ---------------------------------------------------------------------------

def run(res, tier, seed, proofs_ok):
    rng = random.Random(seed)
    quick = tier == 'quick'
    res.rule = (
        'TR cards: rotations from {identity, 24 proper signed permutations, '
        'Pythagorean axis rotations, integer-quaternion rotations, degree '
        'angles} x displacement x {3, 12, 13(m=1) entries, two rows/columns, '
        'row+column, one row/column with J placeholders, *TR degrees, '
        '4-digit rounded} + malformed stream (m=-1, m=2, bad counts, diagonal, '
        'scattered, row (-1,0,0)); surfaces: every elementary mnemonic incl. '
        'one-sheet cones, X/Z cards, tori, SQ/GQ and macrobody parts, moved '
        'by those transformations (and wrong-length ones); inline TRCL/FILL '
        'token lists; cell reference lists with 1000c+s; whole decks with '
        'n TR, TRCL=n, TRCL=(..), *TRCL, 1000c+s. non-trivial = anything but '
        'the identity/no transformation')

    res.extra['member_theorems'] = MEMBERS
    # line coverage is information only: it must never raise
    cov = None
    try:
        import c04_cov
        funcs, absent = c04_cov.anchored_functions()
        cov = c04_cov.LineCov(funcs)
        if absent:
            res.extra['line_coverage_absent_functions'] = absent
    except Exception as exc:      # pylint: disable=broad-except
        res.extra['line_coverage_error'] = repr(exc)[:300]
        cov = None
    if cov is None:
        run_body(res, rng, quick, seed)
        return
    with cov:
        run_body(res, rng, quick, seed)
    try:
        total, missing = cov.missing(c04_cov.UNREACHABLE)
        res.obligation(f'line coverage: every reachable line of the anchored '
                       f'functions ({total} lines, {len(cov.codes)} code '
                       'objects) is executed by the ties, the corpus and the '
                       'sweep', not missing,
                       '; '.join(f'{n}:{ln} {t}' for n, ln, t in missing[:12]))
    except Exception as exc:      # pylint: disable=broad-except
        res.extra['line_coverage_error'] = repr(exc)[:300]

def run_body(res, rng, quick, seed):
    # ---- 0. witnesses of the open classes ---------------------------------
    for cls in sorted(WITNESSES):
        failing, what = witness_fails(cls, random.Random(seed + 1))
        res.count(f'witness:{cls}:{"fails" if failing else "passes"}')
        if failing:
            res.violation('impl-violation', f'witness of {cls}: {what}',
                          {'input': {'deck': WITNESSES[cls]}}, cls=cls,
                          found_input=True)
    for name in sorted(CORPUS):
        # every corpus deck under the default options and under the inlining
        # option sets (the region of a cell does not depend on them)
        for opts in OPTION_SETS[:4]:
            failing, what = witness_fails(name, random.Random(seed + 2), opts)
            tag = ' '.join(opts) or 'default'
            res.count(f'corpus:{name}:{"fails" if failing else "passes"}')
            if failing:
                res.violation('impl-violation', f'corpus deck {name} '
                              f'(options: {tag}) fails: {what}',
                              {'input': {'deck': CORPUS[name],
                                         'options': list(opts)}}, cls=None,
                              found_input=True)

    for name, (text, exc) in sorted(MUST_REJECT.items()):
        conv = impl.convert(text)
        res.count(f'must-reject:{name}:{conv.exc}')
        if conv.ok or conv.exc != exc:
            res.violation('impl-violation', f'deck {name} must be rejected '
                          f'with {exc}, got ok={conv.ok} {conv.exc}',
                          {'input': {'deck': text}}, found_input=True)

    # helper-level ties look functions of /repo up by name.  A name that is
    # gone (renamed / inlined by a refactoring) is not a defect: a tie on a
    # helper is skipped and recorded, PROVIDED the deck sweep below exercises
    # the same code through the public entry point (it does: whole
    # conversions); a function the property's anchors name stays mandatory.
    guarded(res, 'normalize_transform(direct)+transform_vector', True,
            tie_direct, res, rng, 60 if quick else 600)
    guarded(res, 'trcard', False, tie_trcards, res, rng,
            500 if quick else 5000, 150 if quick else 1500)
    guarded(res, 'nm+adjust', False, tie_matrix, res, rng,
            300 if quick else 3000)
    pool = guarded(res, 'tocos+compose', False, tie_small, res, rng,
                   quick) or []
    guarded(res, 'surf', False, tie_surfaces, res, rng,
            2600 if quick else 26000, pool)
    guarded(res, 'convert_entry', True, tie_entries, res, rng,
            300 if quick else 3000, pool)
    guarded(res, 'trcl+fill (parse_*_kw)', True, tie_trcl, res, rng,
            400 if quick else 4000)
    guarded(res, 'implicit (extract_tr_surf_ids)', True, tie_implicit, res,
            rng, 200 if quick else 2000)
    guarded(res, 'lattice_filltr (develop_lattice instrumented)', True,
            tie_lattice, res, rng, 40 if quick else 400)
    with PotRecorder() as recorder:
        sweep_decks(res, rng, 70 if quick else 900)
        # an empty transformation in the list: pot_transform returns the tree
        try:
            from MIP.geom.semantics import Surface, GeomExpression
            from t4_geom_convert.Kernel.Volume.CellConversion import \
                CellConversion
            conv0 = CellConversion(10, 10, {}, {},
                                   {1: mcnp_parts('so', [2.0]),
                                    2: mcnp_parts('px', [1.0])}, {})
            conv0.apply_trcl([[]], GeomExpression(('*', Surface(-1),
                                                   Surface(2))))
        except (AttributeError, ImportError, TypeError) as exc:
            skipped(res, f'direct apply_trcl call: {exc}')
    if recorder.errors:
        skipped(res, f'apply_trcl recorder: {recorder.errors} records lost '
                '(internal representation not readable)')
    if recorder.active:
        tie_pot(res, recorder.records)
    else:
        skipped(res, 'apply_trcl recorder: CellConversion.apply_trcl not '
                'present')


def need(modpath, *names):
    '''Resolve functions of /repo by name OUTSIDE call(): a missing name raises
    AttributeError / ImportError here, which guarded() turns into a recorded
    skip (helper) or an undischarged obligation (anchored function) instead of
    a flood of "unexpected exception" alarms.'''
    import importlib
    mod = importlib.import_module(modpath)
    for name in names:
        obj = mod
        for part in name.split('.'):
            obj = getattr(obj, part)
    return mod


def skipped(res, what):
    res.extra.setdefault('skipped', []).append(what)
    res.count('skipped: ' + what[:80])


def guarded(res, label, helper_level, fun, *args):
    '''Run one tie; a function of /repo that cannot be found by name is not a
    property failure: helper-level ties are skipped (recorded in the
    evidence), ties on functions the anchors name become an undischarged
    obligation without a failing input.'''
    harness_side = (AttributeError, ImportError, TypeError, KeyError,
                    IndexError) if helper_level else (AttributeError,
                                                      ImportError)
    try:
        return fun(*args)
    except harness_side as exc:
        if helper_level:
            skipped(res, f'helper-level tie {label}: {exc}')
            return None
        res.obligation(f'tie:{label}', False,
                       f'anchored function not present: {exc}')
        res.violation('correspondence', f'tie:{label} cannot run: an '
                      f'anchored function is not present ({exc})',
                      {'theorem_or_correspondence': f'tie:{label}'},
                      found_input=False)
        return None

def report_tie(res, name, n, bad, errs, describe):
    res.obligation(f'tie:{name} ({n} cases: model = implementation)',
                   not bad and not errs, f'{len(bad)} disagreements {errs[:1]}')
    for idx in bad[:6]:
        what, payload = describe(idx)
        payload['theorem_or_correspondence'] = f'tie:{name}'
        res.violation('correspondence',
                      f'model and implementation disagree ({name}): {what}',
                      payload, found_input=False)
    if errs and not bad:
        res.violation('correspondence', f'tie:{name} could not be evaluated: '
                      + errs[0][-300:], {'theorem_or_correspondence':
                                         f'tie:{name}'}, found_input=False)


def unexpected(res, out, what, payload):
    if out[0] == 'err' and out[1].startswith('UNEXPECTED_'):
        res.violation('impl-violation', f'unexpected exception {out[1][11:]} '
                      f'on {what}', payload, found_input=True)
        return True
    return False


def tie_trcards(res, rng, n_valid, n_bad):
    need('t4_geom_convert.Kernel.Transformation.Transformation', 'normalize_transform'); need('MIP.geom.transforms', 'normalize_transform')
    cases, meta = [], []
    for i in range(n_valid + n_bad):
        card = gen_trcard(rng, valid=i < n_valid)
        out = impl_trcard(card)
        text = card_text(card)
        res.seen(text, nontrivial=card['rot'] != 'identity'
                 or card['fault'] is not None)
        res.count(f'trcard:{card["mask"]}' if card['fault'] is None
                  else f'trcard-fault:{card["fault"]}')
        res.count('trcard-impl:' + (out[1] if out[0] == 'err' else 'ok'))
        payload = {'input': {'card': text}, 'observed': str(out)[:300]}
        if unexpected(res, out, text, payload):
            continue
        why = oracle_trcard(card, out)
        if why:
            res.violation('impl-violation', f'{text}: {why}', payload,
                          cls=None, found_input=True)
        cases.append(cpair(cbool(card['star']),
                           clist(copt(v, cfloat) for v in card['entries']),
                           cres(out, cfl)))
        meta.append((text, out))
    if meta:
        res.sample({'card': meta[0][0], 'impl': str(meta[0][1])})
        res.sample({'card': meta[-1][0], 'impl': str(meta[-1][1])})
    bad, errs = common.run_case_files(
        'c04_trcard', HEADER, 'bool * list (option float) * res (list float)',
        'check_trcard', cases)
    report_tie(res, 'trcard', len(cases), bad, errs,
               lambda i: (f'{meta[i][0]} -> impl {meta[i][1]}',
                          {'input': {'card': meta[i][0]},
                           'observed': str(meta[i][1])}))


def tie_matrix(res, rng, n):
    need('t4_geom_convert.Kernel.Transformation.Transformation', 'adjust_matrix', 'normalize_matrix')
    from t4_geom_convert.Kernel.Transformation import Transformation as TR
    nm_cases, nm_meta, adj_cases, adj_meta = [], [], [], []
    doctest = [0.8021, 0.1056, -0.5878, -0.1305, 0.9914, 0.0000,
               0.5828, 0.0767, 0.8090]
    mats = [doctest, [1.0, 0.0, 0.0, 0.0, 1.0, 0.0, 0.0, 0.0, 1.0],
            [1.0, 0.0, 0.0, 0.0, math.cos(1.23), math.sin(1.23), 0.0,
             -math.sin(1.23), math.cos(1.23)],
            [0.0] * 9, [1.0, 0.0, 0.0, 1.0, 0.0, 0.0, 0.0, 0.0, 1.0]]
    for _ in range(n):
        _, b = gen_rot(rng)
        flat = [float(v) for v in b.reshape(9)]
        mode = rng.random()
        if mode < 0.3:
            flat = [round(v, rng.choice([3, 4, 5])) for v in flat]
        elif mode < 0.4:
            flat = [v + rng.choice([0, 1e-11, -3e-11, 1e-9]) for v in flat]
        elif mode < 0.5:
            flat = [-v for v in flat]        # improper
        elif mode < 0.55:
            flat = [v * 2.5 for v in flat]   # rows not unit
        mats.append(flat)
    for flat in mats:
        out = call(lambda m=flat: [float(v) for v in TR.adjust_matrix(list(m))])
        adj_cases.append(cpair(cfl(flat), cres(out, cfl)))
        adj_meta.append((flat, out))
        res.seen(('adjust', flat))
        res.count('adjust:' + (out[1] if out[0] == 'err' else 'ok'))
        if out[0] == 'ok':
            m = np.array(out[1]).reshape(3, 3)
            if np.abs(m @ m.T - np.eye(3)).max() > 1e-9:
                res.violation('impl-violation', 'adjust_matrix returned a '
                              f'non-orthonormal matrix for {flat}',
                              {'input': {'matrix': flat}}, found_input=True)
    for _ in range(n):
        _, b = gen_rot(rng)
        flat = [float(v) for v in b.reshape(9)]
        if rng.random() < 0.5:
            mask = MASKS[rng.choice(VALID_MASKS)]
        else:
            mask = [rng.random() < 0.55 for _ in range(9)]
        pat = [v if m else None for v, m in zip(flat, mask)]
        if rng.random() < 0.3:
            pat = pat[:rng.randint(0, 9)]
        out = call(lambda p=pat: [float(v) for v in
                                  TR.normalize_matrix(list(p))])
        if out[0] == 'err' and out[1].startswith('UNEXPECTED_'):
            continue
        nm_cases.append(cpair(clist(copt(v, cfloat) for v in pat),
                              cres(out, cfl)))
        nm_meta.append((pat, out))
        res.seen(('nm', pat))
        res.count('nm:' + (out[1] if out[0] == 'err' else 'ok'))
    bad, errs = common.run_case_files(
        'c04_adjust', HEADER, 'list float * res (list float)', 'check_adjust',
        adj_cases)
    report_tie(res, 'adjust', len(adj_cases), bad, errs,
               lambda i: (f'adjust_matrix({adj_meta[i][0]}) = {adj_meta[i][1]}',
                          {'input': {'matrix': adj_meta[i][0]},
                           'observed': str(adj_meta[i][1])}))
    bad, errs = common.run_case_files(
        'c04_nm', HEADER, 'list (option float) * res (list float)', 'check_nm',
        nm_cases)
    report_tie(res, 'nm', len(nm_cases), bad, errs,
               lambda i: (f'normalize_matrix({nm_meta[i][0]}) = {nm_meta[i][1]}',
                          {'input': {'pattern': nm_meta[i][0]},
                           'observed': str(nm_meta[i][1])}))


def tie_small(res, rng, quick):
    '''to_cos and compose_transform; returns a pool of normalised cards.'''
    need('t4_geom_convert.Kernel.Transformation.Transformation', 'compose_transform'); need('MIP.geom.transforms', 'to_cos')
    from MIP.geom.transforms import to_cos
    from t4_geom_convert.Kernel.Transformation import Transformation as TR
    angles = [0.0, 30.0, 45.0, 60.0, 90.0, 120.0, 135.0, 180.0, 270.0, 360.0,
              -90.0, 1e-3, 89.999999, 53.13010235415598]
    angles += [rng.uniform(-360, 720) for _ in range(100 if quick else 1000)]
    cases = [cpair(cfloat(a), cfloat(to_cos(a))) for a in angles]
    for a in angles:
        res.seen(('tocos', a))
        if abs(to_cos(a) - math.cos(a * math.pi / 180)) > 1e-12:
            res.violation('impl-violation', f'to_cos({a}) is not cos of the '
                          'angle in degrees', {'input': {'angle': a}},
                          found_input=True)
    bad, errs = common.run_case_files('c04_tocos', HEADER, 'float * float',
                                      'check_tocos', cases)
    report_tie(res, 'tocos', len(cases), bad, errs,
               lambda i: (f'to_cos({angles[i]})', {'input': {'angle':
                                                             angles[i]}}))
    pool, cases, meta = [], [], []
    for _ in range(60 if quick else 600):
        trs = []
        for _k in range(2):
            _, b = gen_rot(rng)
            trs.append(gen_origin(rng) + [float(v) for v in b.reshape(9)])
        pool.extend(trs)
        out = [float(v) for v in TR.compose_transform(trs[0], trs[1])]
        # independent: apply one after the other to a point
        p = np.array([0.3, -1.7, 2.2])

        def app(t, q):
            return np.array(t[3:]).reshape(3, 3) @ q + np.array(t[:3])
        if np.abs(app(out, p) - app(trs[1], app(trs[0], p))).max() > 1e-9:
            res.violation('impl-violation', 'compose_transform is not the '
                          'composition', {'input': {'t1': trs[0],
                                                    't2': trs[1]}},
                          found_input=True)
        cases.append(cpair(cfl(trs[0]), cfl(trs[1]), cfl(out)))
        meta.append(trs)
        res.seen(('compose', trs))
    bad, errs = common.run_case_files(
        'c04_compose', HEADER, 'list float * list float * list float',
        'check_compose', cases)
    report_tie(res, 'compose', len(cases), bad, errs,
               lambda i: (f'compose_transform{tuple(meta[i])}',
                          {'input': {'t1': meta[i][0], 't2': meta[i][1]}}))
    return pool


def tie_surfaces(res, rng, n, pool):
    need('t4_geom_convert.Kernel.Transformation.Transformation', 'transformation'); need('t4_geom_convert.Kernel.Surface.ConversionSurfaceMCNPToT4', 'conversion_surface_params'); need('t4_geom_convert.Kernel.FileHandlers.Parser.ParseMCNPSurface', 'to_surfaces_mcnp')
    cases, meta = [], []
    n_pts = 10
    for _ in range(n):
        mn, params = gen_surface(rng)
        tag, tr = gen_tr12(rng, pool)
        parts = call(mcnp_parts, mn, params)
        if parts[0] == 'err':
            res.count('surf-skipped:' + parts[1])
            continue
        parts = parts[1]
        colls, base_colls = [], []
        failed = None
        for surf, side in parts:
            ms = frame_form(surf)
            out = impl_surf(tr, surf)
            payload = {'input': {'mn': mn, 'params': params, 'tr': tr},
                       'observed': str(out)[:300]}
            if unexpected(res, out, f'{mn} {params} under {tr}', payload):
                failed = 'unexpected'
                continue
            if out[0] == 'ok':
                items = out[1][0]
                colls.append((items, side))
                out = ('ok', items)
            else:
                failed = out[1]
            if ms is None:
                res.count('surf-unmodelled')
                continue
            cases.append(cpair(cfl(tr), cmsurf(ms),
                               cres(out, lambda l: clist(ct4(x) for x in l))))
            meta.append((mn, params, tr, ms, out))
            if out[0] == 'ok':
                res.count('t4kind:' + '+'.join(x[0] for x in out[1]))
        res.seen((mn, params, tr), nontrivial=tag not in ('none', 'identity'))
        res.count(f'surf:{mn}')
        res.count(f'tr:{tag}')
        if failed:
            res.count(f'surf-impl:{failed}')
            if len(tr) in (0, 12):
                res.violation('impl-violation', f'{mn} {params} moved by {tr} '
                              f'is rejected ({failed})',
                              {'input': {'mn': mn, 'params': params,
                                         'tr': tr}}, found_input=True)
            continue
        if len(tr) not in (0, 12):
            continue
        # ---- independent oracle: senses at points ----
        b = np.array(tr[3:] if tr else [1, 0, 0, 0, 1, 0, 0, 0, 1], float)
        if np.abs(b.reshape(3, 3) @ b.reshape(3, 3).T - np.eye(3)).max() > 1e-9:
            continue
        truth = {'O': tr[:3] if tr else (0, 0, 0), 'B': list(b)}
        base = []
        for surf, side in parts:
            o = impl_surf([], surf)
            if o[0] != 'ok':
                base = None
                break
            base.append((o[1][0], side))
        if base is None:
            continue
        wrong_base = wrong = checked = 0
        first = None
        for p in points_for(rng, n_pts):
            p_aux = mcnpref.to_aux(truth, p)
            want = mcnp_sense(mn, params, p_aux)
            got = coll_sense(colls, p)
            if want is None or got is None:
                continue
            base_got = coll_sense(base, p_aux)
            if base_got is None:
                continue
            checked += 1
            if base_got != want:
                wrong_base += 1       # the untransformed surface is already
                continue              # off: C02/C03's business
            if got != want:
                wrong += 1
                first = first or list(p)
        if wrong_base:
            res.count('oracle:untransformed-surface-differs (C02/C03 domain)')
        if wrong:
            cls = None
            res.violation(
                'impl-violation',
                f'{mn} {params} moved by {tr}: {wrong} of {checked} points '
                f'have the wrong sense, e.g. {first}',
                {'input': {'mn': mn, 'params': params, 'tr': tr,
                           'point': first}}, cls=cls, found_input=True)
    if meta:
        res.sample({'surface': meta[0][:2], 'tr': meta[0][2],
                    'impl': str(meta[0][4])[:300]})
    bad, errs = common.run_case_files(
        'c04_surf', HEADER,
        'list float * msurf float * res (list (t4surf float * Z))',
        'check_surf', cases)
    report_tie(res, 'surf', len(cases), bad, errs,
               lambda i: (f'{meta[i][0]} {meta[i][1]} moved by {meta[i][2]} '
                          f'-> impl {str(meta[i][4])[:200]}',
                          {'input': {'mn': meta[i][0], 'params': meta[i][1],
                                     'tr': meta[i][2], 'frame': meta[i][3]},
                           'observed': str(meta[i][4])}))


# ---------------------------------------------------------------------------
# develop_lattice: the two call sites of compose_transform
# ---------------------------------------------------------------------------

def lattice_deck(rng):
    '''A 1-D or 2-D LAT=1 lattice with a fill transformation, a TRCL (by
    number or inline) or neither.'''
    pitch = rng.choice([1.0, 1.5, 2.0])
    two_d = rng.random() < 0.5
    mode = rng.choice(['fill', 'fill', 'trcl', 'trcl', 'trclnum', 'none',
                       'fill3'])
    spec = tr_spec(rng)
    toks = ' '.join(deckmod.num(v) for v in spec['print'])
    star = '*' if spec['star'] else ''
    rng_x = (rng.randint(-2, 0), rng.randint(0, 2))
    rng_y = (rng.randint(-1, 0), rng.randint(0, 1)) if two_d else (0, 0)
    n = (rng_x[1] - rng_x[0] + 1) * (rng_y[1] - rng_y[0] + 1)
    univs = ' '.join([rng.choice(['5', '6'])]
                     + [rng.choice(['5', '5', '6', '1', '0'])
                        for _ in range(n - 1)])
    fill = (f'fill={rng_x[0]}:{rng_x[1]} {rng_y[0]}:{rng_y[1]} 0:0 '
            + univs)
    data = ''
    if mode == 'fill':
        fill = star + fill + f' ({toks})'
    elif mode == 'fill3':
        fill += ' (' + ' '.join(deckmod.num(v) for v in spec['O']) + ')'
    elif mode == 'trcl':
        fill += f' {star}trcl=({toks})'
    elif mode == 'trclnum':
        fill += ' trcl=7'
        data = f'{star}tr7 {toks}\n'
    surf = f'-1 2 -3 4' if two_d else '-1 2'
    deck = (f'lattice deck {mode}\n1 0 -10 fill=1 imp:n=1\n'
            f'2 0 {surf} lat=1 u=1 {fill} imp:n=1\n'
            '3 0 -20 u=5 imp:n=1\n4 0 20 u=5 imp:n=1\n'
            '6 0 -21 u=6 imp:n=1\n7 0 21 u=6 imp:n=1\n'
            '5 0 10 imp:n=0\n\n10 so 30\n'
            f'1 px {pitch / 2}\n2 px {-pitch / 2}\n'
            f'3 py {pitch / 2}\n4 py {-pitch / 2}\n'
            '20 s 0.3 0 0 0.2\n21 c/z 0.1 0.1 0.15\n\n' + data)
    return mode, deckmod.wrap(deck) if False else deck


def tie_lattice(res, rng, n):
    from t4_geom_convert.Kernel.Volume import CellConversion as CC
    orig_dev = CC.CellConversion.develop_lattice
    orig_ct = CC.CellConversion.cell_transform
    orig_comp = CC.compose_transform
    rec, calls = [], []

    rec_errors = []

    def comp(t1, t2):
        out = orig_comp(t1, t2)
        try:
            calls.append(([float(v) for v in t1], [float(v) for v in t2],
                          [float(v) for v in out]))
        except Exception as exc:      # pylint: disable=broad-except
            rec_errors.append(repr(exc))
        return out

    def dev(self, key):
        pairs = []

        def ctr(slf, k, tr, cache=True):
            new_key = orig_ct(slf, k, tr, cache=cache)
            try:
                if k == key and not cache:
                    pairs.append((new_key, [float(v) for v in tr]))
            except Exception as exc:  # pylint: disable=broad-except
                rec_errors.append(repr(exc))
            return new_key
        try:
            cell = self.dic_cell_mcnp[key]
            filltr = [float(v) for v in cell.filltr] if cell.filltr else []
            trcls = [[float(v) for v in t] for t in (cell.trcl or [])]
        except Exception as exc:      # pylint: disable=broad-except
            rec_errors.append(repr(exc))
            return orig_dev(self, key)
        CC.CellConversion.cell_transform = ctr
        try:
            orig_dev(self, key)
        finally:
            CC.CellConversion.cell_transform = orig_ct
        try:
            for new_key, tr in pairs:
                rec.append((filltr, trcls, tr[:3],
                            [float(v) for v in
                             self.dic_cell_mcnp[new_key].filltr]))
        except Exception as exc:      # pylint: disable=broad-except
            rec_errors.append(repr(exc))
    CC.compose_transform = comp
    CC.CellConversion.develop_lattice = dev
    decks = []
    try:
        for _ in range(n):
            mode, text = lattice_deck(rng)
            k0 = len(rec)
            conv = impl.convert(text)
            res.seen(text)
            res.count(f'lattice:{mode}:{"ok" if conv.ok else conv.exc}')
            if not conv.ok:
                res.violation('impl-violation', f'lattice deck ({mode}) '
                              f'rejected: {conv.exc}: {conv.msg[:150]}',
                              {'input': {'deck': text}}, found_input=True)
            decks.extend([text] * (len(rec) - k0))
    finally:
        CC.compose_transform = orig_comp
        CC.CellConversion.develop_lattice = orig_dev
        CC.CellConversion.cell_transform = orig_ct
    if rec_errors:
        skipped(res, f'develop_lattice recorder: {len(rec_errors)} records '
                f'lost ({rec_errors[0][:80]})')
    # independent oracle: the element's fill transformation, as an MCNP point
    # map, is "fill transformation (else TRCL), then translate to the element"
    for (filltr, trcls, transl, out), text in zip(rec, decks):
        first = filltr or (trcls[0] if trcls else
                           [0.0] * 3 + [1.0, 0, 0, 0, 1.0, 0, 0, 0, 1.0])
        want = [a + b for a, b in zip(first[:3], transl)] + list(first[3:12])
        if len(out) != 12 or max(abs(a - b) for a, b in zip(out, want)) > 1e-9:
            res.violation('impl-violation', 'lattice element at '
                          f'{transl}: fill transformation {out} is not '
                          f'"{first} then translate"',
                          {'input': {'deck': text, 'element': transl}},
                          found_input=True)
    cases = [cpair(cfl(f), clist(cfl(t) for t in ts), cv3(tl), cfl(out))
             for f, ts, tl, out in rec]
    bad, errs = common.run_case_files(
        'c04_lattice', HEADER,
        'list float * list (list float) * V3 float * list float',
        'check_lattice_filltr', cases)
    report_tie(res, 'lattice_filltr', len(cases), bad, errs,
               lambda i: (f'develop_lattice filltr={rec[i][0]} trcl={rec[i][1]} '
                          f'element {rec[i][2]} -> {rec[i][3]}',
                          {'input': {'deck': decks[i]},
                           'observed': str(rec[i])}))
    bad, errs = common.run_case_files(
        'c04_callsite', HEADER, 'list float', 'check_second_is_translation',
        [cfl(t2) for _t1, t2, _o in calls])
    res.obligation(f'call sites: second argument of compose_transform is a '
                   f'pure translation in all {len(calls)} recorded calls '
                   '(hypothesis of C04_compose_translation_second)',
                   not bad and not errs, f'{len(bad)} calls {errs[:1]}')
    for idx in bad[:3]:
        res.violation('correspondence', 'compose_transform called with a '
                      f'second argument that is not a translation: {calls[idx]}',
                      {'theorem_or_correspondence':
                       'C04_compose_translation_second',
                       'observed': str(calls[idx])}, found_input=False)
    bad, errs = common.run_case_files(
        'c04_compose2', HEADER, 'list float * list float * list float',
        'check_compose', [cpair(cfl(a), cfl(b), cfl(o)) for a, b, o in calls])
    report_tie(res, 'compose(call sites)', len(calls), bad, errs,
               lambda i: (f'compose_transform{calls[i][:2]}',
                          {'observed': str(calls[i])}))


# ---------------------------------------------------------------------------
# apply_trcl / pot_transform recorded on whole conversions
# ---------------------------------------------------------------------------

FACET_KEY = 10 ** 6     # facet n.k is the model's surface leaf k * 10^6 + n


class PotRecorder:
    '''Wraps CellConversion.apply_trcl while decks are converted and records
    (TRCL list, expression, new_surf_key, dictionary entries) before and after.'''

    def __init__(self):
        self.records = []
        self.active = False
        self.errors = 0

    def __enter__(self):
        from t4_geom_convert.Kernel.Volume import CellConversion as CC
        self.cc = CC
        self.orig = getattr(CC.CellConversion, 'apply_trcl', None)
        self.active = self.orig is not None
        if not self.active:
            return self
        rec = self

        def wrapped(conv, trcls, geometry):
            # the recording reads internal attributes of the converter: it
            # must never disturb the conversion it observes
            try:
                before = rec.snapshot(conv, geometry)
                key0 = conv.new_surf_key
            except Exception:     # pylint: disable=broad-except
                before = None
                rec.errors += 1
            out = rec.orig(conv, trcls, geometry)
            try:
                if before is not None and trcls:
                    news = []
                    ok = True
                    for k in range(conv.new_surf_key, key0, -1):
                        entry = rec.entry(conv.dic_surf_mcnp[k])
                        ok = ok and entry is not None
                        news.append((k, entry))
                    tree1 = rec.tree(out)
                    if ok and tree1 is not None:
                        rec.records.append((
                            [[float(v) for v in t] for t in trcls],
                            before[0], key0, before[1], tree1,
                            conv.new_surf_key, news))
            except Exception:     # pylint: disable=broad-except
                rec.errors += 1
            return out
        CC.CellConversion.apply_trcl = wrapped
        return self

    def __exit__(self, *exc):
        if self.active:
            self.cc.CellConversion.apply_trcl = self.orig

    def tree(self, node):
        from MIP.geom.semantics import Surface
        from t4_geom_convert.Kernel.Volume.CellMCNP import CellRef
        if isinstance(node, Surface):
            if node.sub is not None:
                # facet n.k: its own dictionary entry, keyed FACET_KEY*k + n
                sign = 1 if int(node) >= 0 else -1
                return ('s', sign * (FACET_KEY * node.sub + abs(int(node))))
            return ('s', int(node))
        if isinstance(node, int):
            return ('s', node)
        if isinstance(node, CellRef):
            return ('c', int(node.cell))
        if isinstance(node, (tuple, list)):
            if node[0] == '^':
                return ('n', int(node[1]))
            args = [self.tree(a) for a in node[1:]]
            if any(a is None for a in args) or node[0] not in ('*', ':'):
                return None
            return (node[0], args)
        return None

    def entry(self, parts):
        out = []
        for surf, side in parts:
            ms = frame_form(surf)
            if ms is None:
                return None
            out.append((ms, int(side)))
        return out

    def leaves(self, tree, acc):
        if tree[0] == 's':
            acc.add(abs(tree[1]))
        elif tree[0] in ('*', ':'):
            for a in tree[1]:
                self.leaves(a, acc)
        return acc

    def snapshot(self, conv, geometry):
        tree = self.tree(geometry)
        if tree is None:
            return None
        table = []
        from MIP.geom.semantics import Surface
        for k in sorted(self.leaves(tree, set())):
            key = Surface(k % FACET_KEY, sub=k // FACET_KEY) \
                if k >= FACET_KEY else k
            try:
                parts = conv.dic_surf_mcnp[key]
            except (KeyError, IndexError):
                return None
            entry = self.entry(parts)
            if entry is None:
                return None
            table.append((k, entry))
        return tree, table


def ctree(tree):
    if tree[0] == 's':
        return f'(GSurf {cz(tree[1])})'
    if tree[0] == 'c':
        return f'(GCell {cz(tree[1])})'
    if tree[0] == 'n':
        return f'(GCompl {cz(tree[1])})'
    op = 'GInter' if tree[0] == '*' else 'GUnion'
    return f'(GOp {op} {clist(ctree(a) for a in tree[1])})'


def ctable(table):
    return clist(cpair(cz(k), clist(cpair(cmsurf(ms), cz(sd))
                                    for ms, sd in entry))
                 for k, entry in table)


def tie_pot(res, records):
    cases = []
    for trcls, tree0, key0, table, tree1, key1, news in records:
        cases.append(cpair(clist(cfl(t) for t in trcls), ctree(tree0),
                           cz(key0), ctable(table),
                           cpair(ctree(tree1), cz(key1), ctable(news))))
        res.seen(('pot', str(tree0), trcls))
        res.count(f'pot:leaves={min(len(news), 6)}')
    bad, errs = common.run_case_files(
        'c04_pot', HEADER,
        'list (list float) * gtree * Z * list (Z * list (msurf float * Z)) '
        '* (gtree * Z * list (Z * list (msurf float * Z)))',
        'check_pot', cases)
    report_tie(res, 'apply_trcl', len(cases), bad, errs,
               lambda i: (f'apply_trcl {records[i][1]} by {records[i][0]} -> '
                          f'{records[i][4]}',
                          {'observed': str(records[i])[:1500]}))


def tie_entries(res, rng, n, pool):
    '''convert_mcnp_surface (SurfaceCollection.join) on whole dictionary
    entries: elementary surfaces and every macrobody, moved or not.'''
    need('t4_geom_convert.Kernel.Transformation.Transformation', 'transformation'); need('t4_geom_convert.Kernel.Surface.ConversionSurfaceMCNPToT4', 'convert_mcnp_surface'); need('t4_geom_convert.Kernel.FileHandlers.Parser.ParseMCNPSurface', 'to_surfaces_mcnp')
    from t4_geom_convert.Kernel.Transformation.Transformation \
        import transformation
    from t4_geom_convert.Kernel.Surface.ConversionSurfaceMCNPToT4 \
        import convert_mcnp_surface
    cases, meta = [], []
    for _ in range(n):
        mn, params = gen_surface(rng)
        _tag, tr = gen_tr12(rng, pool)
        if len(tr) not in (0, 12):
            tr = []
        parts = call(mcnp_parts, mn, params)
        if parts[0] == 'err':
            continue

        def run():
            moved = [(transformation(tr, surf), side)
                     for surf, side in parts[1]]
            coll = convert_mcnp_surface(1, moved)
            out = []
            for t4s, side in coll.surfs:
                trf = None
                if t4s.transform is not None:
                    trf = ([float(v) for v in t4s.transform[0].flat],
                           [float(v) for v in t4s.transform[1].flat])
                out.append((t4s.type_surface.name,
                            [float(v) for v in t4s.param_surface], trf,
                            int(side)))
            return moved, out
        got = call(run)
        if got[0] == 'err':
            if not unexpected(res, got, f'{mn} {params} under {tr}',
                              {'input': {'mn': mn, 'params': params,
                                         'tr': tr}}):
                res.count('entry-impl:' + got[1])
            continue
        moved, out = got[1]
        entry = [(frame_form(surf), int(side)) for surf, side in moved]
        if any(ms is None for ms, _ in entry):
            continue
        cases.append(cpair(clist(cpair(cmsurf(ms), cz(sd))
                                 for ms, sd in entry),
                           cres(('ok', out),
                                lambda l: clist(ct4(x) for x in l))))
        meta.append((mn, params, tr, out))
        res.seen(('entry', mn, params, tr))
        # independent oracle on the JOINED collection (sides multiplied)
        bmat = np.array(tr[3:] if tr else [1, 0, 0, 0, 1, 0, 0, 0, 1], float)
        if np.abs(bmat.reshape(3, 3) @ bmat.reshape(3, 3).T
                  - np.eye(3)).max() < 1e-9:
            truth = {'O': tr[:3] if tr else (0, 0, 0), 'B': list(bmat)}
            tr_saved, tr = tr, []
            base = call(run)
            tr = tr_saved
            wrong = first = None
            if base[0] == 'ok':
                wrong = 0
                for pt in points_for(rng, 6):
                    p_aux = mcnpref.to_aux(truth, pt)
                    want = mcnp_sense(mn, params, p_aux)
                    got_s = coll_sense([(out, 1)], pt)
                    base_s = coll_sense([(base[1][1], 1)], p_aux)
                    if None in (want, got_s, base_s) or base_s != want:
                        continue
                    if got_s != want:
                        wrong += 1
                        first = first or list(pt)
            if wrong:
                res.violation(
                    'impl-violation', f'{mn} {params} moved by {tr}: the '
                    f'joined collection has the wrong sense at {first}',
                    {'input': {'mn': mn, 'params': params, 'tr': tr,
                               'point': first}}, found_input=True)
        res.count(f'entry:parts={len(entry)}:surfs={len(out)}')
    bad, errs = common.run_case_files(
        'c04_entry', HEADER,
        'list (msurf float * Z) * res (list (t4surf float * Z))',
        'check_entry', cases)
    report_tie(res, 'convert_entry', len(cases), bad, errs,
               lambda i: (f'{meta[i][0]} {meta[i][1]} moved by {meta[i][2]} '
                          f'-> {str(meta[i][3])[:200]}',
                          {'input': {'mn': meta[i][0], 'params': meta[i][1],
                                     'tr': meta[i][2]},
                           'observed': str(meta[i][3])}))


def tie_direct(res, rng, n):
    '''Direct calls of Transformation.normalize_transform (0, 3, 12, 13 and
    odd lengths: the branches MIP's padding hides) and of the helper
    Transformation.transform_vector (affine reading).'''
    need('t4_geom_convert.Kernel.Transformation.Transformation', 'normalize_transform', 'transform_vector')
    from t4_geom_convert.Kernel.Transformation import Transformation as TR
    nt_cases, nt_meta, af_cases, af_meta = [], [], [], []
    for k in range(n):
        _, b = gen_rot(rng)
        full = gen_origin(rng) + [float(v) for v in b.reshape(9)] + [1.0]
        length = [0, 3, 12, 13, 2, 5, 9][k % 7]
        lst = full[:length]
        if length == 13 and rng.random() < 0.5:
            lst[-1] = rng.choice([-1.0, 2.0])
        out = call(lambda l=lst: [float(v) for v in
                                  TR.normalize_transform(list(l))])
        if not unexpected(res, out, f'normalize_transform({lst})',
                          {'input': {'transf': lst}}):
            nt_cases.append(cpair(clist(copt(v, cfloat) for v in lst),
                                  cres(out, cfl)))
            nt_meta.append((lst, out))
        res.seen(('nt', lst))
        tr = full[:12]
        vec = [rng.uniform(-3, 3) for _ in range(3)]
        got = [float(v) for v in TR.transform_vector(tr, vec)]
        want = np.array(tr[3:]).reshape(3, 3) @ np.array(vec) + np.array(tr[:3])
        if np.abs(np.array(got) - want).max() > 1e-9:
            res.violation('impl-violation', 'transform_vector is not A v + b',
                          {'input': {'tr': tr, 'vec': vec}}, found_input=True)
        af_cases.append(cpair(cfl(tr), cv3(vec), cv3(got)))
        af_meta.append((tr, vec, got))
    bad, errs = common.run_case_files(
        'c04_nt', HEADER, 'list (option float) * res (list float)',
        'check_nt', nt_cases)
    report_tie(res, 'normalize_transform(direct)', len(nt_cases), bad, errs,
               lambda i: (f'normalize_transform({nt_meta[i][0]}) = '
                          f'{nt_meta[i][1]}',
                          {'input': {'transf': nt_meta[i][0]},
                           'observed': str(nt_meta[i][1])}))
    bad, errs = common.run_case_files(
        'c04_affine', HEADER, 'list float * V3 float * V3 float',
        'check_affine', af_cases)
    report_tie(res, 'transform_vector(affine)', len(af_cases), bad, errs,
               lambda i: (f'transform_vector{af_meta[i][:2]}',
                          {'observed': str(af_meta[i])}))


def gen_tokens(rng):
    '''Entries after a TRCL / FILL keyword (as strings) + star flag.'''
    _, b = gen_rot(rng)
    flat = [float(v) for v in b.reshape(9)]
    origin = gen_origin(rng)
    star = rng.random() < 0.5
    if star:
        flat, _ = degrees_of(flat)
    shape = rng.random()
    if shape < 0.2:
        return star, [str(rng.choice([1, 2, 3, 5, 9, 11]))], 'number'
    if shape < 0.35:
        return star, [repr(v) for v in origin], 'three'
    if shape < 0.65:
        return star, [repr(v) for v in origin + flat], 'twelve'
    if shape < 0.8:
        m = rng.choice([1.0, 1.0, -1.0])
        return star, [repr(v) for v in origin + flat + [m]], f'thirteen(m={m})'
    n = rng.choice([0, 2, 4, 6, 8, 9, 11])
    return star, [repr(v) for v in (origin + flat)[:n]], f'short{n}'


def oracle_kw(res, elt, toks, trs, shape):
    '''Property-level check of the transformation an inline TRCL / FILL
    keyword yields: the rigid motion MCNP assigns to the entries.'''
    from t4_geom_convert.Kernel.FileHandlers.Parser.ParseMCNPCell \
        import ParseMCNPCell
    obj = ParseMCNPCell.__new__(ParseMCNPCell)
    obj.transforms = trs
    if 'trcl' in elt:
        out = call(lambda: obj.parse_trcl_kw(elt, list(reversed(toks))))
    else:
        out = call(lambda: obj.parse_fill_kw(
            elt, list(reversed(['4'] + toks)))[2])
    payload = {'input': {'elt': elt, 'tokens': toks, 'transforms': trs},
               'observed': str(out)[:300]}
    if unexpected(res, out, f'{elt} {toks}', payload):
        return
    star = elt.startswith('*')
    vals = [float(t) for t in toks]
    if shape.startswith('thirteen(m=-1'):
        if out[0] == 'ok':
            res.violation('impl-violation', f'{elt} transformation with m=-1 '
                          'accepted', payload, found_input=True)
        return
    if shape == 'number':
        want = trs.get(int(toks[0]))
        if want is None:
            return
    elif shape == 'three':
        want = vals + [1.0, 0.0, 0.0, 0.0, 1.0, 0.0, 0.0, 0.0, 1.0]
    elif shape in ('twelve', 'thirteen(m=1.0)'):
        mat = vals[3:12]
        if star:
            mat = [math.cos(math.radians(a)) for a in mat]
        want = vals[:3] + mat
    else:
        return
    if out[0] != 'ok':
        res.violation('impl-violation', f'{elt} {toks} rejected ({out[1]})',
                      payload, found_input=True)
        return
    got = [float(v) for v in out[1]]
    if len(got) != 12 or max(abs(a - b) for a, b in zip(got, want)) > 1e-8:
        res.violation('impl-violation', f'{elt} {toks}: transformation '
                      f'{got} is not the one on the card {want}', payload,
                      found_input=True)


def tie_trcl(res, rng, n):
    need('t4_geom_convert.Kernel.FileHandlers.Parser.ParseMCNPCell', 'ParseMCNPCell.parse_trcl_kw', 'ParseMCNPCell.parse_fill_kw')
    from t4_geom_convert.Kernel.FileHandlers.Parser.ParseMCNPCell \
        import ParseMCNPCell
    obj = ParseMCNPCell.__new__(ParseMCNPCell)
    trcl_cases, fill_cases, trcl_meta, fill_meta = [], [], [], []
    for _ in range(n):
        trs = {}
        for num in rng.sample([1, 2, 3, 5, 9], rng.randint(0, 4)):
            _, b = gen_rot(rng)
            trs[num] = gen_origin(rng) + [float(v) for v in b.reshape(9)]
        obj.transforms = trs
        star, toks, shape = gen_tokens(rng)
        entries = [float(t) for t in toks]
        trid = int(toks[0]) if len(toks) == 1 else 0
        ctrs = clist(cpair(cz(k), cfl(v)) for k, v in trs.items())
        key = 'trcl' if rng.random() < 0.5 else 'fill'
        elt = ('*' if star else '') + key
        res.seen((elt, toks, sorted(trs)))
        res.count(f'{elt}:{shape}')
        oracle_kw(res, elt, toks, trs, shape)
        if key == 'trcl':
            out = call(lambda: obj.parse_trcl_kw(elt, list(reversed(toks))))
            if out[0] == 'ok':
                if any(isinstance(v, str) for v in out[1]):
                    out = ('err', 'UNEXPECTED_strings')
                else:
                    out = ('ok', [float(v) for v in out[1]])
            trcl_cases.append(cpair(cbool(star), cfl(entries), ctrs, cz(trid),
                                    cres(out, cfl)))
            trcl_meta.append((elt, toks, trs, out))
        else:
            out = call(lambda: obj.parse_fill_kw(
                elt, list(reversed(['4'] + toks)))[2])
            if out[0] == 'ok':
                out = ('ok', [float(v) for v in out[1]])
            fill_cases.append(cpair(cbool(star), cfl(entries), ctrs, cz(trid),
                                    cres(out, cfl)))
            fill_meta.append((elt, toks, trs, out))
    bad, errs = common.run_case_files(
        'c04_trcl', HEADER,
        'bool * list float * list (Z * list float) * Z * res (list float)',
        'check_trcl', trcl_cases)
    report_tie(res, 'trcl', len(trcl_cases), bad, errs,
               lambda i: (f'{trcl_meta[i][0]} {trcl_meta[i][1]} -> '
                          f'{str(trcl_meta[i][3])[:200]}',
                          {'input': {'elt': trcl_meta[i][0],
                                     'tokens': trcl_meta[i][1],
                                     'transforms': trcl_meta[i][2]},
                           'observed': str(trcl_meta[i][3])}))
    bad, errs = common.run_case_files(
        'c04_fill', HEADER,
        'bool * list float * list (Z * list float) * Z * res (list float)',
        'check_fill', fill_cases)
    report_tie(res, 'fill', len(fill_cases), bad, errs,
               lambda i: (f'{fill_meta[i][0]} {fill_meta[i][1]} -> '
                          f'{str(fill_meta[i][3])[:200]}',
                          {'input': {'elt': fill_meta[i][0],
                                     'tokens': fill_meta[i][1],
                                     'transforms': fill_meta[i][2]},
                           'observed': str(fill_meta[i][3])}))


def tie_implicit(res, rng, n):
    from MIP.geom.parsegeom import get_ast
    from t4_geom_convert.Kernel.Volume.ConstructVolumeT4 \
        import extract_tr_surf_ids
    cases, meta = [], []
    for _ in range(n):
        defined = sorted(rng.sample([1, 2, 3, 7, 12, 999, 1000, 1001, 2003,
                                     5002], rng.randint(1, 5)))
        cells = {}
        refs_all = []
        for cid in range(1, rng.randint(2, 4)):
            refs = [rng.choice([1, 2, 3, 7, 12, 999, 1000, 1001, 1002, 2003,
                                2007, 3001, 5002, 12003, 45999])
                    * rng.choice([1, -1]) for _ in range(rng.randint(1, 5))]
            text = ' '.join(str(r) for r in refs)
            if len(refs) > 2 and rng.random() < 0.4:
                text = f'{refs[0]} : ({" ".join(str(r) for r in refs[1:])})'
            cells[cid] = types.SimpleNamespace(geometry=get_ast(text))
            refs_all.extend(refs)
        got = sorted(extract_tr_surf_ids(cells) - set(defined))
        cases.append(cpair(clist(cz(r) for r in refs_all),
                           clist(cz(d) for d in defined),
                           clist(cz(g) for g in got)))
        meta.append((refs_all, defined, got))
        res.seen(('implicit', refs_all, defined))
    bad, errs = common.run_case_files(
        'c04_implicit', HEADER, 'list Z * list Z * list Z',
        'check_implicit_ids', cases)
    report_tie(res, 'implicit', len(cases), bad, errs,
               lambda i: (f'references {meta[i][0]} defined {meta[i][1]} -> '
                          f'{meta[i][2]}',
                          {'input': {'refs': meta[i][0],
                                     'defined': meta[i][1]},
                           'observed': meta[i][2]}))


def sweep_decks(res, rng, n):
    modes = ['surf_tr'] * 5 + ['trcl_num'] * 3 + ['trcl_inline3',
                                                  'trcl_star12',
                                                  'trcl_star12', 'implicit',
                                                  'implicit', 'trcl_plain12',
                                                  'trcl_plain12', 'trcl_13',
                                                  'trcl_abbrev']
    modes += FACET_MODES      # several facets of one macrobody, moved
    modes += TWIN_MODES       # one surface card under two transformations
    ok = 0
    for _ in range(n):
        mode = rng.choice(modes)
        if mode in FACET_MODES:
            deck, moved = gen_facet_deck(rng, mode)
        elif mode in TWIN_MODES:
            deck, moved = gen_twin_deck(rng, mode)
        else:
            deck, moved = gen_deck(rng, mode)
        if mode == 'implicit' and rng.random() < 0.2:
            # refer to one implicit surface negatively only
            deck['cells'].append({'id': 3, 'mat': 0, 'rho': None,
                                  'expr': ('s', -(1000 + moved[0][0]['id'])),
                                  'imp': {'n': 0}, 'u': 0})
        opts = rng.choice(OPTION_SETS) if rng.random() < 0.5 else []
        status, detail, text = check_deck(deck, rng, 120, opts)
        classes = deck_classes(deck, moved)
        res.seen(text)
        res.count(f'deck:{mode}:{status}')
        res.count('deck-options:' + (' '.join(opts) or 'default'))
        if status == 'ok':
            ok += 1
            res.sample({'deck': text}, limit=3)
            continue
        cls = None
        res.violation('impl-violation',
                      f'deck ({mode}; options {" ".join(opts) or "default"}) '
                      f'{status}: {detail}',
                      {'input': {'deck': text, 'options': list(opts)},
                       'mode': mode,
                       'classes': sorted(classes)}, cls=cls,
                      found_input=True)
    res.obligation(f'sweep: {n} probe decks converted and compared with the '
                   'reference semantics', True, f'{ok} agree')


# ---------------------------------------------------------------------------
# replay
# ---------------------------------------------------------------------------

def replay(path):
    data = json.load(open(path))
    inp = data.get('input', {})
    print('recorded:', data.get('what'))
    if 'deck' in inp:
        conv = impl.convert(inp['deck'])
        print('conversion:', conv)
        if conv.text:
            print(conv.text)
    elif 'card' in inp:
        star = inp['card'].startswith('*')
        toks = inp['card'].split()[1:]
        card = {'star': star,
                'entries': [None if t == 'j' else float(t) for t in toks]}
        print('implementation:', impl_trcard(card))
        model, _ = common.coq_eval(HEADER, 'tr_card FS ' + cbool(star) + ' '
                                   + clist(copt(v, cfloat)
                                           for v in card['entries']))
        print('model:', model)
    elif 'mn' in inp:
        parts = mcnp_parts(inp['mn'], inp['params'])
        for surf, side in parts:
            print('part', surf, side)
            out = impl_surf(inp['tr'], surf)
            print('implementation:', out[1][0] if out[0] == 'ok' else out)
            ms = frame_form(surf)
            if ms is not None:
                model, _ = common.coq_eval(
                    HEADER, f'tr_convert FS {cfl(inp["tr"])} {cmsurf(ms)}')
                print('model:', model)
    else:
        print(json.dumps(inp)[:2000])
    return 0
