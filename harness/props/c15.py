'''C15 — LIKE n BUT equals the explicit cell card it abbreviates.

Theorems: coq/Properties/C15.v.  Ties (correspondence by execution):
  deck   : get_cells(parser) dictionary + environment tables
           -> ParseMCNPCell(parser, None, lattice_params).parse()
           vs Model.parse_all at binary64 (every field of every CellMCNP, the
           skipped list, or the exception class)
  split  : MIP.mip.cellcard.split on LIKE cards  vs  Model.split_like
Independent oracles (sweep): (0) a corpus of minimised LIKE decks with their
hand-written expansions; (1) the written file of each LIKE deck against the
written file of its explicit expansion, the expansion being done by the
generator on the abstract deck (copy the resolved base record, override the
listed keys, importance per particle, a void copy has no density); (2) the
parsed cells of both decks field by field, plus the generator's own reading
of get_cells and of the geometry; (3) geomcheck at sample points on the LIKE
deck.  No known finding is open for C15.'''
import json
import random
import re
import warnings

import common
import impl
import c15_gen as gen
from common import cstr, clist, cfloat, copt, cpair, cz

THEOREMS = ['C15_tokens_of_appended_options', 'C15_keywords_prefix',
            'C15_keywords_later_wins', 'C15_importance_per_particle',
            'C15_split_like_card', 'C15_split_then_like_re',
            'C15_like_re_recognises', 'C15_like_chain_text', 'C15_chain_depth',
            'C15_like_in_parse_all', 'C15_replace_like_card', 'C15_expand_all',
            'C15_like_equals_expanded', 'C15_like_mat_void',
            'C15_expansion_card', 'C15_like_expansion_card',
            'C15_expansion_is_override', 'C15_expansion_deck',
            'C15_expansion_groups_complete', 'C15_explicit_card_has_density',
            'C15_card_text_reads_back',
            'C15_importance_dictionary_linked',
            'C15_like_importance_zero_iff_linked',
            'C15_like_skipped_iff_linked']
TRUSTED = [
    'hand-written models coq/C15/Model.v and coq/C15/Canon.v (tied by '
    'execution: tie:deck, tie:split, tie:canon; sweep:canon-impl hands the '
    'cards constructed by Canon.v to the implementation)',
    'environment of the model, filled per deck from the repository\'s own '
    'functions and not modelled here: datacard.to_float(tok), '
    'int(float(tok)), int(to_float(tok)) of a token (which reader is used '
    'where IS in the model), self.transforms (TR cards through '
    'get_mcnp_transforms), normalize_transform, normalize_float (C14 links '
    'its model of normalize_float into this environment: '
    'C14_parse_metamorphic_c09_linked), get_ast printed with repr (C11), '
    'parse_importance_cards() (C12), the --lattice option',
    'binary64 execution: round() of a float is C12.Exec.f_roundZ, '
    'cos(radians(x)) is Base/Scalar.f_cos compared at 1e-9',
    'the importance dictionary is no longer only tied: it is proved equal to '
    'C12\'s (C15_importance_dictionary_linked)',
    'harness: generators, the expansion of LIKE cards on the abstract deck, '
    'impl.T4File reader, mcnpref/t4eval/geomcheck, PEG shim replacing TatSu',
]
ASSUMPTIONS = [
    'cell numbers are distinct; LIKE chains are acyclic (a cyclic chain makes '
    'the implementation loop for ever; the model answers EFuel; '
    'C15_chain_depth: on acyclic tables the fuel is always enough)',
    'FILL arrays: numbers, nR, nI, xM, nJ are modelled; LOG / ILOG are not '
    '(EUnsupported: they need a float power, which neither Base.Scalar nor '
    'the environment record — frozen, C14 builds it positionally — provides); '
    'array size 0 is outside (the code then deletes every remaining token); '
    'a negative size is modelled (ParseMCNPCellError)',
    'the card-construction theorems hold where Canon.canon_card is defined: '
    'undefined for a stray number after a keyword that is read, for a '
    'material without a density (C15_explicit_card_has_density: no such '
    'card exists) and for a particle that does not read back',
    'ASCII text; white space = blank, TAB, LF, VT, FF, CR',
    'the model\'s int() is narrower than Python\'s (sign + ASCII digits)',
]
HEADER = ('From Coq Require Import List NArith ZArith Bool String Ascii '
          'PrimFloat Uint63.\nFrom T4V Require Import Base.Str Base.Scalar '
          'C15.Model C15.Canon C15.Exec.\nOpen Scope string_scope.\n')



# ---------------------------------------------------------------------------
# implementation side
# ---------------------------------------------------------------------------

def exc_class(exc):
    from t4_geom_convert.Kernel.FileHandlers.Parser.ParseMCNPCell import (
        ParseMCNPCellError, MissingLatticeOptError)
    if isinstance(exc, ParseMCNPCellError):
        return 'EParse'
    if isinstance(exc, MissingLatticeOptError):
        return 'EMissingLat'
    if isinstance(exc, KeyError):
        return 'EKey'
    if isinstance(exc, IndexError):
        return 'EIndex'
    if isinstance(exc, AssertionError):
        return 'EAssert'
    if type(exc) is ValueError:      # pylint: disable=unidiomatic-typecheck
        return 'EValue'
    return 'EOther'


def py_tokens(opts):
    '''Reading of the option normalisation used only to collect the tokens
    whose numeric readings the model may ask for.'''
    opts = re.sub(' *: *', ':', opts).lower()
    for ch in '()=':
        opts = opts.replace(ch, ' ')
    return opts.split()


def numeric_start(tok):
    return tok[0] in '0123456789.+-'


def repo_helper(module, name):
    '''A helper of the repository that is NOT one of the functions the anchors
    of C15 name (get_cells, get_ast, normalize_transform, normalize_float ...):
    where it lives, else the name as imported by ParseMCNPCell.py, else None
    (the deck is then left out of tie:deck and counted; the sweeps through the
    public entry points still run).'''
    import importlib
    for mod in (module, 't4_geom_convert.Kernel.FileHandlers.Parser.'
                        'ParseMCNPCell'):
        try:
            fun = getattr(importlib.import_module(mod), name, None)
        except Exception:                      # pylint: disable=broad-except
            fun = None
        if fun is not None:
            return fun
    return None


def repo_to_float():
    '''datacard.to_float, a helper outside the anchors: when a rewrite moved or
    renamed it, fall back to the reading it implements (float(), then the
    Fortran spellings) — the tie through ParseMCNPCell.parse() still decides.'''
    try:
        from MIP.mip.datacard import to_float
        return to_float
    except Exception:                          # pylint: disable=broad-except
        return impl.mcnp_float


def readings(tok):
    '''(to_float(tok), int(float(tok)), int(to_float(tok))) with the
    repository's to_float; None where the call raises.'''
    to_float = repo_to_float()

    def attempt(fun):
        try:
            return fun()
        except (ValueError, OverflowError):
            return None
    out = (attempt(lambda: to_float(tok)), attempt(lambda: int(float(tok))),
           attempt(lambda: int(to_float(tok))))
    return None if all(v is None for v in out) else out


AST_CACHE = {}  # repr(get_ast(text)) per geometry text (table of the model's getast)
COV = None      # line-coverage tracer, active only around the tied calls


class traced:
    '''Context manager: trace the anchored functions if a tracer is set.'''
    def __enter__(self):
        if COV is not None:
            COV.__enter__()

    def __exit__(self, *exc):
        if COV is not None:
            COV.__exit__(*exc)
        return False


class ImplDeck:
    '''Everything observed on the implementation for one deck text.'''

    def __init__(self, text, lattice_params=None):
        from MIP.mip import cellcard
        from t4_geom_convert.Kernel.FileHandlers.Parser.ParseMCNPCell import \
            ParseMCNPCell
        # helpers outside the anchors of C15 are looked up tolerantly
        get_cells = repo_helper('MIP.geom.cells', 'get_cells')
        get_ast = repo_helper('MIP.geom.parsegeom', 'get_ast')
        normalize_transform = repo_helper(
            't4_geom_convert.Kernel.Transformation.Transformation',
            'normalize_transform')
        normalize_float = repo_helper('t4_geom_convert.Kernel.Utils',
                                      'normalize_float')
        to_float = repo_to_float()
        self.tie_skip = [name for name, fun in (
            ('get_ast', get_ast), ('normalize_transform', normalize_transform),
            ('normalize_float', normalize_float)) if fun is None]
        if get_cells is None:
            def get_cells(parser, lim=None):
                from collections import OrderedDict
                out = OrderedDict()
                for card in parser.cards(blocks='c', skipcomments=True):
                    name, mat, geom, opts = card.parts()
                    out[int(name)] = (mat, geom, opts)
                return out
        self.text = text
        self.lattice_params = lattice_params or {}
        self.setup_error = None
        self.cards = []
        with impl.mip_parser(text) as parser:
            try:
                for card in parser.cards(blocks='c', skipcomments=True):
                    content = card.content()
                    try:
                        with traced():
                            parts = cellcard.split(content)
                    except Exception as exc:   # pylint: disable=broad-except
                        parts = exc
                    self.cards.append((content, parts))
                self.parsed = get_cells(parser, lim=None)
                pcell = ParseMCNPCell(parser, None, self.lattice_params)
            except Exception as exc:           # pylint: disable=broad-except
                self.setup_error = exc
                self.result = ('err', exc_class(exc), repr(exc)[:200])
                return
            # instance attributes set by __init__; recomputed through the
            # public functions when a rewrite renamed them
            imps = getattr(pcell, 'importances', None)
            if imps is None:
                imps = pcell.parse_importance_cards()
            trs = getattr(pcell, 'transforms', None)
            if trs is None:
                from t4_geom_convert.Kernel.Transformation.Transformation \
                    import get_mcnp_transforms
                trs = get_mcnp_transforms(parser)
            self.importances = list(imps)
            self.transforms = {k: list(v[:12]) for k, v in trs.items()}
            import contextlib
            import io
            try:
                with contextlib.redirect_stdout(io.StringIO()), \
                        warnings.catch_warnings():
                    warnings.simplefilter('ignore')
                    with traced():
                        cells, skipped = pcell.parse()
                self.result = ('ok', cells, skipped)
            except Exception as exc:           # pylint: disable=broad-except
                self.result = ('err', exc_class(exc), repr(exc)[:200])
        # tables
        self.ast = {}
        for _, (_, geom, _) in self.parsed.items():
            if geom in self.ast:
                continue
            if geom not in AST_CACHE:
                try:
                    AST_CACHE[geom] = repr(get_ast(geom)) if get_ast else None
                except Exception:              # pylint: disable=broad-except
                    AST_CACHE[geom] = None
            self.ast[geom] = AST_CACHE[geom]
        toks = set()
        optstrings = [opts for (_, _, opts) in self.parsed.values()]
        # the options a LIKE card ends up with (every chain, harness side)
        for key, (mat, geom, opts) in self.parsed.items():
            seen = 0
            cur = (mat, geom, opts)
            while seen < 60:
                m = re.search(r'like\s+(\d+)\s+but', cur[1].lower())
                if not m or int(m.group(1)) not in self.parsed:
                    break
                base = self.parsed[int(m.group(1))]
                cur = (base[0], base[1], base[2] + ' ' + cur[2])
                seen += 1
            optstrings.append(cur[2])
        self.runs = []
        for opts in optstrings:
            tl = py_tokens(opts)
            toks.update(tl)
            k = 0
            while k < len(tl):
                if numeric_start(tl[k]):
                    j = k
                    while j < len(tl) and numeric_start(tl[j]):
                        j += 1
                    self.runs.append(tl[k:j])
                    k = j
                else:
                    k += 1
        for (mat, _, _) in self.parsed.values():
            toks.update(mat.split())
        # the multiplier of an xM entry of a FILL array is read on its own
        toks.update({t[:-1] for t in toks if len(t) > 1 and t.endswith('m')})
        self.num = {}
        self.nf = {}
        for tok in sorted(toks):
            r = readings(tok)
            if r is not None:
                self.num[tok] = r
            try:
                if normalize_float is not None:
                    self.nf[tok] = normalize_float(tok)
            except Exception:                  # pylint: disable=broad-except
                pass
        self.norm = []
        seen_keys = set()
        if normalize_transform is None:
            return
        try:
            self.norm.append(([], ('ok', [float(v) for v in
                                          normalize_transform([])])))
        except Exception as exc:               # pylint: disable=broad-except
            self.norm.append(([], ('err', exc_class(exc))))
        for run in self.runs:
            if len(run) > 16:
                continue
            for start in range(len(run)):
                sub = run[start:]
                if len(sub) in (0, 1, 3):
                    continue
                try:
                    vals = [to_float(t) for t in sub]
                except ValueError:
                    continue
                starred = (vals[:3] + [gen.to_cos(v) for v in vals[3:12]]
                           + vals[12:])
                for key in (vals, starred):
                    if tuple(key) in seen_keys:
                        continue
                    seen_keys.add(tuple(key))
                    try:
                        with warnings.catch_warnings():
                            warnings.simplefilter('ignore')
                            out = [float(v) for v in
                                   normalize_transform(list(key))]
                        self.norm.append((key, ('ok', out)))
                    except Exception as exc:   # pylint: disable=broad-except
                        self.norm.append((key, ('err', exc_class(exc))))


def pack(text):
    '''Exec.U literal: 9 characters per int63, 7 bits each, low bits first.'''
    ints = []
    for k in range(0, len(text), 9):
        val = 0
        for i, ch in enumerate(text[k:k + 9]):
            code = ord(ch)
            if not 0 < code < 128:
                raise ValueError(f'pack: character {ch!r}')
            val |= code << (7 * i)
        ints.append(str(val))
    return '(U [' + '; '.join(ints) + ']%uint63)'


assert pack('') == '(U []%uint63)' and pack('a') == '(U [97]%uint63)' \
    and pack('12345678') == '(U [31768959712549169]%uint63)' \
    and pack('1234567890') == '(U [4139051819874441521; 48]%uint63)'


def cs(text):
    '''Short strings as literals, long ones packed.'''
    return cstr(text) if len(text) < 4 else pack(text)


def coq_card(card):
    return cpair(cs(card[0]), cs(card[1]), cs(card[2]))


def coq_fl(vals):
    return clist(cfloat(v) for v in vals)


def coq_bounds(bounds):
    return clist(cpair(cz(lo), cz(hi)) for lo, hi in bounds)


def is_lattice_spec(fid):
    return hasattr(fid, 'bounds') and hasattr(fid, 'spec')


def coq_cell(cell):
    fid = cell.fillid
    if fid is None:
        fill = 'None'
    elif is_lattice_spec(fid):
        fill = (f'(Some (FillLat {coq_bounds(list(fid.bounds))} '
                f'{clist(copt(u, cz) for u in fid.spec)}))')
    else:
        fill = f'(Some (FillU {cz(fid)}))'
    if not cell.trcl:
        trcl = 'None'
    else:
        trcl = f'(Some {coq_fl(cell.trcl[0])})'
    filltr = 'None' if cell.filltr is None else f'(Some {coq_fl(cell.filltr)})'
    lat = 'None' if cell.lattice is None else f'(Some {cz(cell.lattice)})'
    return ('(mkCell ' + ' '.join([
        cs(cell.materialID), copt(cell.density, cs),
        cs(repr(cell.geometry)), cfloat(cell.importance),
        cz(cell.universe), fill, filltr, lat, trcl]) + ')')


def coq_case(obs):
    num = clist(cpair(cs(t), cpair(copt(r[0], cfloat), copt(r[1], cz),
                                     copt(r[2], cz)))
                for t, r in obs.num.items())
    trs = clist(cpair(cz(k), coq_fl(v)) for k, v in obs.transforms.items())
    norm = clist(cpair(coq_fl(k), (f'Ok {coq_fl(v[1])}' if v[0] == 'ok'
                                   else f'Err {v[1]}'))
                 for k, v in obs.norm)
    nf = clist(cpair(cs(k), cs(v)) for k, v in obs.nf.items())
    ast = clist(cpair(cs(k), copt(v, cs)) for k, v in obs.ast.items())
    lat = clist(cpair(cz(k), coq_bounds(list(v.bounds)))
                for k, v in obs.lattice_params.items())
    tables = (f'(mkTables {num} {trs} {norm} {nf} {ast} '
              f'{coq_fl(obs.importances)} {lat})')
    tbl = clist(cpair(cz(k), coq_card(v)) for k, v in obs.parsed.items())
    if obs.result[0] == 'ok':
        cells = clist(cpair(cz(k), coq_cell(c))
                      for k, c in obs.result[1].items())
        expected = f'(Ok ({cells}, {clist(cz(k) for k in obs.result[2])}))'
    else:
        expected = f'(Err {obs.result[1]})'
    return cpair(tables, tbl, expected)


def cell_fields(cell):
    fid = cell.fillid
    if is_lattice_spec(fid):
        fid = ('lat', list(fid.bounds), list(fid.spec))
    return {'material': cell.materialID, 'density': cell.density,
            'geometry': repr(cell.geometry), 'importance': cell.importance,
            'universe': cell.universe, 'fill': fid,
            'filltr': None if cell.filltr is None else
            [round(float(v), 12) for v in cell.filltr],
            'lattice': cell.lattice,
            'trcl': [[v if isinstance(v, str) else round(float(v), 12)
                      for v in t] for t in cell.trcl]}


def strip_header(text):
    return '\n'.join(line for line in text.split('\n')
                     if not line.startswith('//'))


# ---------------------------------------------------------------------------
# sweep: LIKE deck against its explicit expansion
# ---------------------------------------------------------------------------

def try_case(res, obs):
    '''coq_case, or None when the observed objects no longer have the shape
    the encoder reads (an internal representation was changed): the deck is
    then left out of tie:deck and counted; the sweeps through the written
    files still run.'''
    try:
        return coq_case(obs)
    except Exception as exc:                   # pylint: disable=broad-except
        res.count('tie-skipped:encoding ' + type(exc).__name__)
        return None


def diff_cells(obs_a, obs_b, ignore_importance=(), ignore_density=()):
    '''Field-by-field comparison of the parsed cells; no verdict (and a note in
    the evidence) when the parsed objects no longer have the attributes read
    here — the file-level oracle still decides.'''
    try:
        return _diff_cells(obs_a, obs_b, ignore_importance, ignore_density)
    except AttributeError as exc:
        SHAPE_ERRORS.add(str(exc)[:120])
        return []


SHAPE_ERRORS = set()


def _diff_cells(obs_a, obs_b, ignore_importance=(), ignore_density=()):
    '''Cells of two parsed decks that differ, with the differing fields.'''
    diffs = []
    if obs_a.result[0] != 'ok' or obs_b.result[0] != 'ok':
        if obs_a.result[:2] != obs_b.result[:2]:
            diffs.append(('*', 'result', obs_a.result[:2], obs_b.result[:2]))
        return diffs
    ca, cb = obs_a.result[1], obs_b.result[1]
    if list(ca) != list(cb):
        diffs.append(('*', 'cell order', list(ca), list(cb)))
        return diffs
    for key in ca:
        fa, fb = cell_fields(ca[key]), cell_fields(cb[key])
        for name in fa:
            if fa[name] != fb[name]:
                if name == 'importance' and key in ignore_importance:
                    continue
                if name == 'density' and key in ignore_density:
                    continue
                diffs.append((key, name, fa[name], fb[name]))
    sa = [k for k in obs_a.result[2] if k not in ignore_importance]
    sb = [k for k in obs_b.result[2] if k not in ignore_importance]
    if sa != sb:
        diffs.append(('*', 'skipped', obs_a.result[2], obs_b.result[2]))
    return diffs


class _NoConv:
    ok = False
    exc = 'not-run'
    text = None


def sweep_deck(res, deck, text, rng, do_points, do_files=True):
    '''Property-level check of one generated deck.  Returns the list of
    (kind, description, cls) failures.  do_files=False: only the parsed cells
    are compared (quick tier, every second deck).'''
    failures = []
    expanded = gen.expand(deck)
    text_exp = gen.render(expanded)
    if do_files or do_points:
        conv_like = impl.convert(text, keep_stdout=False)
        conv_exp = impl.convert(text_exp, keep_stdout=False)
        res.count('sweep:files')
    else:
        conv_like = conv_exp = _NoConv()
    if conv_like.ok != conv_exp.ok or \
            (not conv_like.ok and conv_like.exc != conv_exp.exc):
        failures.append(('file', f'LIKE deck: {conv_like}; explicit '
                         f'expansion: {conv_exp}', None))
    elif conv_like.ok and strip_header(conv_like.text) != \
            strip_header(conv_exp.text):
        failures.append(('file', 'the written file of the LIKE deck differs '
                         'from the written file of its explicit expansion',
                         None))
    # parsed cells, field by field
    obs_like = ImplDeck(text)
    obs_exp = ImplDeck(text_exp)
    if (obs_like.setup_error is None) != (obs_exp.setup_error is None):
        failures.append(('parsed', 'reading the cell block: LIKE deck '
                         f'{obs_like.setup_error!r}, explicit expansion '
                         f'{obs_exp.setup_error!r}', None))
    if obs_like.setup_error is None and obs_exp.setup_error is None:
        diffs = diff_cells(obs_like, obs_exp)
        if diffs:
            failures.append(('parsed', 'parsed cells of the LIKE deck differ '
                             f'from its explicit expansion: {diffs[:4]}',
                             None))
        # generator's own reading of get_cells and of the geometry
        by_id = {c['id']: c for c in deck['cells']}
        for cell in deck['cells']:
            got = obs_like.parsed.get(cell['id'])
            if cell.get('like') is not None:
                body = cell['text'].split(None, 1)[1]
                m = re.match(r'(?i)(like\s+\d+\s+but)(.*)$', body)
                want = ('', ' ' + m.group(1), m.group(2))
                if got != want:
                    failures.append(('split', f'get_cells gives {got} for '
                                     f'card {cell["text"]!r}, expected '
                                     f'{want}', None))
            if obs_like.result[0] == 'ok' and hasattr(
                    obs_like.result[1].get(cell['id']), 'geometry'):
                root = gen.resolve(by_id, cell['id'])
                want_ast = gen.expected_ast(root['expr'])
                got_ast = gen.ast_canon(
                    obs_like.result[1][cell['id']].geometry)
                if want_ast != got_ast:
                    failures.append(('geometry', f'cell {cell["id"]}: '
                                     f'geometry {got_ast}, expected '
                                     f'{want_ast}', None))
    if do_points and conv_like.ok and conv_exp.ok:
        failures.extend(points_check(deck, expanded, conv_like, conv_exp, rng))
    return failures, obs_like


def points_check(deck, expanded, conv_like, conv_exp, rng):
    '''geomcheck on the LIKE deck; a failure counts only where the explicit
    expansion passes at the same points (otherwise it is not about LIKE).'''
    import geomcheck
    if deck.get('has_lattice'):
        return []          # no lattice ground truth in these decks
    by_id = {c['id']: c for c in deck['cells']}
    for cell in deck['cells']:
        r = gen.resolve(by_id, cell['id'])
        fill = r.get('fill')
        if fill is not None and fill.get('tr') is not None \
                and r.get('trcl') is not None:
            return []      # mcnpref gives no verdict for TRCL + fill transform
    # mcnpref replaces the whole IMP dictionary on override: give it the
    # per-particle result
    import copy
    deck = copy.deepcopy(deck)
    by_id2 = {c['id']: c for c in deck['cells']}
    merged = {c['id']: gen.resolve(by_id2, c['id']).get('imp')
              for c in deck['cells'] if c.get('like') is not None
              and 'imp' in c.get('but', {})}
    for c in deck['cells']:
        if c['id'] in merged:
            c['but']['imp'] = merged[c['id']]
    pts = []
    for _ in range(60):
        slot = gen.SLOTS[rng.randrange(25)]
        pts.append([slot[0] + rng.uniform(-1.6, 1.6),
                    slot[1] + rng.uniform(-1.6, 1.6), rng.uniform(-1.6, 1.6)])
    out = []
    try:
        t4_like = impl.T4File(conv_like.text)
        t4_exp = impl.T4File(conv_exp.text)
        _, fail_like = geomcheck.compare(deck, t4_like, pts, check_ids=False)
        _, fail_exp = geomcheck.compare(expanded, t4_exp, pts, check_ids=False)
    except Exception as exc:                   # pylint: disable=broad-except
        return [('points-skip', f'geomcheck could not run: {exc!r}', 'skip')]
    bad_exp = {tuple(f['point']) for f in fail_exp}
    for f in fail_like:
        if tuple(f['point']) not in bad_exp:
            out.append(('points', f'point {f["point"]}: {f["why"]} (the '
                        'explicit expansion is right there)', None))
    return out[:3]


# ---------------------------------------------------------------------------
# malformed / edge stream for the tie
# ---------------------------------------------------------------------------

EDGE_BUT = [
    'u', 'u=', 'imp:n', 'imp:n=abc', 'lat=3', 'lat=1', 'lat=x', 'lat=1.0',
    'fill', 'fill=0:1 0:0 0:0 1 2', 'fill=0:1 0:0 0:0 1',
    'fill=0:1 2r', 'fill=0:2 0:0 0:0 1 1r', 'fill=0:2 1 2r', 'fill=0:2 1 r r',
    'fill=0:1 0:0 0:0 1 2 lat=1', 'lat=1 fill=-1:1 0:0 0:0 1 2 1',
    'lat=1 fill=0:1 0:0 0:0 1 2 7 8 9', 'lat=2 fill=0:0 0:1 5 5r',
    'fill=0:1 0:0 0:0 1 x', 'fill=0:x 1', 'fill=0:1:2 1 2', 'fill=0:1 1 3r',
    'trcl=9', 'trcl=1.0', 'trcl=(1 2)', '*trcl=(1 2)', '*trcl=(1 2 3 4)',
    'trcl=(1 0 0 1 0 0 0 1 0 0 0 1)', '*trcl=(1 0 0 0 90 90 90 0 90 90 90 0)',
    '*trcl=(1 2 3 0 90 90 90 0 90 90 90 0 1)', 'trcl=(1 2 3) trcl=(4 5 6)',
    'lat=1 fill=2', 'fill=2 lat=1', 'fill=1 (1 0 0) lat=2',
    'lat=1 fill=0:3 1 2i 4', 'lat=1 fill=0:2 0:1 0:0 1 i 3 2m 2.5m j',
    'lat=1 fill=-1:1 2 2j', 'lat=1 fill=0:3 1 2I 4.0+0', 'lat=1 fill=0:1 i 3',
    'lat=1 fill=0:2 1 i', 'lat=1 fill=0:2 1 xi 3', 'lat=1 fill=0:2 1 -1i 3',
    'lat=1 fill=0:2 1 i x', 'lat=1 fill=0:2 j i 3', 'lat=1 fill=0:1 1 m',
    'lat=1 fill=0:1 1 xm', 'lat=1 fill=0:1 2m', 'lat=1 fill=0:1 j 2m',
    'lat=1 fill=0:1 xj', 'lat=1 fill=0:1 1 2.5',
    'lat=1 fill=0:1 1 3.5', 'lat=1 fill=0:4 1 2i 2 r', 'lat=1 fill=0:1 1 dog',
    'trcl=(1 x 3)', '*trcl=(1 2 3 x)', 'trcl', '*trcl', '*TRCL u=3', '*fill=2',
    '*FILL=1 imp:n=1', '*fill=2 trcl=(1 2 3)', 'imp:n=1.0+0', 'imp:n=2.5d-1',
    'trcl=(1.0+0 2 3)', 'trcl=1.0+0', 'fill=2 (1.5d0 0 0)', 'fill=2 (3.0+0)',
    'lat=1 fill=0:1 1.0+0 2', 'u=1.0+0', 'fill=1.0+0',
    '*trcl=(1.0+0 2 3 0 9.0+1 90 90 0 90 90 90 0)',
    '*trcl=(1 2 3 0 90 90 90 0 90 90 90 0 -1)',
    '*fill=2 (0 0 0 30 60 90 120 30 90 90 90 0 -1)',
    '*fill=2 (0 0 0 30 60 90 120 30 90 90 90 0 1)', 'mat=0', 'MAT=0 rho=-1.0',
    'mat=00', 'mat=2.0', 'mat=x rho=-1', 'u=-4 mat=0',
    'fill=2 (9)', 'fill=2 (1 2)', 'fill=x', 'fill=2.0', 'fill=2 (1.5 0 0)',
    'fill=2 (1 0 0 1 0 0 0 1 0 0 0 1)', 'fill=1 fill=2 (1 0 0)',
    'fill=2 (1 0 0) fill=1', '*fill=2 (0 0 0 30 60 90 120 30 90 90 90 0)',
    'fill=2 (0 0 0 1 0 0 0 1 0)', 'fill=2 (1 0 0 0 1)', 'fill 2 ( 1 2 3 ) u 3',
    'mat', 'rho', 'mat=2', 'rho=-3.5', 'rho=-3.50', 'rho=1.5E-2', 'rho -2.5-1',
    'mat=2 mat=3', 'mat=2 rho=-1.0 mat=3 rho=-2.0',
    'vol=3', 'tmp=2.5e-8', 'nonu=1', 'pwt=3', 'ext:n=0.5', 'dxc=1',
    'imp:n=1 imp:n=0', 'imp:n=0 imp:n=1', 'imp:n=0', 'imp:n=3', 'imp:p=0.5',
    'imp : n = 3', 'imp:n,p 2', 'IMP:N=1 IMP:P=4', 'imp:n,p=0 imp:n=2',
    'imp=3', 'imp:=1', 'imp:n,=1', 'importance 4', 'imp::n=2 imp:n=1',
    'imp:p=0 imp:n=1 imp:p=2', 'imp:p=5 imp:n=0', 'unc:n=1', 'u1=3',
    'u=1 u=2', 'u =( 4 )', 'U=-3', 'u=2.0', 'u=x',
    'FILL=2(1 0 0)', 'TRCL=(1 2 3)U=4', 'mat=3 : 2',
    'trcl=(1 2 3) vol 1 2 3', 'fill=1 vol=7', 'u=3 7 8', ': 3', 'imp: n 2',
]


def gen_edge_deck(rng, base_deck, index=None):
    '''A valid deck plus one or two LIKE cards with raw BUT text.'''
    first_index = index
    deck = dict(base_deck)
    cells = list(base_deck['cells'])
    ids = {c['id'] for c in cells}
    targets = [c['id'] for c in cells]
    for _ in range(rng.choice([1, 1, 2])):
        cid = rng.choice([n for n in range(400, 460) if n not in ids])
        ids.add(cid)
        like = rng.choice(targets) if rng.random() < 0.93 else 777
        raw = rng.choice(EDGE_BUT)
        pinned = index is not None and index < len(EDGE_BUT)
        if index is not None:
            # every edge text is used at least once per run; the first time
            # alone, on an existing cell, as the first card of the deck (so
            # that no other error hides it)
            raw, index = EDGE_BUT[index % len(EDGE_BUT)], None
        if pinned:
            like = rng.choice(targets)
        elif rng.random() < 0.3:
            raw = raw + ' ' + rng.choice(EDGE_BUT)
        if rng.random() < 0.3:
            raw = raw.upper()
        cell = {'id': cid, 'like': like, 'but': {'raw': raw},
                'text': f'{cid} like {like} but {raw}'}
        pos = 0 if pinned else rng.randrange(len(cells) + 1)
        cells.insert(pos, cell)
        targets.append(cid)
    forced = first_index is not None and first_index >= len(EDGE_BUT) \
        and first_index % 6 == 5
    if rng.random() < 0.08 or forced:
        # an explicit card whose geometry does not parse, and a copy of it
        cid = rng.choice([n for n in range(460, 480) if n not in ids])
        bad = rng.choice(['-900 : : -1', '(-900 1', '-900 #', '1 -'])
        cells.insert(0 if forced else len(cells),
                     {'id': cid, 'mat': 0, 'rho': None, 'expr': ('s', -900),
                      'text': f'{cid} 0 {bad} imp:n=1'})
        if rng.random() < 0.5:
            cells.append({'id': cid + 20, 'like': cid, 'but': {'raw': 'u=3'},
                          'text': f'{cid + 20} like {cid} but u=3'})
    deck['cells'] = cells
    if deck.get('data'):
        # keep the data card in step with the number of cells, sometimes not
        n = len(cells) if rng.random() < 0.85 else len(cells) - 1
        deck['data'] = ['imp:n ' + ' '.join(['1'] * n)]
    return deck


def edge_lattice_params(rng, deck):
    parse_ranges = repo_helper('t4_geom_convert.Kernel.Volume.Lattice',
                               'parse_ranges')
    if parse_ranges is None:       # not an anchor of C15: no --lattice cases
        return {}
    params = {}
    for cell in deck['cells']:
        raw = str(cell.get('but', {}).get('raw', '')).lower()
        coin = rng.random() < 0.5
        if raw.startswith('lat=1 fill=2'):
            coin = False        # MissingLatticeOptError
        elif raw.startswith('fill=2 lat=1') or raw.startswith('fill=1 (1 0 0)'):
            coin = True         # homogeneous lattice from the --lattice option
        if cell['id'] >= 400 and coin:
            params[cell['id']] = parse_ranges(
                rng.choice([['0:1'], ['0:1', '0:0', '-1:1']]))
    return params


# ---------------------------------------------------------------------------
# corpus of minimised cases
# ---------------------------------------------------------------------------

_TAIL = ('\n1 so 1\n2 s 0 0 0 1.4\n5 s 0.4 0.2 0.1 0.5\n9 so 30\n\n'
         'tr3 0 6 0\n*tr4 0 -6 0 30 60 90 120 30 90 90 90 0\n'
         'm1 1001 1\nm2 8016 1\nm3 26056 1\n')
# minimised cases run first on every run: (name, LIKE cards, explicit cards);
# the other cards of the deck are shared
_SHARED = ('10 1 -1.0 -1 imp:n=1\n'
           '20 0 -2 fill=1 (0.1 0 0) imp:n=1 trcl=(0 0 6)\n'
           '31 2 -2.0 -5 u=1 imp:n=1\n32 0 5 u=1 imp:n=1\n'
           '41 3 -3.0 -5 u=2 imp:n=1\n42 0 5 u=2 imp:n=1\n'
           '90 0 -9 #10 #20 #11 #12 #13 #21 #22 imp:n=1\n91 0 9 imp:n=0\n')
CORPUS = [
    ('BUT IMP lowers the inherited importance, per particle (fixed by 0b05eba)',
     '11 like 10 but imp:n=0 trcl=(6 0 0)\n12 LIKE 10 BUT IMP:N,P=2 TRCL=(12 0 0)\n'
     '13 like 12 but imp:n=0 trcl=(-6 0 0)\n'
     '21 like 20 but trcl=(0 0 -6) imp:p=3\n22 like 21 but imp:p=0 imp:n=0 trcl=(0 0 12)\n',
     '11 1 -1.0 -1 imp:n=0 trcl=(6 0 0)\n12 1 -1.0 -1 imp:n=2 imp:p=2 trcl=(12 0 0)\n'
     '13 1 -1.0 -1 imp:n=0 imp:p=2 trcl=(-6 0 0)\n'
     '21 0 -2 fill=1 (0.1 0 0) imp:n=1 imp:p=3 trcl=(0 0 -6)\n'
     '22 0 -2 fill=1 (0.1 0 0) imp:n=0 imp:p=0 trcl=(0 0 12)\n'),
    ('BUT MAT=0 makes a void copy (fixed by ac9102a)',
     '11 like 10 but mat=0 trcl=(6 0 0)\n12 LIKE 11 BUT TRCL=(12 0 0)\n'
     '13 like 12 but mat=2 rho=-2.0 trcl=(-6 0 0)\n'
     '21 like 20 but trcl=(0 0 -6)\n22 like 20 but trcl=(0 0 12)\n',
     '11 0 -1 imp:n=1 trcl=(6 0 0)\n12 0 -1 imp:n=1 trcl=(12 0 0)\n'
     '13 2 -2.0 -1 imp:n=1 trcl=(-6 0 0)\n'
     '21 0 -2 fill=1 (0.1 0 0) imp:n=1 trcl=(0 0 -6)\n'
     '22 0 -2 fill=1 (0.1 0 0) imp:n=1 trcl=(0 0 12)\n'),
    ('chain of three, one key each',
     '11 like 10 but trcl=(6 0 0)\n12 LIKE 11 BUT MAT=2 RHO=-2.5 TRCL=(12 0 0)\n'
     '13 Like 12 But *TRCL=(-6 0 0 30 60 90 120 30 90 90 90 0) imp:n=2\n'
     '21 like 20 but trcl=(0 0 -6)\n22 like 20 but trcl=(0 0 12)\n',
     '11 1 -1.0 -1 imp:n=1 trcl=(6 0 0)\n12 2 -2.5 -1 imp:n=1 trcl=(12 0 0)\n'
     '13 2 -2.5 -1 imp:n=2 *trcl=(-6 0 0 30 60 90 120 30 90 90 90 0)\n'
     '21 0 -2 fill=1 (0.1 0 0) imp:n=1 trcl=(0 0 -6)\n'
     '22 0 -2 fill=1 (0.1 0 0) imp:n=1 trcl=(0 0 12)\n'),
    ('FILL override drops the inherited fill transformation; TRCL by number',
     '11 like 10 but trcl=3\n12 like 10 but TRCL = 4 u = 7\n13 like 10 but trcl=(-6 0 0)\n'
     '21 like 20 but fill=2 trcl=(0 0 -6)\n22 like 21 but *FILL=1 (0 0 0.1 30 60 90 120 30 90 90 90 0) trcl=(0 0 12)\n',
     '11 1 -1.0 -1 imp:n=1 trcl=3\n12 1 -1.0 -1 imp:n=1 u=7 trcl=4\n'
     '13 1 -1.0 -1 imp:n=1 trcl=(-6 0 0)\n'
     '21 0 -2 fill=2 imp:n=1 trcl=(0 0 -6)\n'
     '22 0 -2 *fill=1 (0 0 0.1 30 60 90 120 30 90 90 90 0) imp:n=1 trcl=(0 0 12)\n'),
    ('void base given a material; spellings',
     '11 like 32 but mat=3 rho=-7.8 u=0 trcl=(6 0 0)\n12 LIKE 11 BUT RHO -1.5E-1 TRCL ( 12 0 0 )\n'
     '13 like 10 but imp : n = 4 trcl=(-6 0 0)\n'
     '21 like 20 but FILL=2(0 0.1 0) trcl=(0 0 -6)\n22 like 20 but u=(8)\n',
     '11 3 -7.8 5 imp:n=1 trcl=(6 0 0)\n12 3 -1.5E-1 5 imp:n=1 trcl=(12 0 0)\n'
     '13 1 -1.0 -1 imp:n=4 trcl=(-6 0 0)\n'
     '21 0 -2 fill=2 (0 0.1 0) imp:n=1 trcl=(0 0 -6)\n'
     '22 0 -2 fill=1 (0.1 0 0) imp:n=1 u=8 trcl=(0 0 6)\n'),
]


# whole decks (LIKE deck, explicit deck): the shapes the seeded changes need
_FTAIL = ('\n1 so 1\n2 s 0 5 0 1\n9 so 30\n\nm1 1001 1\nm2 8016 1\nm3 26056 1\n')
CORPUS_FULL = [
    ('importances on an IMP data card, a LIKE card followed by plain cells '
     '(seeded C15_A: rank of the cells after a LIKE card)',
     'corpus\n1 1 -1.0 -1\n2 like 1 but trcl=(5 0 0)\n3 2 -2.0 -2\n'
     '4 0 #1 #2 #3 -9\n5 0 9\n' + _FTAIL + 'imp:n 1 0 2 1 0\n',
     'corpus\n1 1 -1.0 -1\n2 1 -1.0 -1 trcl=(5 0 0)\n3 2 -2.0 -2\n'
     '4 0 #1 #2 #3 -9\n5 0 9\n' + _FTAIL + 'imp:n 1 0 2 1 0\n'),
    ('BUT RHO with a spelling that normalize_float changes (seeded C15_D)',
     'corpus\n1 1 -1.0 -1 imp:n=1\n2 like 1 but rho=-2.50 trcl=(5 0 0)\n'
     '3 like 2 but mat=3 RHO=7.80-1 trcl=(0 5 0)\n'
     '4 0 #1 #2 #3 -9 imp:n=1\n5 0 9 imp:n=0\n' + _FTAIL,
     'corpus\n1 1 -1.0 -1 imp:n=1\n2 1 -2.50 -1 imp:n=1 trcl=(5 0 0)\n'
     '3 3 7.80-1 -1 imp:n=1 trcl=(0 5 0)\n'
     '4 0 #1 #2 #3 -9 imp:n=1\n5 0 9 imp:n=0\n' + _FTAIL),
    ('importance overridden with another grouping of the particles: IMP:N,P '
     'over IMP:N + IMP:P and IMP:P,N over IMP:N,P (seeded C15_E)',
     'corpus\n1 1 -1.0 -1 imp:n=1 imp:p=1\n2 like 1 but imp:n,p=0 trcl=(5 0 0)\n'
     '3 2 -2.0 -2 imp:n,p=1\n6 like 3 but imp:p,n=0 trcl=(5 0 0)\n'
     '7 like 3 but imp:p=0 trcl=(-5 0 0)\n'
     '4 0 #1 #2 #3 #6 #7 -9 imp:n=1\n5 0 9 imp:n=0\n' + _FTAIL,
     'corpus\n1 1 -1.0 -1 imp:n=1 imp:p=1\n2 1 -1.0 -1 imp:n=0 imp:p=0 trcl=(5 0 0)\n'
     '3 2 -2.0 -2 imp:n,p=1\n6 2 -2.0 -2 imp:n=0 imp:p=0 trcl=(5 0 0)\n'
     '7 2 -2.0 -2 imp:n=1 imp:p=0 trcl=(-5 0 0)\n'
     '4 0 #1 #2 #3 #6 #7 -9 imp:n=1\n5 0 9 imp:n=0\n' + _FTAIL),
    ('the same cell numbers as the other corpus decks with another geometry '
     '(seeded C15_F: nothing may survive from one conversion to the next)',
     'corpus\n1 1 -1.0 -2 imp:n=1\n2 like 1 but trcl=(5 0 0)\n3 like 2 but trcl=(-5 0 0) mat=2 rho=-2.0\n'
     '4 0 #1 #2 #3 -9 imp:n=1\n5 0 9 imp:n=0\n' + _FTAIL,
     'corpus\n1 1 -1.0 -2 imp:n=1\n2 1 -1.0 -2 imp:n=1 trcl=(5 0 0)\n3 2 -2.0 -2 imp:n=1 trcl=(-5 0 0)\n'
     '4 0 #1 #2 #3 -9 imp:n=1\n5 0 9 imp:n=0\n' + _FTAIL),
    ('the same keyword overridden at two levels of a chain (seeded C15_C)',
     'corpus\n1 1 -1.0 -1 imp:n=1 u=0\n2 like 1 but mat=2 rho=-2.0 trcl=(5 0 0) imp:n=2\n'
     '3 like 2 but mat=3 rho=-3.0 trcl=(0 5 0) imp:n=4\n'
     '4 0 #1 #2 #3 -9 imp:n=1\n5 0 9 imp:n=0\n' + _FTAIL,
     'corpus\n1 1 -1.0 -1 imp:n=1 u=0\n2 2 -2.0 -1 imp:n=2 u=0 trcl=(5 0 0)\n'
     '3 3 -3.0 -1 imp:n=4 u=0 trcl=(0 5 0)\n'
     '4 0 #1 #2 #3 -9 imp:n=1\n5 0 9 imp:n=0\n' + _FTAIL),
]


def corpus_failures():
    out = []
    for name, a_text, b_text in CORPUS_FULL:
        a = impl.convert(a_text, keep_stdout=False)
        b = impl.convert(b_text, keep_stdout=False)
        if not (a.ok and b.ok) or strip_header(a.text) != strip_header(b.text):
            out.append((name, a_text, b_text, f'{a} / {b}'))
    for name, like_cards, explicit_cards in CORPUS:
        for order in (0, 1):
            a_cards = like_cards + _SHARED if order else _SHARED + like_cards
            b_cards = explicit_cards + _SHARED if order \
                else _SHARED + explicit_cards
            a_text = 'C15 corpus: ' + name + '\n' + a_cards + _TAIL
            b_text = 'C15 corpus: ' + name + '\n' + b_cards + _TAIL
            a = impl.convert(a_text, keep_stdout=False)
            b = impl.convert(b_text, keep_stdout=False)
            if not (a.ok and b.ok) or \
                    strip_header(a.text) != strip_header(b.text):
                out.append((name, a_text, b_text, f'{a} / {b}'))
    return out


# ---------------------------------------------------------------------------

def run(res, tier, seed, proofs_ok):
    '''Ties and sweeps under a line-coverage tracer restricted to the anchored
    functions: every reachable line must be executed by the tied calls.'''
    global COV
    cov = None
    try:
        import c15_cov
        cov = COV = c15_cov.LineCov(c15_cov.anchored_functions())
    except Exception as exc:                   # pylint: disable=broad-except
        COV = None                             # coverage is information only
        res.extra['line_coverage_error'] = repr(exc)[:200]
    try:
        _run(res, tier, seed, proofs_ok)
    finally:
        COV = None
    if cov is None:
        return
    try:
        total, missing = cov.missing(c15_cov.UNREACHABLE)
        res.obligation('coverage: the tied calls (cellcard.split, '
                       'ParseMCNPCell.parse) execute every reachable line of '
                       f'the anchored functions ({total} lines of '
                       f'{len(cov.codes)} code objects)', not missing,
                       f'never executed: {missing[:6]}')
        res.extra['anchored_lines'] = total
        res.extra['anchored_names_missing'] = list(c15_cov.MISSING)
        if missing:
            res.violation('harness-error',
                          'generated inputs no longer reach these lines of '
                          'the anchored code (strengthen the generators): '
                          f'{missing[:8]}',
                          {'theorem_or_correspondence': 'coverage',
                           'input': {'lines': [list(m) for m in
                                               missing[:30]]}},
                          found_input=False)
    except Exception as exc:                   # pylint: disable=broad-except
        res.extra['line_coverage_error'] = repr(exc)[:200]


def _run(res, tier, seed, proofs_ok):
    rng = random.Random(seed)
    quick = tier == 'quick'
    n_valid = 400 if quick else 2400
    n_dec = 48 if quick else 240
    n_edge = 560 if quick else 2400
    n_points = 40 if quick else 300
    res.rule = (
        'abstract decks: 1-3 explicit level-0 bodies (sphere, box, cylinder, '
        'filled container), 0-2 filler universes (explicit or made of LIKE '
        'copies), 1-6 LIKE cells whose base is any earlier level-0 cell '
        '(chains), BUT = random subset of TRCL (inline, starred, by number) '
        'MAT RHO FILL(+transformation) IMP U in random order, cards before or '
        'after their base, importances on cards or on an IMP data card; '
        'LIKE cards rendered with case / "=" / blank / parenthesis variants; '
        'plus an edge stream of raw BUT texts (missing values, repeated '
        'keywords, LAT, FILL arrays, unknown keywords, missing base); '
        'non-trivial = a deck with at least one LIKE card; distinct by text')

    res.extra['tier_depth'] = (
        'quick: 150 valid + 16 importance-lowering + 12 MAT=0 + 160 edge decks, '
        'tie:canon on every second deck, 40 decks x 60 points; thorough: 1200 + '
        '120 + 80 + 1200 decks (every edge text about 9 times, with random '
        'companions and bases), tie:canon and the canon-defined census on every '
        'deck, 300 decks x 60 points')
    # ---- 1. corpus of minimised cases (former findings included) ----
    for name, a_text, b_text, detail in corpus_failures():
        res.violation('impl-violation',
                      f'[corpus] {name}: the LIKE deck is not converted as '
                      f'its explicit expansion ({detail})',
                      {'input': {'deck': a_text, 'expanded': b_text},
                       'oracle': 'corpus'}, found_input=True)
    res.count('corpus-decks', 2 * len(CORPUS) + len(CORPUS_FULL))

    # ---- 2. decks: sweep + tie cases ----
    cases, meta = [], []
    split_cases = []
    n_pts_done = 0
    n_void = 32 if quick else 160
    for i in range(n_valid + n_dec + n_void):
        decreasing = n_valid <= i < n_valid + n_dec
        voiding = i >= n_valid + n_dec
        deck = gen.gen_deck(rng, imp_decrease=decreasing,
                            allow_void_mat=voiding)
        text = gen.render(deck, rng)
        n_like = sum(1 for c in deck['cells'] if c.get('like') is not None)
        chain = max_chain(deck)
        res.seen(text, nontrivial=n_like > 0)
        res.count(f'like-cards:{min(n_like, 6)}')
        res.count(f'chain-depth:{chain}')
        res.count('stream:' + ('imp-decreasing' if decreasing else
                               'void-mat' if voiding else 'valid'))
        for c in deck['cells']:
            for key, val in c.get('but', {}).items():
                res.count('but:' + key)
                if key == 'trcl' or (key == 'fill' and val.get('tr') is not None):
                    tr = val if key == 'trcl' else val['tr']
                    kind = 'by-number' if isinstance(tr, tuple) else \
                        ('starred' if tr.get('star') else
                         'translation' if tr.get('B') is None else 'matrix')
                    res.count(f'but:{key}:{kind}')
                if key == 'fill':
                    res.count('but:fill:' + ('array' if 'ranges' in val
                                             else 'universe'))
                if key == 'imp':
                    res.count('but:imp:' + ','.join(sorted(val)))
        do_points = n_pts_done < n_points and not decreasing \
            and not voiding
        failures, obs = sweep_deck(res, deck, text, rng, do_points,
                                   do_files=(not quick) or i % 2 == 0)
        n_pts_done += do_points
        if do_points:
            res.count('points-decks')
        for kind, what, cls in failures:
            if cls == 'skip':
                res.count('points-skip')
                continue
            res.violation('impl-violation', f'[{kind}] {what}',
                          {'input': {'deck': text,
                                     'expanded': gen.render(gen.expand(deck))},
                           'oracle': kind}, cls=cls, found_input=True)
        if obs.setup_error is None and getattr(obs, 'tie_skip', None):
            res.count('tie-skipped:helper ' + ','.join(obs.tie_skip)
                      + ' not present')
        elif obs.setup_error is None:
            case = try_case(res, obs)
            if case is not None:
                cases.append(case)
                meta.append((text, obs))
            for content, parts in obs.cards:
                if re.match(r'\s*\d+\s+like\b', content, flags=re.I):
                    split_cases.append((content, parts))
        if i < 3:
            try:
                res.sample({'deck': text,
                            'parsed': {k: cell_fields(c) for k, c in
                                       obs.result[1].items()}
                            if obs.result[0] == 'ok' else obs.result})
            except AttributeError:
                res.sample({'deck': text})
    for i in range(n_edge):
        base = gen.gen_deck(rng, n_like=rng.choice([0, 1, 2]))
        gen.render(base, rng)
        deck = gen_edge_deck(rng, base, index=i)
        text = gen.render(deck, rng)
        obs = ImplDeck(text, edge_lattice_params(rng, deck))
        obs.edge = True
        res.seen(text, nontrivial=True)
        res.count('stream:edge')
        if obs.setup_error is not None:
            res.count('edge:setup-error')
            continue
        res.count('edge-result:' + (obs.result[1] if obs.result[0] == 'err'
                                    else 'ok'))
        if getattr(obs, 'tie_skip', None):
            res.count('tie-skipped:helper ' + ','.join(obs.tie_skip)
                      + ' not present')
            continue
        case = try_case(res, obs)
        if case is None:
            continue
        cases.append(case)
        meta.append((text, obs))
        for content, parts in obs.cards:
            if re.match(r'\s*\d+\s+like\b', content, flags=re.I):
                split_cases.append((content, parts))
        if i < 2:
            res.sample({'deck': text, 'result': str(obs.result)[:300]})

    # one pass evaluates both ties on every deck (the generated files are
    # elaborated once); the two checks are re-run apart on the decks that fail
    both, errs = common.run_case_files(
        'c15_deck', HEADER, 'tables * table * out',
        'fun c => check_deck c && check_canon c', cases, chunk=36)
    bad, bad_canon = [], []
    if both:
        sub, errs2 = common.run_case_files(
            'c15_deck1', HEADER, 'tables * table * out', 'check_deck',
            [cases[k] for k in both], chunk=36)
        bad = [both[k] for k in sub]
        sub, errs3 = common.run_case_files(
            'c15_canon1', HEADER, 'tables * table * out', 'check_canon',
            [cases[k] for k in both], chunk=36)
        bad_canon = [both[k] for k in sub]
        errs = errs + errs2 + errs3
    res.obligation(f'tie:deck ({len(cases)} decks: model parse_all = '
                   'ParseMCNPCell.parse())', not bad and not errs,
                   f'{len(bad)} disagreements {errs[:1]}')
    if errs:
        res.violation('harness-error', 'generated Coq case files did not '
                      'compile: ' + errs[0][-400:], {'errors': errs[:3]},
                      found_input=False)
    for idx in bad[:10]:
        text, obs = meta[idx]
        res.violation('correspondence',
                      'model and implementation disagree on the parsed cells '
                      f'of a deck; implementation: {str(obs.result)[:200]}',
                      {'input': {'deck': text,
                                 'lattice': {k: list(v.bounds) for k, v in
                                             obs.lattice_params.items()}},
                       'theorem_or_correspondence': 'tie:deck'},
                      found_input=False)

    # ---- 2b. the explicit card constructed in the model ----
    csel = list(range(len(cases)))
    bad = bad_canon
    res.obligation(f'tie:canon ({len(csel)} decks: for every card, the '
                   'explicit card built by Canon.canon_card — word level and '
                   'as text — parses in the model to the cell of the LIKE '
                   'card)', not bad and not errs,
                   f'{len(bad)} decks {errs[:1]}')
    for idx in bad[:10]:
        text, obs = meta[idx]
        res.violation('correspondence',
                      'the explicit card constructed by the model for a LIKE '
                      'card does not parse to the same cell',
                      {'input': {'deck': text},
                       'theorem_or_correspondence': 'tie:canon'},
                      found_input=False)
    # informational (how often the construction is defined): on a sample in
    # the quick tier, on everything in the thorough tier
    sample = list(range(len(cases))) if not quick else \
        [k for k in range(len(cases)) if k % 8 == 0]
    und_s, errs = common.run_case_files(
        'c15_canondef', HEADER, 'tables * table * out', 'canon_defined',
        [cases[k] for k in sample], chunk=30)
    undefined = [sample[k] for k in und_s]
    meta_all, meta = meta, [meta[k] for k in sample]
    undefined = [sample.index(k) for k in undefined]
    n_struct = sum(1 for _, o in meta if not getattr(o, 'edge', False))
    und_struct = sum(1 for k in undefined if not getattr(meta[k][1], 'edge',
                                                         False))
    res.count('canon-defined:generated-decks', n_struct - und_struct)
    res.count('canon-undefined:generated-decks', und_struct)
    res.count('canon-defined:edge-decks',
              len(meta) - n_struct - (len(undefined) - und_struct))
    res.count('canon-undefined:edge-decks', len(undefined) - und_struct)
    meta = meta_all

    # ---- 2c. the constructed cards handed to the implementation ----
    n_impl = 48 if quick else 400
    picked = [k for k, (_, o) in enumerate(meta)
              if not getattr(o, 'edge', False) and o.result[0] == 'ok'][:n_impl]
    sep = '=====DECK====='
    n_checked = 0
    for start in range(0, len(picked), 24):
        part = picked[start:start + 24]
        term = ' ++ '.join(f'(canon_dump {cases[k]} ++ "{sep}" ++ nl)'
                           for k in part)
        out, raw = common.coq_eval(HEADER + 'Import ListNotations.\n', term,
                                   timeout=600)
        if out is None:
            res.violation('harness-error', 'canon_dump did not evaluate: '
                          + raw[-300:], {'raw': raw[-1000:]},
                          found_input=False)
            break
        body = out.strip()
        body = body[1:body.rindex('"')].replace('""', '"')
        dumps = body.split(sep + '\n')[:-1]
        for k, dump in zip(part, dumps):
            text, obs = meta[k]
            cards = {}
            for line in dump.split('\n'):
                if line:
                    key, mat, geom, opts = line.split('|')
                    cards[int(key)] = f'{key} {mat}{geom} {opts}'.rstrip()
            if set(cards) != set(obs.parsed):
                res.count('canon-impl:undefined')
                continue
            head, _, tail = text.partition('\n\n')
            title = head.split('\n')[0]
            ctext = '\n'.join([title] + [gen.deckmod.wrap(cards[k2])
                                         for k2 in obs.parsed]) + '\n\n' + tail
            cobs = ImplDeck(ctext, obs.lattice_params)
            n_checked += 1
            diffs = [('*', 'setup', repr(cobs.setup_error))] \
                if cobs.setup_error is not None else diff_cells(obs, cobs)
            if diffs:
                res.violation('impl-violation',
                              '[canon-impl] the deck of explicit cards '
                              'constructed by the model (every keyword once) '
                              'is not parsed like the LIKE deck: '
                              f'{diffs[:3]}',
                              {'input': {'deck': text, 'expanded': ctext},
                               'oracle': 'canon-impl'}, found_input=True)
            elif n_checked <= (16 if quick else 120):
                # ... and the written files are identical after the header
                ca = impl.convert(text, keep_stdout=False)
                cb = impl.convert(ctext, keep_stdout=False)
                res.count('canon-impl:files')
                if ca.ok != cb.ok or (ca.ok and strip_header(ca.text)
                                      != strip_header(cb.text)):
                    res.violation('impl-violation',
                                  '[canon-impl] the written file of the deck '
                                  'of model-constructed explicit cards differs '
                                  f'from the LIKE deck\'s: {ca} / {cb}',
                                  {'input': {'deck': text, 'expanded': ctext},
                                   'oracle': 'canon-impl-file'},
                                  found_input=True)
    if SHAPE_ERRORS:
        res.extra['parsed_cell_shape_changed'] = sorted(SHAPE_ERRORS)
    res.count('canon-impl:decks', n_checked)
    res.obligation(f'sweep:canon-impl ({n_checked} decks: the implementation '
                   'parses the deck of model-constructed explicit cards to the '
                   'cells of the LIKE deck)', n_checked > 0, '')

    # ---- 3. split of LIKE cards ----
    uniq = {}
    for content, parts in split_cases:
        uniq.setdefault(content, parts)
    sc = []
    for content, parts in uniq.items():
        if isinstance(parts, Exception):
            exp = 'None'
        else:
            name, _, geom, opts = parts
            exp = f'(Some {cpair(cstr(name), cstr(geom), cstr(opts))})'
        sc.append(cpair(cstr(content), exp))
    bad, errs = common.run_case_files(
        'c15_split', HEADER, 'string * option (string * string * string)',
        'check_split', sc, chunk=300)
    res.obligation(f'tie:split ({len(sc)} LIKE cards: model split_like = '
                   'cellcard.split)', not bad and not errs,
                   f'{len(bad)} disagreements {errs[:1]}')
    keys = list(uniq)
    for idx in bad[:10]:
        res.violation('correspondence',
                      f'model and cellcard.split disagree on {keys[idx]!r}: '
                      f'implementation {uniq[keys[idx]]!r}',
                      {'input': {'card': keys[idx]},
                       'theorem_or_correspondence': 'tie:split'},
                      found_input=False)


def max_chain(deck):
    by_id = {c['id']: c for c in deck['cells']}
    best = 0
    for c in deck['cells']:
        d = 0
        while c.get('like') is not None and c['like'] in by_id:
            d += 1
            c = by_id[c['like']]
        best = max(best, d)
    return best


def replay(path):
    '''Re-run the recorded input through the implementation (and the model).'''
    data = json.load(open(path))
    inp = data.get('input', {})
    print('recorded:', data.get('what'))
    if 'deck' in inp:
        from t4_geom_convert.Kernel.Volume.Lattice import LatticeBounds
        lat = {int(k): LatticeBounds([tuple(p) for p in v])
               for k, v in inp.get('lattice', {}).items()}
        obs = ImplDeck(inp['deck'], lat)
        print(inp['deck'])
        if obs.setup_error is not None:
            print('setup error:', repr(obs.setup_error))
            return 0
        if obs.result[0] == 'ok':
            for key, cell in obs.result[1].items():
                print('implementation:', key, cell_fields(cell))
            print('skipped:', obs.result[2])
        else:
            print('implementation raises:', obs.result)
        case = coq_case(obs)
        model, out = common.coq_eval(
            HEADER + 'Import ListNotations.\n',
            f'let c := {case} in (check_deck c, diag_deck c, run_deck '
            '(fst (fst c)) (snd (fst c)))')
        print('model (agrees, (disagreeing cells with field bits mat rho '
              'geom imp u fill filltr lat trcl, skipped agree), result):',
              model if model else out[-800:])
        if 'expanded' in inp:
            conv_a = impl.convert(inp['deck'], keep_stdout=False)
            conv_b = impl.convert(inp['expanded'], keep_stdout=False)
            print('LIKE deck:', conv_a)
            print('expansion:', conv_b)
            if conv_a.ok and conv_b.ok:
                same = strip_header(conv_a.text) == strip_header(conv_b.text)
                print('written files identical after the header:', same)
                if not same:
                    import difflib
                    for line in difflib.unified_diff(
                            strip_header(conv_b.text).split('\n'),
                            strip_header(conv_a.text).split('\n'),
                            'expansion', 'like', lineterm='', n=0):
                        print('  ', line)
    elif 'card' in inp:
        from MIP.mip import cellcard
        try:
            print('implementation:', cellcard.split(inp['card']))
        except Exception as exc:               # pylint: disable=broad-except
            print('implementation raises:', repr(exc))
        model, _ = common.coq_eval(HEADER, f'split_like {cstr(inp["card"])}')
        print('model:', model)
    return 0
