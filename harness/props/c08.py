'''C08 — every written file is structurally valid TRIPOLI-4 input.

Theorems: coq/Properties/C08.v.
Tie (correspondence by execution): the tables construct_volume_t4 returns
(snapshot taken from inside the real run) -> model convert_tail (de-duplication,
renumbering, remove_empty_volumes, remove_unused_volumes, writers, printer)
vs the bytes of the file the real run left on disk (GEOMETRY / COMPOSITION /
GEOMCOMP / BOUNDARY_CONDITION blocks) and the exception class of the run; plus
the model's own wf_file verdict vs the independent validator's verdict.
Sweep oracle: harness/c08_validate.py (own reader of the written text, with
impl.T4File as a second reader) over generated decks x option combinations.'''
import json
import random
import re

import common
import impl
import c08_capture as cap_mod
import c08_gen as gen
import c08_validate as val

THEOREMS = ['C08_volume_str_counts', 'C08_write_wf', 'C08_prune_preserves_wf',
            'C08_prune_total', 'C08_convert_tail_wf', 'C08_convert_tail_wf_R',
            'C08_print_parse_roundtrip', 'C08_written_text_wf',
            'C08_convert_tail_text_wf_R', 'C08_table_refs_linked',
            'C08_convert_wf_linked', 'C08_convert_wf_surfaces_linked',
            'C08_table_keys_linked', 'C08_matching_numbers_linked',
            'C08_insert_helpers_ok', 'C08_convert_wf_full_linked',
            'C08_norm_fixed_linked', 'C08_convert_wf_all_linked',
            'C08_convert_wf_all_linked_total',
            'C08_numbers_given', 'C08_numbers_finite', 'C08_words_okb_sound',
            'C08_remove_empty_volumes_ok', 'C08_geomcomp_partition',
            'C08_bc_defined',
            'C08_composition_missing_refuted', 'C08_wf_fileb_ok',
            'C08_wf_stateb_sound', 'C08_stage0_okb_sound']
TRUSTED = [
    'hand-written model coq/C08/Model.v (modelled, tied by execution only)',
    'numeric fields: str(float) / numpy rendering of surface parameters and '
    '%.15e of concentrations are NOT modelled; the harness passes the '
    "implementation's own spellings (str(p) of every parameter, rescale_"
    'fractions output) to the model printer; finiteness of every numeric '
    'field is checked on the written bytes by harness/c08_validate.py only',
    'SurfaceT4.__eq__/__hash__ are modelled as numeric equality of (type, '
    'parameters, transform) at binary64 (NaN never equal)',
    'construct_volume_t4: the helper-plane insertion is modelled and tied; the '
    'conversion loop is C01\'s model, number_items is C02\'s, normalize_float is '
    'C09\'s - LINKED inside Coq (C08_convert_wf_all_linked), each with its own '
    'tie in its property; TRCL / complement / lattice / FILL / inlining '
    'processing before the loop is outside (C04-C07, C13); '
    'constructCompositionT4 is modelled for names/grouping/counts only '
    '(numbers are C10\'s)',
    'harness: generators, c08_validate reader, impl.T4File, snapshot wrapper '
    'around construct_volume_t4, PEG shim replacing TatSu',
]
ASSUMPTIONS = [
    'material tokens are decimal digits, M-card numbers are positive',
    'remaining hypotheses of C08_convert_wf_all_linked_total (stage0_rest5), each '
    'evaluated on every snapshot (tie:stage0, tie:text, tie:density): skipped cells are numbers below the counter '
    'outside the conversion list; every non-virtual volume comes from a cell '
    'whose material has a card and a live cell (false for the open findings '
    'material_without_card / negative_importance_no_composition); the strings '
    'of the tables are words and the numeric strings finite numbers (false for '
    'nonfinite_surface_parameter / fortran_spelled_fraction_copied)',
    'a run that raises before the output file is opened, or that dies with '
    'every cell empty (no volume survives), counts as a deck the converter '
    'does not accept',
]
HEADER = ('From Coq Require Import List NArith ZArith Bool String Ascii Uint63 '
          'PrimFloat.\nFrom T4V Require Import Base.Str C08.Model C08.Exec.\n'
          'Import ListNotations.\nOpen Scope string_scope.\nOpen Scope Z_scope.\n')
CASE_TYPE = '(bool * Z * Z * wstate payload) * observed * bool'



def run_multi(name, funs, cases, chunk=40, jobs=16, timeout=900):
    '''Like common.run_case_files but evaluates several check functions over
    the same (expensive to elaborate) list of cases.  Returns ({fun: bad
    indices}, errors).'''
    from concurrent.futures import ThreadPoolExecutor
    gen_dir = common.GEN
    gen_dir.mkdir(exist_ok=True)
    for old in gen_dir.glob(f'{name}_*'):
        old.unlink()
    files = []
    for k in range(0, len(cases), chunk):
        path = gen_dir / f'{name}_{k // chunk}.v'
        body = (HEADER + 'From T4V Require Import Base.Cases.\n'
                f'Definition cases : list ({CASE_TYPE}) :=\n  [ '
                + '\n  ; '.join(cases[k:k + chunk]) + ' ].\n'
                + ''.join(f'Eval vm_compute in (bad_indices ({fun}) cases).\n'
                          for fun in funs))
        path.write_text(body)
        files.append((k, path))

    def one(item):
        base, path = item
        rc, out = common.sh(['coqc'] + common.COQ_FLAGS + [str(path)],
                            timeout, cwd=gen_dir)
        return base, path, rc, out

    bad = {fun: [] for fun in funs}
    errors = []
    with ThreadPoolExecutor(max_workers=jobs) as pool:
        for base, path, rc, out in pool.map(one, files):
            blocks = re.findall(r'=\s*\[(.*?)\]\s*:\s*list N', out, flags=re.S)
            if rc != 0 or len(blocks) != len(funs):
                errors.append(f'{path.name}: rc={rc}\n{out[-1500:]}')
                continue
            for fun, body in zip(funs, blocks):
                for tok in body.split(';'):
                    tok = tok.strip().replace('%N', '')
                    if tok:
                        bad[fun].append(base + int(tok))
    for path in list(gen_dir.glob(f'{name}_*')) + list(
            gen_dir.glob(f'.{name}_*')):
        if path.suffix != '.v':
            path.unlink()
    return {fun: sorted(v) for fun, v in bad.items()}, errors


# ---- corpus: minimal decks of the defects found on the unrepaired code (all
# repaired since: 3f9f4fd, a12128b, d8902ad, 540bd39); run first on every check

WITNESSES = {
    'empty_cellref_operand': ('''empty filler cell used twice
1 0 -1 fill=5 imp:n=1
2 0 1 -3 fill=5 imp:n=1
3 0 3 imp:n=0
10 1 -1.0 -2 2 u=5 imp:n=1
11 1 -1.0 -4 u=5 imp:n=1
12 1 -1.0 4 u=5 imp:n=1

1 so 2
2 px 0.5
3 so 10
4 so 1

m1 1001 1.0
''', []),
    'helper_plane_dedup_merge': ('''user plane equal to a union helper plane
1 1 -1.0 (2 -3):-1 imp:n=1
2 0 #1 imp:n=1

1 px 1
2 py 0
3 py 0

m1 1001 1.0
''', []),
    'material_leading_zero': ('''material token with a leading zero
1 01 -1.0 -1 imp:n=1
2 0 1 imp:n=0

1 so 2

m1 1001 1.0
''', []),
    'bc_unwritten_surface': ('''flagged surface that no written volume uses
1 1 -1.0 -1 imp:n=1
2 0 1 imp:n=0

1 so 2
*5 py 7

m1 1001 1.0
''', []),
    'material_without_card': ('''cell material without M card (open)
1 7 -1.0 -1 imp:n=1
2 0 1 imp:n=0

1 so 2

m1 1001 1.0
''', []),
    'negative_importance_no_composition': ('''negative importance (open)
1 1 -1.0 -1 imp:n=-1
2 0 1 imp:n=0

1 so 2

m1 1001 1.0
''', []),
    'nonfinite_surface_parameter': ('''overflowing number (open)
1 1 -1.0 -1 imp:n=1
2 0 1 imp:n=0

1 so 1e999

m1 1001 1.0
''', []),
    'bc_conflicting_kinds': ('''coincident surfaces with different flags: ValueError after a complete file
1 1 -1.0 -1 2 imp:n=1
2 0 1 : -3 imp:n=0

1 so 2
*2 px 0
+3 px 0

m1 1001 1.0
''', []),
    'duplicate_tilted_tori': ('''two equal tori under the same rotation (SurfaceT4.__eq__ with transforms)
1 1 -1.0 -1 : -2 imp:n=1
2 0 1 2 -3 imp:n=1
3 0 3 imp:n=0

1 1 tz 0 0 0 3 1 1
2 1 tz 0 0 0 3 1 1
3 so 20

tr1 0 0 0 1 0 0 0 0.8660254037844387 0.5 0 -0.5 0.8660254037844387
m1 1001 1.0
''', []),
    'union_of_volumes_emptied_by_dedup': ('''every operand of a UNION is removed (ops = None)
1 1 -1.0 (-1 2) : (-2 1) imp:n=1
2 0 -3 imp:n=1
3 0 3 imp:n=0

1 so 2
2 so 2
3 so 5

m1 1001 1.0
''', []),
    'atom_density_compositions': ('''positive densities: POINT_WISE with atom fractions, and with mass fractions (empty block)
1 1 0.05 -1 imp:n=1
2 2 4.8e-2 1 -2 imp:n=1
3 1 0.05 2 -3 imp:n=1
4 0 3 imp:n=0

1 so 1
2 so 2
3 so 3

m1 8016 1 1001 2
m2 26000 -0.7 6012 -0.3
''', []),
    'fortran_spelled_fraction_copied': ('''Fortran spellings of mass fractions copied into a DENSITY block (open, shared with C10)
1 5 -1.0 -1 imp:n=1
2 0 1 imp:n=0

1 so 2

m5 1001 -1.5d-1 8016 -8.5-1
''', []),
    'equal_value_densities': ('''one material at numerically equal densities spelled differently: one composition per spelling
1 1 -1 -1 imp:n=1
2 1 -1.0 1 -2 imp:n=1
3 2 .5 2 -3 imp:n=1
4 2 0.5 3 -4 imp:n=1
5 1 -1.5e1 4 -5 imp:n=1
6 1 -15 5 -6 imp:n=1
7 0 6 imp:n=0

1 so 1
2 so 2
3 so 3
4 so 4
5 so 5
6 so 6

m1 1001 1.0
m2 8016 1 1001 2
''', []),
    'tori_flipped_by_half_turns': ('''tori whose axis ends up anti-parallel to a coordinate axis (seeded change C08_B)
1 1 -1.0 -1 imp:n=1
2 1 -1.0 -2 imp:n=1
3 1 -1.0 -3 imp:n=1
4 0 1 2 3 -4 imp:n=1
5 0 4 imp:n=0

1 1 tz 0 0 8 3 1 1
2 2 ty 8 0 0 3 1 1
3 2 tx 0 -8 0 3 1 1
4 so 30

tr1 0 0 0 1 0 0 0 -1 0 0 0 -1
tr2 0 0 0 -1 0 0 0 -1 0 0 0 1
m1 1001 1.0
''', []),
    'bc_on_merged_duplicate': ('''flag carried by a surface merged into its duplicate
1 1 -1.0 -1 2 imp:n=1
2 0 1 : -3 imp:n=0

1 so 2
2 px 0
*3 px 0

m1 1001 1.0
''', []),
}


# ---- classification of validator problems ------------------------------------

def classify(problem, conv, cap, rd, args):
    '''Narrow known-finding class of one validator problem, or None.'''
    clause, msg = problem
    if cap is None or cap.mats is None:
        return None
    if clause == 'geomcomp-name':
        m = re.search(r'composition m(\d+)_(\S+) which', msg)
        if not m:
            return None
        key, dens = int(m.group(1)), m.group(2)
        same = [c for c in cap.cells if c[2] == key and c[3] == dens]
        if key not in [k for k, _, _ in cap.mats]:
            return 'material_without_card' if same else None
        if same and not any(c[6] for c in same) \
                and any(c[7] < 0 for c in same):
            return 'negative_importance_no_composition'
        return None
    if clause == 'number':
        m = re.match(r"composition \S+: amount '([^']+)' of ", msg)
        if m and re.fullmatch(r'[\d.]+([dD][-+]?\d+|[-+]\d+)', m.group(1)) \
                and m.group(1) in [a for _, fr, _ in cap.mats for _, a in fr]:
            return 'fortran_spelled_fraction_copied'
        m = re.match(r"SURF (\d+): '(inf|-inf|nan)'", msg)
        if m:
            for surf in cap.surfs:
                if surf[0] == int(m.group(1)) and any(
                        v != v or v in (float('inf'), float('-inf'))
                        for v in surf[2]):
                    return 'nonfinite_surface_parameter'
        return None
    return None


def degenerate(conv, cap):
    '''The run died although a file exists, and no volume survived: the deck
    is one the converter does not accept (every cell is empty, possibly
    only after de-duplication: `-5 5` under a TRCL becomes `-7 8`).'''
    return (not conv.ok and conv.exc == 'ValueError' and 'empty' in conv.msg
            and conv.text is not None and 'LANG' not in conv.text)


def sweep_one(res, deck_text, args, conv, cap, origin):
    '''Validate one written file; report violations. Returns the verdict
    (True = valid) or None when there is no file to judge.'''
    if conv.text is None:
        return None
    if degenerate(conv, cap):
        res.count('rejected:all-cells-empty')
        return None
    problems, rd = val.validate(
        conv.text, want_comp='--skip-compositions' not in args,
        want_geomcomp='--skip-geomcomp' not in args)
    seen_cls = set()
    for problem in problems:
        cls = classify(problem, conv, cap, rd, args)
        res.count('problem:' + problem[0] + (':known' if cls else ''))
        key = (cls, problem[0])
        if key in seen_cls:
            continue
        seen_cls.add(key)
        res.violation(
            'impl-violation',
            f'written file is not structurally valid ({problem[0]}): '
            f'{problem[1]} [options {" ".join(args) or "default"}]',
            {'input': {'deck': deck_text, 'args': list(args)},
             'clause': problem[0], 'message': problem[1],
             'origin': origin, 'exception': conv.exc},
            cls=cls, found_input=True)
    return not problems


def make_case(conv, cap, args, verdict):
    '''(Coq term of one tie case, open-finding flag) or None.'''
    if cap is None or cap.mats is None:
        return None
    term = cap_mod.coq_input(cap, args)
    obs = cap_mod.coq_observed(cap_mod.observed(conv))
    valid = cap_mod.cbool(verdict is True or conv.text is None)
    card_keys = {k for k, _, _ in cap.mats}
    open_flag = any((c[2] not in card_keys and c[2] != 0) or c[7] < 0
                    for c in cap.cells) \
        or any(v != v or v in (float('inf'), float('-inf'))
               for surf in cap.surfs for v in surf[2]) \
        or any(not val.NUMBER.match(a) for _, fr, _ in cap.mats for _, a in fr)
    return f'({term},\n {obs}, {valid})', open_flag


def run(res, tier, seed, proofs_ok):
    '''Sweep and ties; the corpus decks run under a line-coverage
    tracer restricted to the anchored functions (every reachable line must be
    executed).'''
    import contextlib
    cov = None
    try:
        import c08_cov
        cov = c08_cov.LineCov(c08_cov.anchored_functions())
    except Exception:          # pylint: disable=broad-except
        cov = None
    _run(res, tier, seed, proofs_ok, cov if cov is not None
         else contextlib.nullcontext())
    # line coverage is information only: it never fails the check
    try:
        if cov is not None:
            total, missing = cov.missing(c08_cov.UNREACHABLE)
            res.extra['line_coverage'] = {
                'anchored_lines': total,
                'code_objects': len(cov.codes),
                'never_executed': [list(m) for m in missing[:20]],
                'anchored_names_not_present': list(c08_cov.MISSING)}
            res.obligation('coverage (information): the corpus decks (WITNESSES) '
                           f'alone execute {total - len(missing)} of {total} '
                           f'reachable lines of {len(cov.codes)} anchored code '
                           'objects', True,
                           f'never executed: {missing[:6]}; names not present: '
                           f'{c08_cov.MISSING}')
    except Exception as exc:   # pylint: disable=broad-except
        res.extra['line_coverage'] = {'error': repr(exc)}


def _run(res, tier, seed, proofs_ok, cov):
    rng = random.Random(seed)
    for text, ints in cap_mod.PACK_SAMPLES.items():
        if cap_mod.pack(text) != ints:
            raise RuntimeError('string packer disagrees with Exec.U_selftest')
    res.rule = ('structure-oriented random decks (2-8 surfaces of 25 kinds '
                'incl. macrobodies, one-sheet cones, tori under TR, duplicate '
                'surfaces, user planes px 1 / px -1; free-form cell '
                'expressions with unions, #(...), #n, facets; 0-3 filler '
                'universes incl. empty fillers, nested FILL, fill '
                'transformations, LAT=1 arrays and FILL=n + --lattice; '
                'flagged surfaces; 1-3 materials x 10 density spellings; '
                'LIKE n BUT) x option sets (default, --skip-deduplication, '
                '--always-inline-filling, --always-inline-filled, both, '
                '--max-inline-score 0/100, a mixed set); non-trivial = a '
                'file was written; distinct by (deck text, options)')

    # ---- 1. witnesses of the open findings and corpus of the repaired ones ----
    cases, meta = [], []
    for cls, (deck_text, args) in WITNESSES.items():
        with cov:
            conv, cap = cap_mod.convert(deck_text, args)
        verdict = sweep_one(res, deck_text, args, conv, cap,
                            f'witness:{cls}')
        res.count(f'witness:{cls}:' + ('still-fails' if verdict is False
                                       else 'passes'))
        made = make_case(conv, cap, args, verdict)
        if made:
            cases.append(made[0])
            meta.append((deck_text, args, conv.exc, verdict, made[1]))

    # ---- 2 + 3. generated decks: sweep and tie on the same runs ----
    n_decks = 170 if tier == 'quick' else 1500
    for i in range(n_decks):
        dk, tags = gen.gen_deck(rng)
        deck_text = gen.render(dk)
        largs = gen.deckmod.lattice_args(dk)
        if tier == 'quick':
            opt_sets = [gen.OPTION_SETS[0]] + rng.sample(gen.OPTION_SETS[1:],
                                                         3)
        else:
            opt_sets = gen.OPTION_SETS
        for tag in tags:
            res.count('deck:' + tag)
        for opts in opt_sets:
            args = list(opts) + largs
            conv, cap = cap_mod.convert(deck_text, args)
            res.count('run:' + ('ok' if conv.ok else 'raises:' + conv.exc))
            if conv.text is not None and 'BOUNDARY_CONDITION' in conv.text:
                res.count('file:with-boundary-conditions')
            if conv.exc == 'ValueError' and 'conflicting boundary' in conv.msg:
                res.count('run:conflicting-boundary-conditions')
            res.seen((deck_text, args), nontrivial=conv.text is not None)
            verdict = sweep_one(res, deck_text, args, conv, cap, 'generated')
            if verdict is not None:
                res.count('file:' + ('valid' if verdict else 'invalid'))
            try:
                made = make_case(conv, cap, args, verdict)
            except (ValueError, KeyError) as exc:
                res.count('tie-skipped:' + type(exc).__name__)
                continue
            if not made:
                if cap is not None and getattr(cap, 'skip_reason', None):
                    res.count('tie-skipped:' + cap.skip_reason[:60])
                continue
            cases.append(made[0])
            meta.append((deck_text, args, conv.exc, verdict, made[1]))
            if len(res.samples) < 3 and conv.text is not None and i % 7 == 0:
                res.sample({'deck': deck_text, 'args': args,
                            'file_bytes': len(conv.text)})
    res.obligation('tie cases: the snapshot and the material helpers were '
                   'available for the runs that wrote a file', len(cases) > 0,
                   f'{len(cases)} tie cases')
    if not cases:
        res.violation('correspondence', 'no tie case could be built: the '
                      'snapshot of construct_volume_t4 or the composition '
                      'helpers are not available',
                      {'theorem_or_correspondence': 'tie:file'},
                      found_input=False)
    bad, errs = run_multi('c08_tie', ['check_file', 'check_verdict',
                                      'outside_guard', 'stage0_ok', 'check_reader',
                           'text_ok', 'check_helpers', 'check_density'],
                          cases)
    n_in = len(bad['outside_guard']) if not errs else 0   # indices where outside_guard = false
    res.extra['guard'] = {'cases': len(cases),
                          'inside_wf_state (hypotheses of C08_write_wf hold '
                          'on the tables handed to the writers)': n_in}
    res.obligation(f'tie:file ({len(cases)} runs: model convert_tail + '
                   'printer = bytes of the written file and exception class)',
                   not bad['check_file'] and not errs,
                   f'{len(bad["check_file"])} disagreements {errs[:1]}')
    res.obligation(f'tie:verdict ({len(cases)} runs: wf_fileb of the model\'s '
                   'file = verdict of the independent validator on the '
                   f'written bytes; {n_in} runs inside wf_state)',
                   not bad['check_verdict'] and not errs,
                   f'{len(bad["check_verdict"])} disagreements')
    # snapshots outside stage0_ok are expected only for the open findings
    # (a cell whose material has no card, a cell of negative importance)
    unexplained = [i for i in bad['stage0_ok'] if not meta[i][4]]
    res.count('stage0:outside-because-of-open-finding',
              len(bad['stage0_ok']) - len(unexplained))
    res.obligation(f'tie:stage0 ({len(cases)} snapshots: stage0_ok - the '
                   'hypotheses of C08_convert_tail_wf - holds on the tables '
                   'construct_volume_t4 returned, except decks with a cell of '
                   'negative importance or without M card)',
                   not unexplained and not errs,
                   f'{len(unexplained)} snapshots outside, '
                   f'{len(bad["stage0_ok"]) - len(unexplained)} explained')
    for idx in unexplained[:10]:
        deck_text, args, exc, _verdict, _open = meta[idx]
        res.violation('correspondence',
                      'the tables construct_volume_t4 returned do not satisfy '
                      'stage0_ok (hypotheses of C08_convert_tail_wf) [options '
                      f'{" ".join(args) or "default"}]',
                      {'input': {'deck': deck_text, 'args': args},
                       'theorem_or_correspondence': 'tie:stage0'},
                      found_input=False)
    res.obligation(f'tie:text ({len(cases)} snapshots: words_ok (hypothesis of '
                   'C08_written_text_wf) and finiteb on every numeric string of '
                   'the tables (hypothesis of C08_numbers_finite) hold)',
                   not [i for i in bad['text_ok'] if not meta[i][4]]
                   and not errs,
                   f'{len(bad["text_ok"])} snapshots outside (open findings '
                   'included)')
    for idx in [i for i in bad['text_ok'] if not meta[i][4]][:10]:
        deck_text, args, exc, verdict, _open = meta[idx]
        res.violation('correspondence',
                      'the tables construct_volume_t4 returned contain a string '
                      'that is not a word, or a numeric string that is not a '
                      f'finite number [options {" ".join(args) or "default"}]',
                      {'input': {'deck': deck_text, 'args': args},
                       'theorem_or_correspondence': 'tie:text'},
                      found_input=False)
    res.obligation(f'tie:helpers ({len(cases)} snapshots: the surface dictionary '
                   'is Model.insert_helpers of its first entries (PLANEX 1 / '
                   'PLANEX -1 under max+2, max+3 = the union ids))',
                   not bad['check_helpers'] and not errs,
                   f'{len(bad["check_helpers"])} snapshots differ')
    for idx in bad['check_helpers'][:5]:
        deck_text, args, exc, verdict, _open = meta[idx]
        res.violation('correspondence',
                      'the helper planes of the snapshot are not what '
                      'Model.insert_helpers inserts [options '
                      f'{" ".join(args) or "default"}]',
                      {'input': {'deck': deck_text, 'args': args},
                       'theorem_or_correspondence': 'tie:helpers'},
                      found_input=False)
    res.obligation(f'tie:density ({len(cases)} snapshots: C09\'s normalize_float maps '
                   'every stored density to itself and to the spelling the writers '
                   'use - hypothesis density_from_c09 of C08_convert_wf_all_linked)',
                   not bad['check_density'] and not errs,
                   f'{len(bad["check_density"])} snapshots differ')
    for idx in bad['check_density'][:5]:
        deck_text, args, exc, verdict, _open = meta[idx]
        res.violation('correspondence',
                      'a stored density is not a fixed point of C09\'s '
                      'normalize_float model, or the model disagrees with the '
                      f'implementation [options {" ".join(args) or "default"}]',
                      {'input': {'deck': deck_text, 'args': args},
                       'theorem_or_correspondence': 'tie:density'},
                      found_input=False)
    res.obligation(f'tie:reader ({len(cases)} runs: the Coq reader parse_t4 on the '
                   'bytes of the real file accepts exactly the files the '
                   'validator accepts, print_t4 of what it read gives the same '
                   'bytes, wf_fileb and finiteb of every numeric field of what it '
                   'read = validator verdict)',
                   not bad['check_reader'] and not errs,
                   f'{len(bad["check_reader"])} disagreements')
    for idx in bad['check_reader'][:10]:
        deck_text, args, exc, verdict, _open = meta[idx]
        res.violation('correspondence',
                      'the Coq reader and the validator disagree on the bytes '
                      f'of the written file (validator valid={verdict}) '
                      f'[options {" ".join(args) or "default"}]',
                      {'input': {'deck': deck_text, 'args': args},
                       'theorem_or_correspondence': 'tie:reader'},
                      found_input=False)
    tables_stream(res, tier, rng)
    if errs:
        res.violation('correspondence',
                      'the generated correspondence files do not compile: '
                      + errs[0][-400:],
                      {'theorem_or_correspondence': 'tie:file',
                       'errors': errs[:3]}, found_input=False)
    for idx in bad['check_file'][:10]:
        deck_text, args, exc, _verdict, _open = meta[idx]
        res.violation('correspondence',
                      'model and implementation disagree on the written file '
                      f'[options {" ".join(args) or "default"}, run raised '
                      f'{exc}]',
                      {'input': {'deck': deck_text, 'args': args},
                       'theorem_or_correspondence': 'tie:file'},
                      found_input=False)
    for idx in [i for i in bad['check_verdict']
                if i not in bad['check_file']][:10]:
        deck_text, args, exc, verdict, _open = meta[idx]
        res.violation('correspondence',
                      'wf_file of the model\'s file and the validator '
                      f'disagree (validator says valid={verdict}) [options '
                      f'{" ".join(args) or "default"}]',
                      {'input': {'deck': deck_text, 'args': args},
                       'theorem_or_correspondence': 'tie:verdict'},
                      found_input=False)


def tables_stream(res, tier, rng):
    '''Malformed stream: synthetic tables (half of them outside every
    hypothesis) through the real tail + writeT4Geometry and through the model.'''
    import c08_tables as tab
    n_tables = 150 if tier == 'quick' else 1500
    cases, meta = [], []
    for i in range(n_tables):
        tables = tab.gen_tables(rng, malformed=i % 2 == 1)
        cap = tab.capture_of(tables)
        for skip_dedup in (False, True):
            exc, text = tab.run_impl(tables, skip_dedup)
            args = tab.ARGS + (['--skip-deduplication'] if skip_dedup else [])
            valid = True
            if text is not None:
                valid = not exc and not val.validate(
                    text, want_comp=False, want_geomcomp=False)[0]
            res.count('tables:' + (exc or 'ok') + (':file' if text is not None
                                                   else ':no-file'))
            res.seen(('tables', repr(tables), skip_dedup))
            term = cap_mod.coq_input(cap, args)
            obs = cap_mod.coq_observed((exc, text))
            cases.append(f'({term},\n {obs}, {cap_mod.cbool(valid)})')
            meta.append((tables, skip_dedup, exc))
    bad, errs = run_multi('c08_tab', ['check_file', 'check_verdict',
                                      'check_reader'], cases)
    n_bad = {k: len(v) for k, v in bad.items()}
    res.obligation(f'tie:tables ({len(cases)} runs of the real tail of '
                   'convertMCNPGeometry + writeT4Geometry on synthetic tables, '
                   'half of them malformed: bytes and exception class = model; '
                   'model and reader verdicts = validator)',
                   not any(bad.values()) and not errs, f'{n_bad} {errs[:1]}')
    for fun in bad:
        for idx in bad[fun][:5]:
            tables, skip_dedup, exc = meta[idx]
            res.violation('correspondence',
                          f'synthetic tables: {fun} fails (skip_dedup='
                          f'{skip_dedup}, run raised {exc or "nothing"})',
                          {'input': {'tables': tables, 'skip_dedup': skip_dedup},
                           'theorem_or_correspondence': 'tie:tables'},
                          found_input=False)
    if errs:
        res.violation('correspondence', 'tie:tables files do not compile: '
                      + errs[0][-300:], {'errors': errs[:2]}, found_input=False)


def replay(path):
    '''Re-run the recorded input through implementation, validator, model.'''
    data = json.load(open(path))
    inp = data.get('input', {})
    if 'tables' in inp:
        import c08_tables as tab
        tables = inp['tables']
        tables['vols'] = [tuple(v[:3]) + (None if v[3] is None else tuple(v[3]),)
                          + (v[4],) for v in tables['vols']]
        exc, text = tab.run_impl(tables, inp.get('skip_dedup', False))
        print('implementation:', exc or 'no exception')
        print(text)
        args = tab.ARGS + (['--skip-deduplication'] if inp.get('skip_dedup') else [])
        model, _ = common.coq_eval(HEADER, 'run_model ' + cap_mod.coq_input(
            tab.capture_of(tables), args))
        print('model:', model)
        return 0
    deck_text, args = inp.get('deck'), inp.get('args', [])
    if deck_text is None:
        print('no deck recorded:', data.get('what'))
        return 0
    conv, cap = cap_mod.convert(deck_text, args)
    print('conversion:', conv)
    if conv.text is not None:
        print(conv.text)
        problems, _rd = val.validate(conv.text)
        for clause, msg in problems:
            print(f'validator: [{clause}] {msg}')
        if not problems:
            print('validator: structurally valid')
    if cap is not None and cap.mats is not None:
        model, _ = common.coq_eval(
            HEADER, 'run_model ' + cap_mod.coq_input(cap, args))
        print('model:', model)
    print('recorded:', data.get('what'))
    return 0
