'''C02 — elementary surfaces keep their locus and their sense.

Theorems: coq/Properties/C02.v.  Ties (correspondence by execution, model at
binary64 evaluated by vm_compute):
  card      : to_surface_mcnp + convert_mcnp_surface on one card
              vs Model.convert_card (type, parameters, sides, exception class)
  mcnp      : the SurfaceMCNP built by to_surface_mcnp (normalize_surface, the
              mcnp2cad entry, cone padding) vs Model.to_surface_mcnp
  p3        : VectUtils.planeParamsFromPoints called directly vs
              Model.plane_params_from_points (incl. which orientation branch)
  number    : CollectionDict.number_items vs Model.number_items
  evalq     : eval_quadric called directly vs Model.eval_quadric
  join      : SurfaceCollection.join vs Model.join
  spec-fM / spec-fT4 : the Coq Spec (f_M, f_T4) vs the harness's Python
              references mcnpref.surface_value / t4eval.surf_value at points
              (a cross-check of the Spec, not of the implementation)
Independent oracle (sweep): one-surface probe decks (cells -s and +s inside a
big sphere, outside cell imp 0) converted with impl.convert; membership in the
written volumes (t4eval) against the sign of mcnpref.surface_value at random
points and at points +-eps across the surface (geomcheck.compare).'''
import contextlib
import io
import json
import math
import random

import common
import deck as deckmod
import geomcheck
import impl
import mcnpref
import t4eval
from common import clist, cfloat, copt, cpair, cz, cn, cbool

# the audited bundles of coq/Properties/C02.v (each a conjunction of the
# individually stated theorems; see notes/C02.md for the members)
THEOREMS = [
    'C02_family_cards',
    'C02_family_three_point_planes',
    'C02_family_counts_numbering',
    'C02_family_text',
    'C02_family_spec',
    'C02_family_linked',
]

TRUSTED = [
    'hand-written models coq/C02/Model.v (cards -> SurfaceMCNP -> TRIPOLI-4 '
    'surfaces, numbering) and coq/C02/Text.v (card text -> card): tied by '
    'execution on generated inputs, not proved equal to the Python code',
    'Spec coq/C02/Spec.v written from DESIGN Appendix A/B (MCNP manual table '
    '3.1, TRIPOLI-4 SURF types as the converter authors read them); its '
    'executable reading is tied to harness/mcnpref and t4eval '
    '(spec-fM, spec-fT4)',
    'linked properties: the models, Specs and theorems of C04 '
    '(transformation, convert, torus law, TR card) and C03 (body functions, '
    'facet conversion, card_gives) are used as they are; the bridges '
    '(to_ms, body_args) are tied by execution (tie:link-C04, tie:link-C03, '
    'tie:link-C03-TR)',
    'IEEE-754 rounding: theorems are about exact reals (RS); the binary64 '
    'instance (FS, series for atan) is only compared with the implementation '
    'at 1e-9 scaled; decimal -> binary64 of number tokens is reproduced '
    'exactly for <= 15 digits',
    'the SURF/VOLU/TRANSFORM text written by the converter is read back by '
    'impl.T4File/t4eval (harness), one card per deck and several cards per '
    'deck (with TR numbers); str(float) rendering is not modelled',
    'harness: generators, mcnpref, t4eval, geomcheck, PEG shim replacing TatSu',
]
ASSUMPTIONS = [
    'card text is ASCII; float() spellings inf / nan / underscores are '
    'outside the model of to_float (the generators stay inside)',
    'cards WITH a TR number: no longer assumed away -- linked to C04 '
    '(C02_text_every_card_all_mnemonics_linked, C02_torus_tr_linked, '
    'C02_torus_tr_total_linked) under the hypothesis that the TR card gives '
    'an orthonormal matrix (card_gives: 12/13 entries, starred, 3 entries, '
    'abbreviated); macrobody cards: linked to C03 (C02_text_body_linked)',
    'the sheet selector of a K card is absent or of magnitude < 9 (int() '
    'truncation is modelled there; a larger one is Err EUnmodelled); the '
    'sense theorems take it in {absent, 0, +1, -1}; |int| >= 2 is '
    'characterised (C02_large_selector); t^2 >= 0',
    'three-point planes: the manual\'s orientation is proved when no tested '
    'quantity lies in the band 0 < |v| <= 1e-14 |n| (the code\'s epsilon); '
    'inside the band the code follows the thresholded rule (proved for every '
    'accepted card) and the opposite orientation is the open finding '
    'p3_epsilon_band_orientation; the sweep oracle is exact',
    'X/Y/Z cone form: r1, r2 >= 0 (MCNP admissibility; the sheet is then the one '
    'containing both points, apex-coincident points included)',
    'the 5-entry TX/TY/TZ form is not an MCNP card; it is read as B = C',
    'X/Y/Z with three pairs raise NotImplementedError (declared limitation; '
    'the Spec has one or two pairs)',
]

HEADER = ('From Coq Require Import List NArith ZArith Bool PrimFloat.\n'
          'From T4V Require Import Base.Scalar C02.Vec C02.Spec C02.Model '
          'C02.Exec.\n')

EVAL_HEADER = HEADER + 'Import ListNotations.\nOpen Scope float_scope.\n'

MNEM = {'px': 'M_PX', 'py': 'M_PY', 'pz': 'M_PZ', 'p': 'M_P', 'so': 'M_SO',
        's': 'M_S', 'sx': 'M_SX', 'sy': 'M_SY', 'sz': 'M_SZ',
        'c/x': 'M_C_X', 'c/y': 'M_C_Y', 'c/z': 'M_C_Z', 'cx': 'M_CX',
        'cy': 'M_CY', 'cz': 'M_CZ', 'c': 'M_C', 'k/x': 'M_K_X',
        'k/y': 'M_K_Y', 'k/z': 'M_K_Z', 'kx': 'M_KX', 'ky': 'M_KY',
        'kz': 'M_KZ', 'k': 'M_K', 'sq': 'M_SQ', 'gq': 'M_GQ', 't': 'M_T',
        'tx': 'M_TX', 'ty': 'M_TY', 'tz': 'M_TZ', 'x': 'M_X', 'y': 'M_Y',
        'z': 'M_Z'}
# cards of the property (MCNP manual) — the sweep runs on these
PROPERTY_MNEMS = ['px', 'py', 'pz', 'p', 'p3', 'so', 's', 'sx', 'sy', 'sz',
                  'c/x', 'c/y', 'c/z', 'cx', 'cy', 'cz',
                  'k/x', 'k/y', 'k/z', 'kx', 'ky', 'kz', 'k/x1', 'k/y1',
                  'k/z1', 'kx1', 'ky1', 'kz1', 'sq', 'gq', 'tx', 'ty', 'tz',
                  'tx5', 'x', 'y', 'z', 'x2', 'y2', 'z2']
EXC = {'IndexError': 'EIndex', 'ValueError': 'EValue', 'TypeError': 'EType',
       'ZeroDivisionError': 'EZeroDiv', 'KeyError': 'EKey',
       'NotImplementedError': 'ENotImpl', 'SurfaceConversionError': 'EConv'}
KIND = {'S': 'KdS', 'P': 'KdP', 'C': 'KdC', 'K': 'KdK', 'T': 'KdT',
        'SQ': 'KdSQ', 'GQ': 'KdGQ'}


# ---- generation -----------------------------------------------------------

def dy(rng, lo=-8.0, hi=8.0):
    '''Dyadic rational with at most 12 significant bits.'''
    if rng.random() < 0.25:
        return float(rng.choice([0, 0, 1, -1, 2, -2, 0.5, -0.5, 3, 4, -3]))
    k = rng.choice([0, 1, 2, 3, 4, 6])
    m = rng.randint(-2047, 2047)
    v = m / (1 << k)
    while abs(v) > max(abs(lo), abs(hi)):
        v /= 2
    return float(v)


def dpos(rng, hi=6.0):
    '''Strictly positive dyadic.'''
    if rng.random() < 0.3:
        return float(rng.choice([0.25, 0.5, 1, 1.5, 2, 3, 4]))
    v = abs(dy(rng, -hi, hi))
    return v if v > 0 else 1.0


def gen_normal(rng):
    mode = rng.random()
    if mode < 0.35:                      # axis aligned, both signs
        n = [0.0, 0.0, 0.0]
        n[rng.randrange(3)] = rng.choice([1.0, -1.0, 2.0, -0.5, 4.0])
        return n
    if mode < 0.55:                      # one zero component
        n = [dy(rng, -4, 4) or 1.0 for _ in range(3)]
        n[rng.randrange(3)] = 0.0
        return n
    n = [dy(rng, -4, 4) for _ in range(3)]
    if not any(n):
        n[rng.randrange(3)] = 1.0
    return n


def gen_three_points(rng):
    '''Three non-collinear points with the branch triggers D=0, D=C=0,
    D=C=B=0 and both orientations.'''
    mode = rng.random()
    while True:
        if mode < 0.2:          # plane through the origin, C != 0 in general
            a = [dy(rng, -4, 4) for _ in range(3)]
            b = [dy(rng, -4, 4) for _ in range(3)]
            pts = [[0.0, 0.0, 0.0], a, b]
            if rng.random() < 0.5:   # origin not among the points
                pts = [a, b, [a[i] + b[i] for i in range(3)]]
        elif mode < 0.35:       # D = C = 0: contains the z axis
            u = [dy(rng, -4, 4), dy(rng, -4, 4), 0.0]
            pts = [[0.0, 0.0, dy(rng, -4, 4)], [u[0], u[1], dy(rng, -4, 4)],
                   [2 * u[0], 2 * u[1], dy(rng, -4, 4)]]
        elif mode < 0.45:       # D = C = B = 0: the plane x = 0
            pts = [[0.0, dy(rng), dy(rng)], [0.0, dy(rng), dy(rng)],
                   [0.0, dy(rng), dy(rng)]]
        elif mode < 0.57:       # any orientation, tiny offset from the origin:
            # |D|/|n| = 2^-k |n| spans the whole range between the code's
            # 1e-14 and ordinary sizes (a mis-set threshold shows here)
            nrm = [float(rng.randint(-3, 3)) for _ in range(3)]
            if not any(nrm):
                nrm[rng.randrange(3)] = 1.0
            e = [0.0, 0.0, 0.0]
            e[min(range(3), key=lambda i: abs(nrm[i]))] = 1.0
            u = cross(nrm, e)
            v = cross(nrm, u)
            t = rng.choice([1.0, -1.0]) * 2.0 ** -rng.randint(5, 36)
            pts = []
            for _ in range(3):
                a, b = rng.randint(-4, 4), rng.randint(-4, 4)
                pts.append([t * nrm[i] + a * u[i] + b * v[i]
                            for i in range(3)])
        elif mode < 0.68:       # axis-aligned planes off the origin
            k = rng.randrange(3)
            c = dy(rng, -4, 4)
            pts = []
            for _ in range(3):
                q = [dy(rng, -4, 4) for _ in range(3)]
                q[k] = c
                pts.append(q)
        else:
            pts = [[dy(rng, -4, 4) for _ in range(3)] for _ in range(3)]
        rng.shuffle(pts)
        n = cross(sub(pts[0], pts[1]), sub(pts[0], pts[2]))
        if dot(n, n) > 1e-3:
            return [v for q in pts for v in q]
        mode = rng.random()


def sub(a, b):
    return [a[i] - b[i] for i in range(3)]


def cross(a, b):
    return [a[1] * b[2] - a[2] * b[1], a[2] * b[0] - a[0] * b[2],
            a[0] * b[1] - a[1] * b[0]]


def dot(a, b):
    return sum(a[i] * b[i] for i in range(3))


def gen_xyz(rng, form):
    '''form: "2" two entries; "4": plane / cylinder / cone triggers incl. the
    apex-coincident first or second point.'''
    if form == '2':
        return [dy(rng, -4, 4), dpos(rng, 4)]
    mode = rng.random()
    x1 = dy(rng, -4, 4)
    x2 = x1
    while x2 == x1:
        x2 = dy(rng, -4, 4)
    r1 = dpos(rng, 4)
    r2 = r1
    while r2 == r1:
        r2 = dpos(rng, 4)
    if mode < 0.12:
        return [x1, r1, x1, r2]          # plane
    if mode < 0.24:
        return [x1, r1, x2, r1]          # cylinder
    if mode < 0.36:
        return [x1, 0.0, x2, r2]         # first point on the apex
    if mode < 0.46:
        return [x1, r1, x2, 0.0]         # second point on the apex
    return [x1, r1, x2, r2]


def gen_unit_axis(rng):
    mode = rng.random()
    if mode < 0.4:
        u = [0.0, 0.0, 0.0]
        u[rng.randrange(3)] = rng.choice([1.0, -1.0])
        return u
    if mode < 0.7:                       # exact rational unit vectors
        a, b, c = rng.choice([(0.6, 0.8, 0.0), (0.0, 0.6, 0.8),
                              (0.8, 0.0, -0.6), (-0.6, 0.0, 0.8)])
        return [a, b, c]
    v = [dy(rng, -2, 2) for _ in range(3)]
    if not any(v):
        v[0] = 1.0
    return v


def gen_card(rng, tag):
    '''A card of the property (valid parameter counts); tag selects the
    mnemonic and form. Returns (mnemonic, params).'''
    if tag in ('px', 'py', 'pz'):
        return tag, [dy(rng)]
    if tag == 'p':
        return 'p', gen_normal(rng) + [rng.choice([0.0, dy(rng)])]
    if tag == 'p3':
        return 'p', gen_three_points(rng)
    if tag == 'so':
        return 'so', [dpos(rng)]
    if tag == 's':
        return 's', [dy(rng, -4, 4) for _ in range(3)] + [dpos(rng)]
    if tag in ('sx', 'sy', 'sz'):
        return tag, [dy(rng, -4, 4), dpos(rng)]
    if tag in ('c/x', 'c/y', 'c/z'):
        return tag, [dy(rng, -4, 4), dy(rng, -4, 4), dpos(rng)]
    if tag in ('cx', 'cy', 'cz'):
        return tag, [dpos(rng)]
    if tag in ('k/x', 'k/y', 'k/z', 'k/x1', 'k/y1', 'k/z1'):
        prm = [dy(rng, -4, 4) for _ in range(3)] + [dpos(rng, 4)]
        if tag.endswith('1'):
            prm.append(rng.choice([1.0, -1.0, 1.0, -1.0, 0.0]))
        return tag[:3], prm
    if tag in ('kx', 'ky', 'kz', 'kx1', 'ky1', 'kz1'):
        prm = [dy(rng, -4, 4), dpos(rng, 4)]
        if tag.endswith('1'):
            prm.append(rng.choice([1.0, -1.0, 1.0, -1.0, 0.0]))
        return tag[:2], prm
    if tag == 'sq':
        prm = [dy(rng, -3, 3) for _ in range(10)]
        if rng.random() < 0.5:          # a recognisable closed quadric
            prm[0:3] = [dpos(rng, 3) for _ in range(3)]
            prm[3:6] = [0.0, 0.0, 0.0] if rng.random() < 0.6 else prm[3:6]
        mode = rng.random()
        if mode < 0.55:
            prm[6] = -dpos(rng, 8)
        elif mode < 0.65:
            prm[6] = 0.0
        else:
            prm[6] = dpos(rng, 8)        # G > 0: the sign-flip branch
        return 'sq', prm
    if tag == 'gq':
        prm = [dy(rng, -3, 3) for _ in range(10)]
        if rng.random() < 0.3:
            prm[3:6] = [0.0, 0.0, 0.0]
        return 'gq', prm
    if tag in ('tx', 'ty', 'tz'):
        return tag, ([dy(rng, -3, 3) for _ in range(3)]
                     + [dpos(rng, 5), dpos(rng, 2), dpos(rng, 2)])
    if tag == 'tx5':
        return rng.choice(['tx', 'ty', 'tz']), (
            [dy(rng, -3, 3) for _ in range(3)] + [dpos(rng, 5), dpos(rng, 2)])
    if tag in ('x', 'y', 'z'):
        return tag, gen_xyz(rng, '4')
    if tag in ('x2', 'y2', 'z2'):
        return tag[0], gen_xyz(rng, '2')
    if tag == 'c':
        return 'c', ([dy(rng, -4, 4) for _ in range(3)] + [dpos(rng)]
                     + gen_unit_axis(rng))
    if tag == 'k':
        prm = ([dy(rng, -4, 4) for _ in range(3)] + [dpos(rng, 3)]
               + gen_unit_axis(rng))
        mode = rng.random()
        if mode < 0.55:
            prm.append(rng.choice([1.0, -1.0, 1.0, -1.0, 0.0]))
        elif mode < 0.62:                # ninth entry = the log flag of _cone
            prm += [rng.choice([1.0, -1.0]), rng.choice([0.0, 1.0])]
        return 'k', prm
    raise ValueError(tag)


ALL_TAGS = PROPERTY_MNEMS + ['c', 'k']


def gen_malformed(rng):
    '''Cards outside admissibility: wrong counts, zero normal, collinear
    points, negative t^2, unknown table entries, odd sheet selectors.'''
    fault = rng.choice(['drop', 'drop', 'add', 'add', 'empty', 'zero_normal',
                        'collinear', 'near_collinear', 'neg_t2', 'table',
                        'p_count', 'xyz_count', 'sheet', 'tiny_plane'])
    tag = rng.choice(ALL_TAGS)
    mn, prm = gen_card(rng, tag)
    if fault == 'drop':
        k = rng.randint(1, max(1, min(3, len(prm))))
        prm = prm[:len(prm) - k]
    elif fault == 'add':
        prm = prm + [dy(rng) for _ in range(rng.randint(1, 3))]
    elif fault == 'empty':
        prm = []
    elif fault == 'zero_normal':
        mn, prm = 'p', [0.0, 0.0, 0.0, dy(rng)]
    elif fault == 'collinear':
        a = [dy(rng, -4, 4) for _ in range(3)]
        d = [dy(rng, -2, 2) for _ in range(3)]
        s, t = rng.choice([(1, 2), (2, -1), (0, 1), (0.5, 3)])
        mn = 'p'
        prm = a + [a[i] + s * d[i] for i in range(3)] \
            + [a[i] + t * d[i] for i in range(3)]
    elif fault == 'near_collinear':
        # |normal|^2 around the 1e-10 threshold of the code
        a = [dy(rng, -4, 4) for _ in range(3)]
        h = rng.choice([2.0 ** -14, 2.0 ** -16, 2.0 ** -17, 2.0 ** -18,
                        2.0 ** -20])
        mn = 'p'
        prm = a + [a[0] + 1.0, a[1], a[2]] + [a[0], a[1] + h, a[2]]
    elif fault == 'tiny_plane':
        # D (or C, or B) inside the 1e-14 band of the orientation rule
        t = rng.choice([2.0 ** -50, -2.0 ** -50, 2.0 ** -47, -2.0 ** -48,
                        2.0 ** -45, -2.0 ** -46])
        k = rng.randrange(3)
        if k == 0:      # plane z = t
            pts = [[0.0, 0.0, t], [1.0, 0.0, t], [0.0, 1.0, t]]
        elif k == 1:    # through the origin, normal (0, 1, t)-ish
            pts = [[0.0, 0.0, 0.0], [1.0, 0.0, 0.0], [0.0, t, -1.0]]
        else:
            pts = [[0.0, 0.0, 0.0], [0.0, 0.0, 1.0], [t, 1.0, 0.0]]
        if rng.random() < 0.5:
            pts[1], pts[2] = pts[2], pts[1]
        mn, prm = 'p', [v for q in pts for v in q]
    elif fault == 'neg_t2':
        mn, prm = gen_card(rng, rng.choice(['kx', 'ky', 'kz', 'k/x', 'k/y',
                                            'k/z', 'kx1', 'k/z1']))
        prm[1 if len(mn) == 2 else 3] = -dpos(rng, 3)
    elif fault == 'table':
        mn = 't'
        prm = [dy(rng) for _ in range(rng.choice([5, 6, 6]))]
    elif fault == 'p_count':
        mn = 'p'
        prm = [dy(rng) for _ in range(rng.choice([0, 1, 2, 3, 5, 6, 7, 8,
                                                   10, 12]))]
    elif fault == 'xyz_count':
        mn = rng.choice('xyz')
        prm = [dy(rng) for _ in range(rng.choice([0, 1, 3, 5, 6, 8]))]
        if len(prm) >= 3 and rng.random() < 0.5:
            prm[2] = prm[0]        # looks like the plane form, wrong count
    elif fault == 'sheet':
        mn, prm = gen_card(rng, rng.choice(['kx1', 'ky1', 'kz1', 'k/x1',
                                            'k/y1', 'k/z1']))
        prm[-1] = rng.choice([2.0, -2.0, 0.5, -0.0, 3.0, 1.5, -1.25, -0.5,
                               1.999, -1.0, 1.0, 2.5, -3.75, 8.0, -8.5,
                               8.999, 9.0, -9.0, 12.0, 4.0, -7.0])
    return mn, prm, fault


# ---- implementation side --------------------------------------------------

COV = None      # line-coverage tracer, active only around the tied calls


class traced:
    '''Context manager: trace the anchored functions if a tracer is set.'''
    def __enter__(self):
        try:
            if COV is not None:
                COV.__enter__()
        except Exception:               # pylint: disable=broad-except
            pass                        # coverage is information only

    def __exit__(self, *exc):
        try:
            if COV is not None:
                COV.__exit__(*exc)
        except Exception:               # pylint: disable=broad-except
            pass
        return False


def exc_class(exc):
    return EXC.get(type(exc).__name__, 'OTHER:' + type(exc).__name__)


def impl_card(mn, prm):
    '''to_surface_mcnp then convert_mcnp_surface on one card without TR.
    Returns (mcnp, coll): each ('ok', ...) or ('err', class).'''
    from t4_geom_convert.Kernel.FileHandlers.Parser.ParseMCNPSurface import \
        to_surface_mcnp
    from t4_geom_convert.Kernel.Surface.ConversionSurfaceMCNPToT4 import \
        convert_mcnp_surface
    from t4_geom_convert.Kernel.Surface.ESurfaceTypeMCNP import string_to_enum
    try:
        enum = string_to_enum(mn)
        with contextlib.redirect_stdout(io.StringIO()), traced():
            surf = to_surface_mcnp(1, '', '', enum, [float(v) for v in prm],
                                   {})   # stdout: _cone(log=...)
    except Exception as exc:            # pylint: disable=broad-except
        err = ('err', exc_class(exc))
        return err, err
    frame = surf.param_surface
    if frame[0] is None:
        fr = None
    else:
        fr = (tuple(float(v) for v in frame[0]),
              tuple(float(v) for v in frame[1]))
    mcnp = ('ok', surf.type_surface.name, fr,
            [None if v is None else float(v) for v in surf.compl_param])
    try:
        with traced():
            coll = convert_mcnp_surface(1, [(surf, 1)])
    except Exception as exc:            # pylint: disable=broad-except
        return mcnp, ('err', exc_class(exc))
    out = []
    for sub_surf, side in coll.surfs:
        if sub_surf.transform is not None:
            return mcnp, ('err', 'OTHER:transform')
        out.append((sub_surf.type_surface.name,
                    [float(v) for v in sub_surf.param_surface], int(side)))
    return mcnp, ('ok', out)


def coq_floats(vals):
    return clist(cfloat(v) for v in vals)


def coq_vec(v):
    return cpair(*(cfloat(c) for c in v))


def coq_coll_out(out):
    if out[0] == 'err':
        return f'(Err {out[1]})'
    return '(Ok ' + clist(cpair(cpair(ty, coq_floats(prm)), cz(side))
                          for ty, prm, side in out[1]) + ')'


def coq_mcnp_out(out):
    if out[0] == 'err':
        return f'(Err {out[1]})'
    _, kind, fr, compl = out
    frame = 'None' if fr is None else \
        f'(Some ({coq_vec(fr[0])}, {coq_vec(fr[1])}))'
    return ('(Ok ' + cpair(KIND[kind], frame,
                           clist(copt(v, cfloat) for v in compl)) + ')')


def model_skips(mn, prm, coll_out):
    '''Inputs on which the model answers EUnmodelled by design: a sheet
    selector of magnitude >= 9 (|int(nappe)| >= 9).'''
    if coll_out[0] == 'ok':
        return any(abs(side) > 8 for _, _, side in coll_out[1])
    return False


# ---- the independent oracle: probe decks ---------------------------------

def probe_deck(mn, prm):
    S = deckmod.S
    return {'title': 'C02 probe',
            'cells': [
                {'id': 1, 'mat': 0, 'rho': None, 'expr': ('*', S(-1), S(-9)),
                 'imp': {'n': 1}},
                {'id': 2, 'mat': 0, 'rho': None, 'expr': ('*', S(1), S(-9)),
                 'imp': {'n': 1}},
                {'id': 3, 'mat': 0, 'rho': None, 'expr': S(9),
                 'imp': {'n': 0}}],
            'surfaces': [
                {'id': 1, 'mn': mn, 'params': [float(v) for v in prm],
                 'tr': None, 'bc': ''},
                {'id': 9, 'mn': 'so', 'params': [64.0], 'tr': None,
                 'bc': ''}]}


P3_BAND = 1e-14


def exact_three_point_plane(prm, band=0.0):
    '''(A, B, C, D) of the plane through three points oriented by the
    manual's four rules, in exact rational arithmetic (floats are rationals).
    With band > 0 the quantities D/|n|, C/|n|, B/|n|, A/|n| are read as zero
    when their magnitude is <= band: this is the documented blind spot of the
    theorems (the code's epsilon), applied here so that the band is swept for
    locus and for "the next rule applies" instead of being skipped.'''
    from fractions import Fraction as Fr
    p1, p2, p3 = ([Fr(v) for v in prm[3 * i:3 * i + 3]] for i in range(3))
    n = cross(sub(p2, p1), sub(p3, p1))
    d = dot(n, p1)
    n2 = dot(n, n)
    if n2 == 0:
        raise ValueError('collinear points')
    for comp in (d, n[2], n[1], n[0]):
        if comp * comp > Fr(band) ** 2 * n2:      # |comp|/|n| > band
            sign = 1 if comp > 0 else -1
            scale = math.sqrt(float(n2))
            return [float(sign * n[0]) / scale, float(sign * n[1]) / scale,
                    float(sign * n[2]) / scale, float(sign * d) / scale]
    raise ValueError('degenerate three-point plane')


def in_p3_band(prm):
    '''Some quantity tested by the orientation rule is tiny but not zero.'''
    try:
        return exact_three_point_plane(prm, 0.0) != \
            exact_three_point_plane(prm, P3_BAND)
    except ValueError:
        return True


def ref_params(mn, prm, band=0.0):
    '''(mnemonic, parameters) handed to the reference semantics. The 5-entry
    torus is the converter's own extension, read as B = C. Three-point planes
    are oriented here in EXACT rational arithmetic by the manual's rules (no
    tolerance: the code's 1e-14 band is a finding, not part of the oracle).'''
    if mn in ('tx', 'ty', 'tz') and len(prm) == 5:
        return mn, list(prm) + [prm[4]]
    if mn == 'p' and len(prm) == 9:
        return 'p', exact_three_point_plane(prm, band)
    return mn, list(prm)


def probe_points(rng, mn, prm, n_random, n_cross):
    '''Random points plus points +-eps across the surface (found by bisection
    of the reference sense value along random segments).'''
    rmn, rp = ref_params(mn, prm)

    def val(q):
        return mcnpref.surface_value(rmn, rp, q)
    pts = geomcheck.sample_points(rng, n_random, half=7.0)
    # points close to the parameters of the card (centres, apices)
    anchors = [v for v in prm if abs(v) < 10][:6]
    for _ in range(n_random // 3):
        base = [rng.choice(anchors) if anchors and rng.random() < 0.6
                else rng.uniform(-5, 5) for _ in range(3)]
        pts.append([b + rng.gauss(0, 0.7) for b in base])
    found = 0
    tries = 0
    while found < n_cross and tries < 12 * n_cross:
        tries += 1
        a = rng.choice(pts)
        b = rng.choice(pts)
        try:
            va, vb = val(a), val(b)
        except (ValueError, ZeroDivisionError):
            break
        if va == 0 or vb == 0 or (va > 0) == (vb > 0):
            continue
        lo, hi = list(a), list(b)
        for _ in range(60):
            mid = [(lo[i] + hi[i]) / 2 for i in range(3)]
            vm = val(mid)
            if vm == 0:
                break
            if (vm > 0) == (va > 0):
                lo = mid
            else:
                hi = mid
        seg = sub(b, a)
        length = math.sqrt(dot(seg, seg)) or 1.0
        unit = [c / length for c in seg]
        for eps in (1e-3, -1e-3, 3e-5, -3e-5):
            pts.append([lo[i] + eps * unit[i] for i in range(3)])
        found += 1
    return pts


def sweep_card(rng, mn, prm, n_random=40, n_cross=8, ref=None):
    '''Property-level check of one card on the implementation. Returns
    (status, detail): status in "ok", "rejected" (conversion failed),
    "wrong" (some point on the wrong side), "oracle-error".  ref = (mnemonic,
    params) replaces the card in the REFERENCE deck only (used to recognise
    the exact shape of a known finding).'''
    dk = probe_deck(mn, prm)
    text = deckmod.render(dk)
    conv = impl.convert(text)
    if not conv.ok or conv.text is None:
        return 'rejected', {'deck': text, 'exc': conv.exc,
                            'msg': conv.msg[:300]}
    try:
        t4 = impl.T4File(conv.text)
    except ValueError as exc:
        return 'wrong', {'deck': text, 'why': f'unreadable output: {exc}'}
    if t4.errors:
        return 'wrong', {'deck': text, 'why': f'output errors {t4.errors[:3]}'}
    # the reference uses the converter's reading only for the 5-entry torus
    try:
        rmn, rprm = ref if ref is not None else (mn, prm)
        ref_deck = probe_deck(*ref_params(rmn, rprm))
        pts = probe_points(rng, rmn, rprm, n_random, n_cross)
        checked, failures = geomcheck.compare(ref_deck, t4, pts, eps=1e-7)
    except (ValueError, ZeroDivisionError) as exc:
        return 'oracle-error', {'deck': text, 'why': str(exc)}
    if failures:
        return 'wrong', {'deck': text, 'failures': failures[:3],
                         'n_failures': len(failures), 'checked': checked}
    return 'ok', {'checked': checked}


# ---- known-finding classes (narrow predicates) ----------------------------

def finding_class(mn, prm, status, detail):
    '''Name of the open finding that this failing card belongs to, or None.'''
    if mn == 'p' and len(prm) == 9 and status == 'wrong' and in_p3_band(prm):
        # exactly this defect: some quantity of the orientation rule lies
        # inside the code's 1e-14 band, the manual's exact rule and the
        # thresholded rule pick opposite orientations, and the card is
        # converted as the thresholded rule says (C02_P_three_points_thresholded)
        try:
            banded = exact_three_point_plane(prm, P3_BAND)
        except ValueError:
            return None
        again, _ = sweep_card(random.Random(0), mn, prm, 40, 8,
                              ref=('p', banded))
        if again == 'ok':
            return 'p3_epsilon_band_orientation'
    return None


T50 = 2.0 ** -50
WITNESSES = [
    ('p3_epsilon_band_orientation', 'p',
     [0.0, 0.0, -T50, 0.0, 1.0, -T50, 1.0, 0.0, -T50]),
]


# minimised cases kept from defects, mutation self-tests and branch triggers;
# tied and swept first on every run
T20 = 2.0 ** -20
CORPUS = [
    ('x', [0.0, 0.0, 1.0, 1.0]),          # first point on the apex (old defect)
    ('z', [0.0, 0.0, 1.0, 1.0]),
    ('y', [0.0, 1.0, 2.0, 3.0]),          # 'y' was missing from the table
    ('y', [2.0, 1.0, 0.0, 0.0]),          # second point on the apex, x2 < x1
    ('x', [1.0, 1.0, 0.0, 0.0]),
    ('y', [1.0, 2.0, 3.0, 2.0]),          # cylinder form: radius, not abscissa
    ('k', [0.0, 0.0, 0.0, 1.0, 0.0, 0.0, -1.0, 1.0]),   # anti-parallel axis
    ('k', [1.0, 2.0, 3.0, 0.5, 0.0, -1.0, 0.0, -1.0]),
    ('k', [1.0, 2.0, 3.0, 0.5, -1.0, 0.0, 0.0, 1.0]),
    ('k', [1.0, 2.0, 3.0, 0.5, 0.0, 0.0, 1.0, -1.0, 1.0]),   # ninth entry: log
    ('k', [1.0, 2.0, 3.0, 0.5, 0.6, 0.0, 0.8, 1.0, 0.0]),
    ('c', [1.0, 2.0, 3.0, 2.0, 0.6, 0.8, 0.0]),
    ('kz', [0.0, 1.0, -1.0]),
    ('kz', [1.0, 4.0]),                   # t^2 = 4: the square root matters
    ('k/y', [1.0, 2.0, 3.0, 0.25, 1.0]),
    ('k/y', [1.0, 2.0, 3.0, 0.25]),
    ('p', [0.0, 0.0, -1.0, 1.0, 0.0, -1.0, 0.0, 1.0, -1.0]),   # z = -1
    ('p', [0.0, 0.0, -1.0, 0.0, 1.0, -1.0, 1.0, 0.0, -1.0]),
    ('p', [0.0, 0.0, 0.0, 1.0, 0.0, 0.0, 0.0, 1.0, 0.0]),      # D = 0
    ('p', [0.0, 0.0, 0.0, 0.0, 1.0, 0.0, 1.0, 0.0, 0.0]),
    ('p', [0.0, 0.0, 0.0, 1.0, 0.0, 0.0, 0.0, 0.0, 1.0]),      # D = C = 0
    ('p', [0.0, 0.0, 0.0, 0.0, 0.0, 1.0, 1.0, 0.0, 0.0]),
    ('p', [0.0, 0.0, 0.0, 0.0, 1.0, 0.0, 0.0, 0.0, 1.0]),      # D = C = B = 0
    ('p', [0.0, 0.0, 0.0, 0.0, 0.0, 1.0, 0.0, 1.0, 0.0]),
    ('p', [0.0, 0.0, -T20, 1.0, 0.0, -T20, 0.0, 1.0, -T20]),   # small D < 0
    ('p', [0.0, 0.0, T20, 0.0, 1.0, T20, 1.0, 0.0, T20]),
    ('p', [3.0, 0.0, 0.0, 6.0]),          # non-unit normal
    ('p', [0.0, -2.0, 0.0, 3.0]),
    ('p', [1.0, 2.0, -2.0, -3.0]),
    ('tx', [1.0, 2.0, 3.0, 4.0, 1.0]),    # five entries
    ('ty', [1.0, 2.0, 3.0, 4.0, 1.0, 0.5]),
    ('c/y', [1.0, 2.0, 3.0]),
    ('c/x', [1.0, 2.0, 3.0]),
    ('c/z', [1.0, 2.0, 3.0]),
    ('sq', [1.0, 2.0, 3.0, 0.5, -0.25, 0.75, -4.0, 1.0, -2.0, 3.0]),
    # G > 0: formerly emitted with the senses exchanged (fixed); and its GQ twin
    ('sq', [-1.0, -1.0, -1.0, 0.0, 0.0, 0.0, 1.0, 0.0, 0.0, 0.0]),
    ('gq', [-1.0, -1.0, -1.0, 0.0, 0.0, 0.0, 0.0, 0.0, 0.0, 1.0]),
    ('sq', [1.0, -2.0, 0.5, 0.25, 0.5, -1.0, 3.0, 1.0, -2.0, 0.5]),
    ('gq', [1.0, 2.0, 3.0, 0.5, -0.25, 0.75, -4.0, 1.0, -2.0, -3.0]),
    ('gq', [-1.0, 2.0, 3.0, 0.5, -0.25, 0.75, -4.0, 1.0, -2.0, 3.0]),   # leading coefficient < 0
    ('gq', [0.0, 0.0, -1.0, 0.0, 0.0, 0.0, 2.0, 0.0, 0.0, 1.0]),
    ('z', [2.0, 0.5, 2.0, 1.5, 4.0, 3.0]),      # three pairs: NotImplementedError
    ('x', [1.0, 2.0, 1.0, 3.0, 4.0]),           # surplus entry: NotImplementedError
]


def admissible(mn, prm):
    '''Cards inside the quantifier of the property (MCNP-admissible): used to
    decide which generated cards are swept.'''
    n = len(prm)
    if mn in ('px', 'py', 'pz', 'so', 'cx', 'cy', 'cz'):
        return n == 1 and (mn.startswith('p') or prm[0] > 0)
    if mn == 'p':
        if n == 4:
            return any(prm[0:3])
        if n == 9:
            nrm = cross(sub(prm[0:3], prm[3:6]), sub(prm[0:3], prm[6:9]))
            return dot(nrm, nrm) > 1e-6
        return False
    if mn == 's':
        return n == 4 and prm[3] > 0
    if mn in ('sx', 'sy', 'sz'):
        return n == 2 and prm[1] > 0
    if mn in ('c/x', 'c/y', 'c/z'):
        return n == 3 and prm[2] > 0
    if mn in ('kx', 'ky', 'kz'):
        return n in (2, 3) and prm[1] > 0 and (n == 2 or prm[2] in (1, -1))
    if mn in ('k/x', 'k/y', 'k/z'):
        return n in (4, 5) and prm[3] > 0 and (n == 4 or prm[4] in (1, -1))
    if mn == 'sq':
        return n == 10 and any(prm[0:6])
    if mn == 'gq':
        return n == 10 and any(prm[0:9])
    if mn in ('tx', 'ty', 'tz'):
        return n in (5, 6) and all(v > 0 for v in prm[3:])
    if mn in ('x', 'y', 'z'):
        if n == 2:
            return True
        if n != 4:
            return False
        x1, r1, x2, r2 = prm
        if x1 == x2 or r1 == r2:
            return r1 >= 0 and r2 >= 0
        return r1 >= 0 and r2 >= 0
    return False


# ---- number_items / join --------------------------------------------------

def gen_dict(rng):
    '''A CollectionDict-like list of (key, [(label, side), ...]).'''
    n = rng.choice([1, 1, 2, 3, 4, 6, 10])
    keys = rng.sample(range(1, 60), n) if rng.random() < 0.8 \
        else rng.sample([1, 2, 3, 5, 999, 1000, 1001, 5003, 70000], min(n, 9))
    label = [0]
    dic = []
    for key in keys:
        size = rng.choice([1, 1, 1, 2, 2, 3, 6, 8])
        value = []
        for _ in range(size):
            label[0] += 1
            value.append((label[0], rng.choice([1, -1])))
        dic.append((key, value))
    return dic


def impl_number(dic):
    from t4_geom_convert.Kernel.Surface.CollectionDict import CollectionDict
    cdict = CollectionDict()
    for key, value in dic:
        cdict[key] = list(value)
    try:
        with traced():
            numbering, matching = cdict.number_items()
    except Exception as exc:            # pylint: disable=broad-except
        return ('err', exc_class(exc))
    return ('ok', list(numbering.items()), list(matching.items()))


def impl_join(colls):
    from t4_geom_convert.Kernel.Surface.SurfaceCollection import \
        SurfaceCollection
    from t4_geom_convert.Kernel.Surface.SurfaceConversionError import \
        SurfaceConversionError

    class Raw:                       # join only reads .surfs
        def __init__(self, surfs):
            self.surfs = tuple(surfs)
    try:
        with traced():
            joined = SurfaceCollection.join([(Raw(c), side)
                                             for c, side in colls])
    except SurfaceConversionError:
        return ('err', 'EConv')
    return ('ok', list(joined.surfs))


# ---- the run ----------------------------------------------------------------

def report_sweep_failure(res, mn, prm, status, detail, origin):
    cls = finding_class(mn, prm, status, detail)
    what = (f'{origin}: card "{mn} {" ".join(map(repr, prm))}" '
            + ('is not converted: ' + str(detail.get('exc')) + ' '
               + str(detail.get('msg')) if status == 'rejected'
               else 'changes locus or sense: '
               + str(detail.get('failures', detail.get('why')))[:200]))
    res.violation('impl-violation', what,
                  {'input': {'mnemonic': mn, 'params': list(prm),
                             'deck': detail.get('deck')},
                   'expected': 'cell 1 = region of negative sense, cell 2 = '
                               'positive sense (mcnpref.surface_value)',
                   'observed': {k: v for k, v in detail.items()
                                if k != 'deck'}},
                  cls=cls, found_input=True)


def run(res, tier, seed, proofs_ok):
    '''Ties and sweep under a line-coverage tracer restricted to the anchored
    functions: every line reachable by a card without TR must be executed.'''
    import c02_cov
    global COV
    cov = None
    try:
        cov = COV = c02_cov.LineCov(c02_cov.anchored_functions())
    except Exception:                   # pylint: disable=broad-except
        COV = None                      # coverage is information only
    try:
        _run(res, tier, seed, proofs_ok)
    finally:
        COV = None
    try:
        if cov is None:
            raise RuntimeError('tracer unavailable')
        total, missing = cov.missing(c02_cov.UNREACHABLE)
        detail = f'never executed: {missing[:6]}'
        if c02_cov.MISSING:
            detail += f'; skipped: helpers not present {c02_cov.MISSING}'
        res.obligation(f'coverage: the generated cards execute every '
                       f'reachable line of the anchored functions ({total} '
                       f'lines of {len(cov.codes)} code objects)',
                       not missing, detail)
        res.extra['anchored_lines'] = total
        res.extra['coverage_missing_helpers'] = list(c02_cov.MISSING)
    except Exception as exc:            # pylint: disable=broad-except
        res.extra['coverage_error'] = f'{type(exc).__name__}: {exc}'


def _run(res, tier, seed, proofs_ok):
    rng = random.Random(seed)
    quick = tier == 'quick'
    per_tag = 44 if quick else 450
    n_bad = 420 if quick else 3500
    res.rule = ('one surface card per case: every mnemonic of the mcnp2cad '
                'table in every form (4- and 9-entry P, K with/without sheet '
                'selector, 5/6-entry tori, 2/4-entry X/Y/Z incl. plane, '
                'cylinder, cone and apex-coincident points, SQ with G<0, G=0, '
                'G>0, GQ, the non-MCNP names C, K) with dyadic parameters of '
                '<= 12 bits and branch triggers (axis-aligned and '
                'anti-aligned normals, zero components, D=0 / D=C=0 / D=C=B=0 '
                'three-point planes), plus a malformed stream (wrong counts, '
                'zero normal, collinear and nearly collinear points, '
                'quantities inside the 1e-14 band, negative t^2, names absent '
                'from the table, odd sheet selectors); non-trivial = a card '
                'with >= 2 parameters or an error; distinct by (mnemonic, '
                'parameters)')

    # ---- 1. known-finding witnesses ----
    for cls, mn, prm in WITNESSES:
        status, detail = sweep_card(random.Random(seed + 1), mn, prm, 60, 10)
        res.seen(('witness', mn, prm))
        if status in ('rejected', 'wrong'):
            report_sweep_failure(res, mn, prm, status, detail,
                                 f'witness of {cls}')
    # ---- 2. cards: ties card / mcnp, and the sweep ----
    cards = [(mn, list(prm), 'corpus', None) for mn, prm in CORPUS]
    for tag in ALL_TAGS:
        for _ in range(per_tag):
            mn, prm = gen_card(rng, tag)
            cards.append((mn, prm, tag, None))
    for _ in range(n_bad):
        mn, prm, fault = gen_malformed(rng)
        cards.append((mn, prm, 'malformed', fault))

    card_cases, mcnp_cases, meta = [], [], []
    n_skipped = 0
    for mn, prm, tag, fault in cards:
        mcnp_out, coll_out = impl_card(mn, prm)
        res.seen((mn, prm), nontrivial=len(prm) >= 2 or coll_out[0] == 'err')
        res.count('tag:' + tag)
        if fault:
            res.count('fault:' + fault)
        if coll_out[0] == 'err':
            res.count('impl:' + coll_out[1])
        else:
            res.count('impl:' + '+'.join(ty for ty, _, _ in coll_out[1]))
        if (mcnp_out[0] == 'err' and mcnp_out[1].startswith('OTHER')) or \
                (coll_out[0] == 'err' and coll_out[1].startswith('OTHER')):
            res.violation('correspondence',
                          f'card {mn} {prm}: exception class outside the '
                          f'model: {mcnp_out} {coll_out}',
                          {'input': {'mnemonic': mn, 'params': prm},
                           'observed': str(coll_out),
                           'theorem_or_correspondence': 'tie:card'},
                          found_input=False)
            continue
        mcnp_cases.append(cpair(MNEM[mn], coq_floats(prm),
                                coq_mcnp_out(mcnp_out)))
        if model_skips(mn, prm, coll_out):
            n_skipped += 1
            card_cases.append(None)
        else:
            card_cases.append(cpair(MNEM[mn], coq_floats(prm),
                                    coq_coll_out(coll_out)))
        meta.append((mn, prm, tag, fault, mcnp_out, coll_out))
    res.sample({'card': [meta[0][0], meta[0][1]], 'impl': meta[0][5]})
    for probe in ('p3', 'kx1', 'x', 'sq', 'malformed'):
        for m in meta:
            if m[2] == probe:
                res.sample({'card': [m[0], m[1]], 'fault': m[3],
                            'impl': m[5]})
                break

    def failing_near(mn, prm):
        '''Search for a property failure of the implementation on a card on
        which model and implementation disagree.'''
        if not admissible(mn, prm):
            return None
        status, detail = sweep_card(random.Random(seed + 2), mn, prm, 200, 30)
        if status in ('rejected', 'wrong') and \
                finding_class(mn, prm, status, detail) is None:
            return status, detail
        return None

    bad, errs = common.run_case_files('c02_mcnp', HEADER, 'mcnp_case',
                                      'check_mcnp', mcnp_cases)
    res.obligation(f'tie:mcnp ({len(mcnp_cases)} cards: model '
                   'to_surface_mcnp [normalize_surface, mcnp2cad, cone '
                   'padding] = implementation)', not bad and not errs,
                   f'{len(bad)} disagreements {errs[:1]}')
    reported = set()
    for idx in bad[:12]:
        mn, prm, tag, fault, mcnp_out, coll_out = meta[idx]
        reported.add(idx)
        hit = failing_near(mn, prm)
        if hit:
            report_sweep_failure(res, mn, prm, hit[0], hit[1],
                                 'near a tie:mcnp disagreement')
            continue
        model, _ = common.coq_eval(EVAL_HEADER, f'to_surface_mcnp FS {MNEM[mn]} '
                                   + coq_floats(prm))
        res.violation('correspondence',
                      f'model and implementation disagree on the SurfaceMCNP '
                      f'of card {mn} {prm}: impl={mcnp_out} model={model}',
                      {'input': {'mnemonic': mn, 'params': prm},
                       'observed': str(mcnp_out), 'model': model,
                       'theorem_or_correspondence': 'tie:mcnp'},
                      found_input=False)

    live = [(i, c) for i, c in enumerate(card_cases) if c is not None]
    bad, errs = common.run_case_files('c02_card', HEADER, 'card_case',
                                      'check_card', [c for _, c in live])
    bad = [live[k][0] for k in bad]
    res.obligation(f'tie:card ({len(live)} cards, {n_skipped} outside the '
                   'model: convert_card = to_surface_mcnp + '
                   'convert_mcnp_surface)', not bad and not errs,
                   f'{len(bad)} disagreements {errs[:1]}')
    for idx in [i for i in bad if i not in reported][:12]:
        mn, prm, tag, fault, mcnp_out, coll_out = meta[idx]
        hit = failing_near(mn, prm)
        if hit:
            report_sweep_failure(res, mn, prm, hit[0], hit[1],
                                 'near a tie:card disagreement')
            continue
        model, _ = common.coq_eval(EVAL_HEADER, f'convert_card FS {MNEM[mn]} '
                                   + coq_floats(prm))
        res.violation('correspondence',
                      f'model and implementation disagree on card {mn} {prm}: '
                      f'impl={coll_out} model={model}',
                      {'input': {'mnemonic': mn, 'params': prm},
                       'observed': str(coll_out), 'model': model,
                       'theorem_or_correspondence': 'tie:card'},
                      found_input=False)

    # ---- 3. planeParamsFromPoints directly ----
    from t4_geom_convert.Kernel.VectUtils import planeParamsFromPoints
    p3_cases, p3_meta = [], []
    n_p3 = 300 if quick else 3000
    for k in range(n_p3):
        if k % 4 == 3:
            mn, prm, fault = gen_malformed(rng)
            while mn != 'p' or len(prm) != 9:
                mn, prm, fault = gen_malformed(rng)
        else:
            prm = gen_three_points(rng)
        try:
            with traced():
                out = ('ok', [float(v) for v in planeParamsFromPoints(
                    prm[0:3], prm[3:6], prm[6:9])])
        except ValueError:
            out = ('err', 'EValue')
        res.seen(('p3', prm))
        res.count('p3:' + ('err' if out[0] == 'err' else 'ok'))
        p3_cases.append(cpair(coq_floats(prm), '(Err EValue)' if out[0] == 'err'
                              else f'(Ok {coq_floats(out[1])})'))
        p3_meta.append((prm, out))
    bad, errs = common.run_case_files('c02_p3', HEADER, 'p3_case', 'check_p3',
                                      p3_cases)
    res.obligation(f'tie:p3 ({len(p3_cases)} point triples: model '
                   'plane_params_from_points = planeParamsFromPoints, same '
                   'orientation branch)', not bad and not errs,
                   f'{len(bad)} disagreements {errs[:1]}')
    for idx in bad[:10]:
        prm, out = p3_meta[idx]
        hit = failing_near('p', prm)
        if hit:
            report_sweep_failure(res, 'p', prm, hit[0], hit[1],
                                 'near a tie:p3 disagreement')
            continue
        res.violation('correspondence',
                      f'planeParamsFromPoints{prm} = {out} differs from the '
                      'model', {'input': {'mnemonic': 'p', 'params': prm},
                                'observed': str(out),
                                'theorem_or_correspondence': 'tie:p3'},
                      found_input=False)

    # ---- 4. number_items and join ----
    num_cases, num_meta = [], []
    for _ in range(150 if quick else 1500):
        dic = gen_dict(rng)
        out = impl_number(dic)
        res.seen(('number', dic), nontrivial=any(len(v) > 1 for _, v in dic))
        coq_dic = clist(cpair(cz(k), clist(cpair(cn(lb), cz(sd))
                                           for lb, sd in v)) for k, v in dic)
        if out[0] == 'err':
            coq_out = f'(Err {out[1]})'
        else:
            coq_out = '(Ok ' + cpair(
                clist(cpair(cz(k), cn(lb)) for k, lb in out[1]),
                clist(cpair(cz(k), clist(cz(i) for i in ids))
                      for k, ids in out[2])) + ')'
        num_cases.append(cpair(coq_dic, coq_out))
        num_meta.append((dic, out))
        # the property of the numbering itself, on the implementation:
        # matching ids designate the collection's surfaces with their sides
        if out[0] == 'ok':
            numbering, matching = dict(out[1]), dict(out[2])
            for key, value in dic:
                got = [(numbering.get(abs(i)), 1 if i > 0 else -1)
                       for i in matching.get(key, [])]
                if got != list(value) or len(numbering) != sum(
                        len(v) for _, v in dic):
                    res.violation('impl-violation',
                                  f'number_items: ids {matching.get(key)} of '
                                  f'surface {key} do not designate {value}',
                                  {'input': {'dict': dic},
                                   'observed': str(out)}, found_input=True)
                    break
    num_cases.append(cpair('[]', '(Err EValue)'))
    try:
        from t4_geom_convert.Kernel.Surface.CollectionDict import \
            CollectionDict
        CollectionDict().number_items()
        empty_ok = False
    except ValueError:
        empty_ok = True
    bad, errs = common.run_case_files('c02_num', HEADER, 'num_case',
                                      'check_number', num_cases)
    res.obligation(f'tie:number ({len(num_cases)} dictionaries: model '
                   'number_items = CollectionDict.number_items)',
                   not bad and not errs and empty_ok,
                   f'{len(bad)} disagreements {errs[:1]}')
    for idx in bad[:5]:
        dic, out = num_meta[idx] if idx < len(num_meta) else ([], 'empty')
        res.violation('correspondence',
                      f'number_items({dic}) = {out} differs from the model',
                      {'input': {'dict': dic}, 'observed': str(out),
                       'theorem_or_correspondence': 'tie:number'},
                      found_input=False)
    join_cases, join_meta = [], []
    for _ in range(120 if quick else 1000):
        colls = []
        for _ in range(rng.choice([0, 1, 1, 1, 2, 3])):
            coll = [(rng.randint(1, 40), rng.choice([1, -1]))
                    for _ in range(rng.choice([0, 1, 1, 2, 3]))]
            colls.append((coll, rng.choice([1, 1, -1])))
        out = impl_join(colls)
        res.seen(('join', colls), nontrivial=len(colls) > 1)
        coq_in = clist(cpair(clist(cpair(cn(lb), cz(sd)) for lb, sd in c),
                             cz(side)) for c, side in colls)
        coq_out = '(Err EConv)' if out[0] == 'err' else \
            '(Ok ' + clist(cpair(cn(lb), cz(sd)) for lb, sd in out[1]) + ')'
        join_cases.append(cpair(coq_in, coq_out))
        join_meta.append((colls, out))
    bad, errs = common.run_case_files('c02_join', HEADER, 'join_case',
                                      'check_join', join_cases)
    res.obligation(f'tie:join ({len(join_cases)} lists: model join = '
                   'SurfaceCollection.join)', not bad and not errs,
                   f'{len(bad)} disagreements {errs[:1]}')
    for idx in bad[:5]:
        colls, out = join_meta[idx]
        res.violation('correspondence',
                      f'SurfaceCollection.join({colls}) = {out} differs from '
                      'the model', {'input': {'colls': colls},
                                    'observed': str(out),
                                    'theorem_or_correspondence': 'tie:join'},
                      found_input=False)

    # ---- 4b. eval_quadric directly (a module-level helper without a caller
    # since the repair of sq_to_gq: tolerant lookup, no public entry point
    # exercises it any more) ----
    import importlib
    eval_quadric = getattr(importlib.import_module(
        't4_geom_convert.Kernel.Surface.ConversionSurfaceMCNPToT4'),
        'eval_quadric', None)
    if eval_quadric is None:
        res.extra['skipped'] = res.extra.get('skipped', []) + [
            'helper eval_quadric not present']
    else:
        _tie_eval_quadric(res, rng, quick, eval_quadric)

    # ---- 4c. the text-to-card path ----
    import c02_text
    c02_text.run_ties(res, rng, quick)
    c02_text.run_link_tie(res, rng, quick)
    c02_text.run_body_tie(res, rng, quick)
    c02_text.run_body_tr_tie(res, rng, quick)

    # ---- 5. the Spec against the Python references ----
    spec_ties(res, rng, meta, quick)

    # ---- 6. sweep: the property on the implementation's written output ----
    n_sweep = 0
    swept = {}
    stride = 1
    for mn, prm, tag, fault, mcnp_out, coll_out in meta:
        if mn in ('c', 'k', 't') or not admissible(mn, prm):
            continue
        key = (mn, tuple(prm))
        if key in swept:
            continue
        n_sweep += 1
        if mn == 'p' and len(prm) == 9 and in_p3_band(prm):
            res.count('sweep:p3-inside-the-band')
        status, detail = sweep_card(rng, mn, prm,
                                    24 if quick else 120, 5 if quick else 25)
        swept[key] = status
        res.count('sweep:' + status)
        res.count('sweep-tag:' + tag)
        if status in ('rejected', 'wrong'):
            report_sweep_failure(res, mn, prm, status, detail, 'sweep')
        elif status == 'oracle-error':
            res.violation('harness-error',
                          f'oracle failed on {mn} {prm}: {detail}',
                          {'input': {'mnemonic': mn, 'params': prm}},
                          found_input=False)
    import c02_multi
    c02_multi.run_multi(res, rng, quick)
    res.obligation(f'sweep ran ({n_sweep} probe decks, membership of the two '
                   'probe volumes vs the sign of f_M)', n_sweep > 0, '')
    res.extra['sweep_cards'] = n_sweep


def _tie_eval_quadric(res, rng, quick, eval_quadric):
    eq_cases, eq_meta = [], []
    for _ in range(60 if quick else 600):
        quad = [dy(rng, -3, 3) for _ in range(10)]
        pt = [dy(rng, -4, 4) for _ in range(3)]
        with traced():
            val = float(eval_quadric(quad, tuple(pt)))
        res.seen(('evalq', quad, pt))
        eq_cases.append(cpair(coq_floats(quad), coq_floats(pt), cfloat(val)))
        eq_meta.append((quad, pt, val))
    bad, errs = common.run_case_files('c02_evalq', HEADER, 'evalq_case',
                                      'check_evalq', eq_cases)
    res.obligation(f'tie:evalq ({len(eq_cases)} quadrics x points: model '
                   'eval_quadric = eval_quadric)', not bad and not errs,
                   f'{len(bad)} disagreements {errs[:1]}')
    for idx in bad[:5]:
        res.violation('correspondence',
                      f'eval_quadric{eq_meta[idx]} differs from the model',
                      {'input': {'quadric': eq_meta[idx][0],
                                 'point': eq_meta[idx][1]},
                       'observed': eq_meta[idx][2],
                       'theorem_or_correspondence': 'tie:evalq'},
                      found_input=False)



def spec_ties(res, rng, meta, quick):
    '''Coq Spec (f_M with sheets, f_T4) vs mcnpref / t4eval at points.'''
    fm_cases, ft_cases = [], []
    fm_meta, ft_meta = [], []
    seen_types = {}
    budget = 12 if quick else 60
    per = {}
    for mn, prm, tag, fault, mcnp_out, coll_out in meta:
        if per.get(tag, 0) >= budget:
            continue
        if mn in ('c', 'k', 't') or not admissible(mn, prm):
            continue
        if mn in ('tx', 'ty', 'tz') and len(prm) == 5:
            continue
        per[tag] = per.get(tag, 0) + 1
        if mn == 'p' and len(prm) == 9 and in_p3_band(prm):
            continue      # the Coq Spec is exact; tiny quantities round at FS
        pts = geomcheck.sample_points(rng, 12, half=6.0)
        one_sheet = (mn in ('x', 'y', 'z') and len(prm) == 4
                     and prm[0] != prm[2] and prm[1] != prm[3]) or \
            (mn.startswith('k') and len(prm) in (3, 5) and prm[-1] != 0)
        exact = not one_sheet and not (mn == 'p' and len(prm) == 9)
        rows = []
        for q in pts:
            v = mcnpref.surface_value(*ref_params(mn, prm, 0.0), q)
            rows.append(cpair(coq_floats(q), cfloat(v), cbool(exact)))
        fm_cases.append(cpair(MNEM[mn], coq_floats(prm), clist(rows)))
        fm_meta.append((mn, prm))
        if coll_out[0] == 'ok':
            for ty, tprm, _side in coll_out[1]:
                if seen_types.get(ty, 0) >= budget:
                    continue
                seen_types[ty] = seen_types.get(ty, 0) + 1
                t4 = impl.T4File('')
                t4.surfaces[1] = (ty, list(tprm), None)
                rows = []
                for q in pts:
                    v = t4eval.surf_value(t4, 1, q)
                    rows.append(cpair(coq_floats(q), cfloat(v), cbool(True)))
                ft_cases.append(cpair(ty, coq_floats(tprm), clist(rows)))
                ft_meta.append((ty, tprm))
    # general CYL / CONE (scaled by |u|^2 in the Spec: signs only)
    for _ in range(budget):
        for ty in ('CYL', 'CONE'):
            u = gen_unit_axis(rng)
            tprm = [dy(rng, -3, 3) for _ in range(3)] + \
                [dpos(rng, 3) if ty == 'CYL' else rng.choice([20.0, 30.0, 45.0, 60.0, 12.5])] + u
            t4 = impl.T4File('')
            t4.surfaces[1] = (ty, list(tprm), None)
            rows = []
            for q in geomcheck.sample_points(rng, 12, half=6.0):
                v = t4eval.surf_value(t4, 1, q)
                rows.append(cpair(coq_floats(q), cfloat(v), cbool(False)))
            ft_cases.append(cpair(ty, coq_floats(tprm), clist(rows)))
            ft_meta.append((ty, tprm))
    bad, errs = common.run_case_files('c02_fm', HEADER, 'fM_case', 'check_fM',
                                      fm_cases)
    res.obligation(f'tie:spec-fM ({len(fm_cases)} cards x 12 points: Coq '
                   'mcnp_surface/sense_value = mcnpref.surface_value)',
                   not bad and not errs,
                   f'bad={[fm_meta[i] for i in bad[:3]]} {errs[:1]}')
    if bad or errs:
        res.violation('correspondence',
                      'the Coq Spec of MCNP surfaces and the Python reference '
                      f'disagree on {[fm_meta[i] for i in bad[:3]]} {errs[:1]}',
                      {'theorem_or_correspondence': 'tie:spec-fM',
                       'input': {'cards': [fm_meta[i] for i in bad[:5]]}},
                      found_input=False)
    bad, errs = common.run_case_files('c02_ft', HEADER, 'fT4_case',
                                      'check_fT4', ft_cases)
    res.obligation(f'tie:spec-fT4 ({len(ft_cases)} surfaces x 12 points: Coq '
                   'f_T4 = t4eval.surf_value)', not bad and not errs,
                   f'bad={[ft_meta[i] for i in bad[:3]]} {errs[:1]}')
    if bad or errs:
        res.violation('correspondence',
                      'the Coq Spec of TRIPOLI-4 surfaces and the Python '
                      f'reader disagree on {[ft_meta[i] for i in bad[:3]]} '
                      f'{errs[:1]}',
                      {'theorem_or_correspondence': 'tie:spec-fT4',
                       'input': {'surfaces': [ft_meta[i] for i in bad[:5]]}},
                      found_input=False)


def replay(path):
    '''Re-run the recorded input through the implementation, the model and
    the oracle.'''
    data = json.load(open(path))
    inp = data.get('input', {})
    if 'mnemonic' in inp:
        mn, prm = inp['mnemonic'], inp['params']
        mcnp_out, coll_out = impl_card(mn, prm)
        print('implementation: SurfaceMCNP =', mcnp_out)
        print('implementation: collection  =', coll_out)
        model, _ = common.coq_eval(EVAL_HEADER, f'convert_card FS {MNEM[mn]} '
                                   + coq_floats(prm))
        print('model convert_card:', model)
        status, detail = sweep_card(random.Random(0), mn, prm, 200, 30)
        detail.pop('deck', None)
        print('oracle (probe deck):', status, detail)
        print('finding class:', finding_class(mn, prm, status, detail))
    elif 'deck' in inp:
        conv = impl.convert(inp['deck'])
        print('conversion:', conv.ok, conv.exc, (conv.msg or '')[:200])
        if conv.text:
            print('\n'.join(l for l in conv.text.splitlines()
                            if l.strip().startswith(('SURF', 'TRANSFORM'))))
    elif 'dict' in inp:
        dic = [(k, [tuple(x) for x in v]) for k, v in inp['dict']]
        print('implementation:', impl_number(dic))
    elif 'colls' in inp:
        print('implementation:',
              impl_join([([tuple(x) for x in c], s) for c, s in inp['colls']]))
    print('recorded:', data.get('what'))
    return 0
