'''C05 — universes and FILL: points are located through the hierarchy.

Theorems: coq/Properties/C05.v.  Tie (correspondence by execution):
  fill : universe trees built as CellMCNP objects over observable planes, run
         through the repository's apply_trcl / by_universe / pot_fill (the two
         loops of construct_volume_t4)  vs  Model.trcl_phase + Model.fill_phase:
         dic_cell_mcnp (order, geometry trees, idorigin, material, density,
         fill fields), generated surfaces, both caches, both counters, the
         lists returned by pot_fill, or the exception class.
Independent oracle (sweep): whole conversions of generated nested-universe
decks; membership and the complete (filler, container) provenance of the
written volumes vs mcnpref.Reference.locate, under the four combinations of
--always-inline-filling / --always-inline-filled.'''
import json
import random

import common
import deck as deckmod
import c05_tie
import c05_kw
import c05_sweep

THEOREMS = []     # filled below, after the definitions (kept in one place)
TRUSTED = [
    'hand-written model coq/C05/Model.v: tied by execution to the code '
    '(tie:fill, tie:fill_kw, tie:cell_kw), not derived from it',
    'the generic theorems keep the interface law sense (tr_surf t s) p = '
    'sense s (inv t p) and the cache-key law as hypotheses; the *_linked '
    'theorems discharge both with C04 (LinkC04.v: motions with exactly '
    'orthonormal rows, dictionary entries of the kinds C04 covers; '
    'LinkC04C06.v: the same for the lattice chain), so what is trusted '
    'there is C04\'s model of transformation() and its own ties; the tie '
    'of C05 observes which transformation reached which surface on planes '
    '(1e-9)',
    'develop_lattice: C06\'s model and ties (elements), composed here '
    'through C06.LinkC05.develop_state; hexagonal base vectors: C07',
    'C05_precedence_located_linked: norm = token image of C04\'s '
    'parse_fill_tr and never empty (hypotheses of that theorem)',
    'dic_surf_t4 entries of generated surfaces, Progress output, '
    'pot_complement / pot_convert (conversion of the generated cells): '
    'not modelled here (sweep only; C11, C01, C13)',
    'harness: generators, mcnpref / t4eval oracles, impl.T4File reader, '
    'PEG shim replacing TatSu',
]
ASSUMPTIONS = [
    'theorem hypotheses on the parsed table: counters above every key, '
    'empty caches, no duplicate key, no CellRef and no provenance yet '
    '(what ParseMCNPCell / construct_volume_t4 produce); results are '
    'about calls that return Ok (a cyclic reference or self-filling '
    'universe is RecursionError = the model\'s EFuel)',
    '"the cells of the other descents are false" needs every universe to '
    'be a partition (universe_partition / universe_partitionW); no '
    'totality or acyclicity hypothesis is used',
    'a negative literal is "not positive": differs from C04\'s strict '
    'negative side only at points lying on a surface part',
    'linked statements say something about the converter only for '
    'transformations with exactly orthonormal rows (C04\'s law); '
    'near-orthonormal input normalised by adjust_matrix is outside',
    'LAT: one or several lattice cells developed before the FILL loop '
    '(distinct, present, elements with non-empty transformations)',
]
HEADER = ('From Coq Require Import List ZArith Bool.\n'
          'From T4V Require Import C05.Model C05.Exec.\n'
          'Import ListNotations.\n'
          'Open Scope Z_scope.\n')

THEOREMS = ['C05_pot_transform_compl_untouched', 'C05_pot_transform_den',
            'C05_apply_trcl_den', 'C05_cell_transform_den',
            'C05_cache_coherent', 'C05_pot_fill_located',
            'C05_fill_phase_located', 'C05_outside_container_nothing',
            'C05_located_enumerated', 'C05_located_unique',
            'C05_descents_distinct', 'C05_by_universe_lists',
            'C05_inline_cells_den', 'C05_trcl_phase_den',
            'C05_explicit_transformation_not_empty',
            'C05_inline_cells_den_conv', 'C05_pipeline_located',
            'C05_precedence_from_tokens', 'C05_precedence_located',
            'C05_trcl_phase_with_cellrefs_refuted',
            'C05_interface_laws_linked', 'C05_pipeline_located_linked',
            'C05_fill_phase_located_linked', 'C05_pot_transform_den_linked',
            'C05_leaf_region_linked', 'C05_returned_cells_distinct',
            'C05_trcl_phase_den_linked', 'C05_cell_transform_den_linked',
            'C05_fill_inline_located', 'C05_pipeline_with_lattice_linked',
            'C05_located_through_lattice_linked',
            'C05_precedence_located_linked',
            'C05_pipeline_with_lattices_linked',
            'C05_generated_keeps_importance', 'C05_lattice_laws_linked',
            'C05_pipeline_with_lattices_linked2',
            'C05_pipeline_with_lattice_linked2',
            'C05_lattice_elements_accepted_linked',
            'C05_located_through_lattice_linked2',
            'C05_precedence_located_linked_spellings',
            'C05_lat_phase_elems_linked']


def tie_case_summary(case):
    return {'cells': {k: {kk: vv for kk, vv in c.items()}
                      for k, c in case['cells'].items()},
            'pool': [list(t) for t in case['pool']],
            'surf_ids': case['surf_ids'], 'nck': case['nck'],
            'nsk': case['nsk'], 'do_trcl': case['do_trcl'],
            'ifd': case['ifd'], 'ifg': case['ifg'],
            'inl': case.get('inl'), 'fault': case['fault']}


def case_from_summary(data):
    from collections import OrderedDict

    def tup(x):
        return tuple(tup(y) for y in x) if isinstance(x, list) else x
    cells = OrderedDict()
    for k, c in data['cells'].items():
        c = dict(c)
        c['geom'] = tup(c['geom'])
        c['filltr'] = None if c['filltr'] is None else tuple(c['filltr'])
        c['trcl'] = [tuple(t) for t in c['trcl']]
        c['orig'] = [tuple(p) for p in c['orig']]
        cells[int(k)] = c
    out = dict(data)
    out['cells'] = cells
    out['pool'] = [tuple(t) for t in data['pool']]
    out['inl'] = tuple(data['inl']) if data.get('inl') else None
    return out


def negative_universe_witnesses():
    '''Decks where a bounded filler cell, entirely inside every container that
    receives it, carries a negative universe number (MCNP: same universe,
    "do not truncate by the container" hint).'''
    def cell(cid, mat, expr, u=0, fill=None, imp=1, trcl=None):
        return {'id': cid, 'mat': mat, 'rho': '-1.0' if mat else None,
                'expr': expr, 'imp': {'n': imp}, 'u': u, 'lat': None,
                'fill': fill, 'trcl': trcl, 'like': None}

    def surf(sid, mn, *params):
        return {'id': sid, 'mn': mn, 'params': [float(v) for v in params],
                'tr': None, 'bc': ''}
    one = {'title': 'c05 negative universe number', 'data': [],
           'transforms': {}, 'materials': {m: ['1001', '1.0'] for m in (1, 2, 3)},
           'surfaces': [surf(1, 'so', 5), surf(2, 'so', 1), surf(3, 'so', 8)],
           'cells': [cell(1, 0, ('s', -1), fill={'u': 1, 'tr': None}),
                     cell(2, 3, ('*', ('s', 1), ('s', -3))),
                     cell(3, 0, ('s', 3), imp=0),
                     cell(10, 1, ('s', -2), u=-1),
                     cell(11, 2, ('s', 2), u=1)]}
    two = {'title': 'c05 negative universe number, level 2', 'data': [],
           'transforms': {},
           'materials': {m: ['1001', '1.0'] for m in (1, 2, 3, 4)},
           'surfaces': [surf(1, 'so', 5), surf(2, 'so', 2), surf(3, 'so', 8),
                        surf(4, 's', 0.3, 0, 0, 0.5)],
           'cells': [cell(1, 0, ('s', -1), fill={'u': 1, 'tr': None}),
                     cell(2, 3, ('*', ('s', 1), ('s', -3))),
                     cell(3, 0, ('s', 3), imp=0),
                     cell(10, 0, ('s', -2), u=1, fill={'u': 2, 'tr': None}),
                     cell(11, 2, ('s', 2), u=1),
                     cell(20, 1, ('s', -4), u=-2),
                     cell(21, 4, ('s', 4), u=2)]}
    return [('negative universe at level 1', one, []),
            ('negative universe at level 2', two, []),
            ('negative universe at level 1, inlined', one,
             ['--always-inline-filling', '--always-inline-filled'])]


def starred_fill_witnesses():
    '''`*FILL=n` written without any transformation (the star is vacuous) in a
    container that has a TRCL: the filler must follow the TRCL exactly as
    with `FILL=n`.  Returns (name, abstract deck, text, options).'''
    out = []
    for name, base, opts in negative_universe_witnesses()[:2]:
        import copy
        deck = copy.deepcopy(base)
        deck['title'] = 'c05 starred fill without transformation'
        for c in deck['cells']:
            c['u'] = abs(c['u'])
        holder = [c for c in deck['cells'] if c['fill'] is not None][-1]
        holder['trcl'] = deckmod.make_tr([0.75, 0.0, 0.25])
        text = deckmod.render(deck)
        target = f' fill={holder["fill"]["u"]} '
        assert text.count(target) == 1, text
        text = text.replace(target, ' *' + target[1:])
        out.append((f'*fill without transformation + TRCL, {name[-7:]}',
                    deck, text, holder['id'], opts))
    return out


def null_fill_witnesses():
    '''Minimal decks of the seeded regression: a container with a TRCL and an
    explicit null fill transformation (plain and starred), level 1 and nested:
    the fill transformation places the universe, the TRCL does not.'''
    import copy
    out = []
    for name, base, opts in negative_universe_witnesses()[:2]:
        for star in (False, True):
            deck = copy.deepcopy(base)
            deck['title'] = 'c05 TRCL + null fill transformation'
            for c in deck['cells']:
                c['u'] = abs(c['u'])
            holder = [c for c in deck['cells'] if c['fill'] is not None][-1]
            holder['trcl'] = deckmod.make_tr([0.75, 0.0, 0.25])
            tr = deckmod.make_tr([0.0, 0.0, 0.0])
            tr['star'] = star
            holder['fill']['tr'] = tr
            out.append((f'TRCL + {"*" if star else ""}fill=n (0 0 0), '
                        f'{name[-7:]}', deck, deckmod.render(deck), opts))
    return out


def shared_surface_witnesses():
    '''Minimal decks of the second seeded regression: universe cells repeat,
    with the same sense, surfaces that bound the cell they fill; nothing is
    moved.  (a) a box of six planes filled with a universe whose cells reuse
    the planes; (b) a sphere filled with a universe whose cell is filled again,
    the inner cells repeating the sphere.'''
    def cell(cid, mat, expr, u=0, fill=None, imp=1):
        return {'id': cid, 'mat': mat, 'rho': '-1.0' if mat else None,
                'expr': expr, 'imp': {'n': imp}, 'u': u, 'lat': None,
                'fill': fill, 'trcl': None, 'like': None}

    def surf(sid, mn, *params):
        return {'id': sid, 'mn': mn, 'params': [float(v) for v in params],
                'tr': None, 'bc': ''}

    def lits(*ns):
        return deckmod.leaf_expr(list(ns))
    mats = {m: ['1001', '1.0'] for m in (1, 2, 3, 4)}
    box = {'title': 'c05 filler reuses the planes of its box', 'data': [],
           'transforms': {}, 'materials': mats,
           'surfaces': [surf(1, 'px', -2.1), surf(2, 'px', 2.4),
                        surf(3, 'py', -1.9), surf(4, 'py', 2.2),
                        surf(5, 'pz', -2.3), surf(6, 'pz', 1.8),
                        surf(7, 'px', 0.35), surf(9, 'so', 9)],
           'cells': [cell(1, 0, lits(1, -2, 3, -4, 5, -6), fill={'u': 1, 'tr': None}),
                     cell(2, 3, ('*', ('s', -9), (':', ('s', -1), ('s', 2), ('s', -3),
                                                  ('s', 4), ('s', -5), ('s', 6)))),
                     cell(3, 0, ('s', 9), imp=0),
                     cell(10, 1, lits(1, -7, 3, -4)),
                     cell(11, 2, lits(7, -2, -6, 5))]}
    box['cells'][3]['u'] = box['cells'][4]['u'] = 1
    nested = {'title': 'c05 inner filler repeats the outer sphere', 'data': [],
              'transforms': {}, 'materials': mats,
              'surfaces': [surf(1, 'so', 4), surf(2, 'py', 0.45),
                           surf(3, 'pz', -0.55), surf(9, 'so', 9)],
              'cells': [cell(1, 0, ('s', -1), fill={'u': 1, 'tr': None}),
                        cell(2, 3, lits(1, -9)),
                        cell(3, 0, ('s', 9), imp=0),
                        cell(10, 0, lits(-2, -1), u=1, fill={'u': 2, 'tr': None}),
                        cell(11, 2, lits(2), u=1),
                        cell(20, 1, lits(-3, -1), u=2),
                        cell(21, 4, lits(-1, 3), u=2)]}
    out = []
    for name, deck in (('box planes reused', box), ('outer sphere repeated', nested)):
        for options in c05_sweep.OPTION_SETS:
            out.append((name, deck, deckmod.render(deck), list(options)))
    return out


def text_failures(deck, text, options):
    import impl
    conv = impl.convert(text, list(options))
    if not conv.ok or conv.text is None:
        return [{'point': None, 'kind': 'rejected',
                 'why': f'rejected: {conv.exc}: {conv.msg[:120]}'}]
    t4 = impl.T4File(conv.text)
    pts = c05_sweep.sample_points(random.Random(6), 250)
    pts += [[0.2, 0.1, 0.1], [0.9, 0.1, 0.3], [1.1, 0.2, 0.4]]
    _, _, failures = c05_sweep.compare(deck, t4, pts)
    return failures


def negative_universe_failures(deck, options):
    '''Failures of the conversion of `deck` against the reference location on
    the same deck with |u| as universe numbers (mcnpref compares universe
    numbers literally).'''
    import impl
    conv = impl.convert(deckmod.render(deck), list(options))
    if not conv.ok or conv.text is None:
        return [{'point': None, 'why': f'rejected: {conv.exc}: {conv.msg[:120]}'}]
    t4 = impl.T4File(conv.text)
    pts = c05_sweep.sample_points(random.Random(5), 200)
    pts += [[0.5, 0.2, 0.1], [0.3, 0.1, 0.0], [-0.4, 0.3, 0.2]]
    _, _, failures = c05_sweep.compare(deck, t4, pts)
    return failures


# lines of the anchored functions that no tied call can reach (by source text)
TIE_UNREACHABLE = [
    # pot_transform: surfaces that convert to several T4 surfaces (macrobodies,
    # one-sheet cones): the tie uses planes; covered by the sweep / C03
    "surf.idorigin = tuple(list(surf.idorigin) + ['aux surf'])",
    # parse_fill_kw / to_fillid / parse_keywords: lattice arrays and LAT (C06),
    # LIKE n BUT keywords (C09 / C15)
    'str_bounds = [first_arg]', "while kw_list and ':' in kw_list[-1]:",
    'str_bounds.append(kw_list.pop())', 'bounds = parse_ranges(str_bounds)',
    'fillid_u, consumed = expand_data_card(list(reversed(kw_list)),',
    'expected=bounds.size(),', "dtype='int')", 'except ValueError:',
    "msg = (f'expected {bounds.size()} universe specifications '",
    "'after FILL keyword')", 'raise ParseMCNPCellError(msg) from None',
    'del kw_list[-consumed:]', 'fillid_bounds = bounds',
    "keywords['lattice'] = self.parse_lat_kw(kw_list)",
    "keywords['density'] = kw_list.pop()",
    "keywords['material'] = kw_list.pop()",
    'f_univs_arg = kws', 'if isinstance(f_univs_arg, int):',
    'if lat_opt is None:', "msg = 'no --lattice option provided'",
    'raise MissingLatticeOptError(msg) from None',
    "kws['f_bounds'] = lat_opt",
    "kws['f_univs'] = [f_univs_arg] * lat_opt.size()",
    "return LatticeSpec(kws['f_bounds'], kws['f_univs'])",
    # parse_one_cell_worker: importance cards, LIKE BUT material / density
    "kws['importance'] = self.importances[rank]", 'except IndexError:',
    "raise ParseMCNPCellError('Cannot find importance') from None",
    "material_id = kws['material']",
    "density = normalize_float(kws['density'])", 'density = None',
    "elif 'rho' in elt:", "elif 'mat' in elt:", 'try:',
    # CellMCNP.copy: geometries always have .copy here
    'geom_copy = self.geometry',
]


def start_coverage():
    '''Line coverage of the anchored functions during the ties (information
    only).  The functions are looked up by name and whatever a rewrite of /repo
    removed or renamed is skipped and listed; nothing here may raise.'''
    try:
        import importlib
        import c02_cov
        wanted = [
            ('t4_geom_convert.Kernel.Volume.CellConversion', 'CellConversion',
             ['pot_fill', 'pot_transform', 'cell_transform', 'apply_trcl']),
            ('t4_geom_convert.Kernel.Volume.ByUniverse', None, ['by_universe']),
            ('t4_geom_convert.Kernel.Volume.CellMCNP', 'CellMCNP', ['copy']),
            ('t4_geom_convert.Kernel.Volume.CellInlining', None,
             ['find_occurrences', 'extract_subcells', 'compute_inlining_scores',
              'geometry_size', 'inline_cells', 'inline_cells_worker']),
            ('t4_geom_convert.Kernel.FileHandlers.Parser.ParseMCNPCell',
             'ParseMCNPCell',
             ['parse_fill_kw', 'parse_trcl_kw', 'parse_keywords',
              'parse_one_cell_worker', 'to_fillid']),
        ]
        funcs, missing = [], []
        for modname, clsname, names in wanted:
            try:
                holder = importlib.import_module(modname)
                if clsname is not None:
                    holder = getattr(holder, clsname)
            except Exception as exc:          # pylint: disable=broad-except
                missing.append(f'{modname}: {exc}')
                continue
            for name in names:
                func = getattr(holder, name, None)
                if func is None or not hasattr(getattr(func, '__func__', func),
                                               '__code__'):
                    missing.append(f'{clsname or modname}.{name}')
                else:
                    funcs.append(func)
        cov = c02_cov.LineCov(funcs)
        cov.c05_missing = missing
        return cov
    except Exception:                          # pylint: disable=broad-except
        return None


class traced:
    '''Tracing only around the calls into the implementation.  (Python switches
    tracing off by itself when the trace function raises, which happens when a
    cyclic case runs into the recursion limit - hence set again every time.)'''

    def __init__(self, cov):
        self.cov = cov

    def __enter__(self):
        import sys
        if self.cov is not None:
            sys.settrace(self.cov._global)

    def __exit__(self, *exc):
        import sys
        sys.settrace(None)
        return False


def finish_coverage(res, cov):
    '''Information only: never a verdict, never an exception.'''
    try:
        if cov is None:
            res.extra['line_coverage'] = 'coverage tracer unavailable'
            return
        total, missing = cov.missing(TIE_UNREACHABLE)
        res.obligation('coverage: the tied calls execute every line of the '
                       f'anchored functions they can reach ({total} lines of '
                       f'{len(cov.codes)} code objects)', not missing,
                       f'never executed: {missing[:6]}')
        res.extra['anchored_lines'] = total
        if getattr(cov, 'c05_missing', None):
            res.extra['line_coverage_skipped'] = [
                f'skipped: helper {name} not present'
                for name in cov.c05_missing]
        if missing:
            res.violation('harness-error',
                          'the tie generators no longer reach these lines of '
                          f'the anchored code: {missing[:8]}',
                          {'theorem_or_correspondence': 'coverage',
                           'input': {'lines': [list(m) for m in missing[:20]]}},
                          found_input=False)
    except Exception as exc:                   # pylint: disable=broad-except
        res.extra['line_coverage'] = f'coverage pass failed: {exc}'


def empty_geometry_class(deck, conv):
    '''The one known way a valid deck of the sweep is rejected: the writer dies
    with max() of an empty table because EVERY generated volume is an empty
    region (open finding all_generated_volumes_empty, the C13 defect
    all_volumes_empty_after_dedup reached through FILL + inlining).  The class
    is given only when the exception is exactly that one AND the reference
    semantics say that no point can belong to any generated volume.'''
    if conv.exc != 'ValueError' or 'max() iterable argument is empty' not in (conv.msg or ''):
        return None
    try:
        if c05_sweep.all_generated_volumes_empty(deck):
            return 'all_generated_volumes_empty'
    except Exception:                          # pylint: disable=broad-except
        return None
    return None


def all_empty_witness():
    '''Container z > -0.6 (live) filled, without transformation, with a
    universe whose two cells both require z < -0.6; the other level-0 cell has
    importance 0.'''
    def cell(cid, mat, expr, u=0, fill=None, imp=1):
        return {'id': cid, 'mat': mat, 'rho': '-1.0' if mat else None,
                'expr': expr, 'imp': {'n': imp}, 'u': u, 'lat': None,
                'fill': fill, 'trcl': None, 'like': None}
    return {'title': 'c05 every generated volume is an empty region', 'data': [],
            'transforms': {}, 'materials': {m: ['1001', '1.0'] for m in (1, 2)},
            'surfaces': [{'id': 1, 'mn': 'pz', 'params': [-0.6], 'tr': None, 'bc': ''},
                         {'id': 2, 'mn': 'px', 'params': [0.3], 'tr': None, 'bc': ''}],
            'cells': [cell(1, 0, ('s', 1), fill={'u': 1, 'tr': None}),
                      cell(2, 0, ('s', -1), imp=0),
                      cell(10, 1, deckmod.leaf_expr([-1, -2]), u=1),
                      cell(11, 2, deckmod.leaf_expr([-1, 2]), u=1)]}


def sweep(res, rng, n_decks, n_points, tag):
    '''Whole conversions vs the reference location. Returns the number of
    failing decks.'''
    bad_decks = 0
    for i in range(n_decks):
        if i % 9 == 8:
            deck = c05_sweep.gen_like_but_fill(rng)
            res.count(f'{tag}:like-n-but-fill-m')
        elif i % 9 == 4:
            deck = c05_sweep.gen_twin_trcl_fill(rng)
            res.count(f'{tag}:one-universe-several-trcl-containers')
        else:
            deck = c05_sweep.gen_hierarchy(rng)
        # i % 9 and i % 4 are independent: every kind meets every option set
        options = c05_sweep.OPTION_SETS[i % len(c05_sweep.OPTION_SETS)]
        conv, checked, deep, failures = c05_sweep.run_deck(
            deck, rng, options, n_points)
        text = deckmod.render(deck)
        n_univ = len({abs(c['u']) for c in deck['cells']})
        if deck.get('c05_shared'):
            res.count(f'{tag}:decks-with-filler-repeating-container-surfaces')
            if any(d == 2 for _a, _b, d in deck['c05_shared']):
                res.count(f'{tag}:decks-with-inner-filler-repeating-outer-'
                          'container-surfaces')
        for _cid, lvl, kind in deck.get('c05_both', []):
            res.count(f'{tag}:trcl+fill-tr:{kind}:'
                      + ('level0' if lvl == 0 else 'nested'))
        res.count(f'{tag}:decks-with-negative-universe-number',
                  1 if any(c['u'] < 0 for c in deck['cells']) else 0)
        res.seen((text, tuple(options)), nontrivial=deep > 0)
        res.count(f'{tag}:universes:{min(n_univ, 6)}')
        n_empty = sum(1 for c in deck['cells'] if c['expr'][0] == '*'
                      and {-l[1] for l in c['expr'][1:] if l[0] == 's'}
                      & {l[1] for l in c['expr'][1:] if l[0] == 's'})
        res.count(f'{tag}:decks-with-empty-filler-cell', 1 if n_empty else 0)
        res.count(f'{tag}:options:{"+".join(o[16:] for o in options) or "default"}')
        res.count(f'{tag}:points-checked', checked)
        res.count(f'{tag}:points-in-filled-cells', deep)
        if not conv.ok:
            bad_decks += 1
            res.violation(
                'impl-violation',
                f'valid nested-universe deck rejected ({" ".join(options)}): '
                f'{conv.exc}: {conv.msg[:200]}',
                {'input': {'deck': text, 'options': options,
                           'abstract': deck}},
                cls=empty_geometry_class(deck, conv), found_input=True)
            continue
        if i < 2:
            res.sample({'deck': text, 'options': options,
                        'points_checked': checked})
        if failures:
            bad_decks += 1
            first = failures[0]
            res.violation(
                'impl-violation',
                f'{len(failures)} of {checked} points misplaced '
                f'({" ".join(options) or "default options"}): {first["why"]}',
                {'input': {'deck': text, 'options': options,
                           'abstract': deck, 'point': first['point']},
                 'expected': 'mcnpref.Reference.locate',
                 'observed': [f['why'] for f in failures[:5]]},
                found_input=True)
    return bad_decks


def run(res, tier, seed, proofs_ok):
    rng = random.Random(seed)
    n_tie = 600 if tier == 'quick' else 6000
    n_decks = 240 if tier == 'quick' else 3000
    n_points = 150 if tier == 'quick' else 300
    res.rule = (
        'tie: universe trees as CellMCNP objects (depth <= 3, 1-3 cells per '
        'universe, 1-2 universes per level, universe reuse, filltr None / () '
        '/ one of 1-4 distinct 12-tuples incl. an identity spelled out, TRCL '
        'lists of length 0-2, pre-existing CellRefs, complement nodes, '
        'non-empty idorigin, all four inline variants, TRCL loop on or off) '
        '+ 25 % malformed (missing surface / cell / universe, self-filling '
        'universe, cyclic reference, counter below existing keys); '
        'non-trivial = at least one FILL developed or an exception; '
        'kw tie: FILL / *FILL / TRCL / *TRCL argument lists (none, TR number '
        'present / missing / identity card / 13 entries, 3 numbers incl. all '
        'zero and -0, 12 cosines, 12 angles, identity) with assorted number '
        'spellings and following keywords; '
        'sweep: rendered decks with nested universes (partitions by BSP over '
        'planes, spheres and cylinders; FILL transformation by number / '
        'inline 3 / inline 12 / starred; TRCL-only; shared poses; a '
        'non-trivial TRCL together with an explicit fill transformation at '
        'level 0 and nested (identity spelled (0 0 0), starred (0 0 0), 12 '
        'entries, starred 12 entries, TR number of an identity card; or an '
        'ordinary one); '
        'universe cells that repeat, with the same sense, surfaces bounding '
        'the cell they fill (also through a second level), FILL and cells '
        'unmoved; LIKE n BUT FILL=m TRCL=... copies of a cell whose own FILL '
        'has a transformation (1 deck in 9); two or three containers filled '
        'with the same universe, each placed by its own TRCL (1 deck in 9); '
        'patently empty cells in filling universes; filler cells declared '
        'with U=-n; '
        'IMP=0 level-0 cells), 150+ points per deck; non-trivial = a point '
        'located below level 0')

    # 1. corpus: no open finding is left for C05 (the empty-filler defect of
    #    DESIGN 8 #7 is fixed in /repo 3f9f4fd, the negative universe number
    #    in 4e10911; the sweep generator produces both shapes).  The minimal
    #    decks of the second one stay as a regression corpus.
    for name, deck, options in negative_universe_witnesses():
        fails = negative_universe_failures(deck, options)
        res.count('corpus:negative_universe_number')
        res.seen((deckmod.render(deck), tuple(options)), nontrivial=True)
        if fails:
            res.violation(
                'impl-violation',
                f'{name}: {len(fails)} sample points misplaced: '
                f'{fails[0]["why"]}',
                {'input': {'deck': deckmod.render(deck), 'options': options,
                           'abstract': deck, 'point': fails[0]['point']},
                 'expected': 'mcnpref.Reference.locate on the deck with '
                             '|u| as universe numbers',
                 'observed': [f['why'] for f in fails[:5]]},
                found_input=True)

    # regression corpus: a vacuous star on FILL (fixed in /repo c2e06ed:
    # `*fill=n` without numbers yields (), the filler follows the TRCL)
    for name, deck, text, _holder, options in starred_fill_witnesses():
        fails = text_failures(deck, text, options)
        res.count('corpus:starred_fill_without_transformation')
        res.seen((text, tuple(options)), nontrivial=True)
        if fails:
            res.violation(
                'impl-violation',
                f'{name}: {len(fails)} sample points misplaced: '
                f'{fails[0]["why"]}',
                {'input': {'deck': text, 'options': options,
                           'abstract': deck, 'point': fails[0]['point']},
                 'expected': 'mcnpref.Reference.locate (a FILL without '
                             'transformation follows the TRCL)',
                 'observed': [f['why'] for f in fails[:5]]},
                found_input=True)

    # open finding: the writer crashes when every generated volume is empty
    import impl
    wdeck = all_empty_witness()
    wopts = ['--always-inline-filling', '--always-inline-filled']
    wconv = impl.convert(deckmod.render(wdeck), wopts)
    res.count('witness:all_generated_volumes_empty')
    res.seen((deckmod.render(wdeck), tuple(wopts)), nontrivial=True)
    if not wconv.ok:
        res.violation(
            'impl-violation',
            f'deck whose generated volumes are all empty regions rejected '
            f'({" ".join(wopts)}): {wconv.exc}: {wconv.msg[:200]}',
            {'input': {'deck': deckmod.render(wdeck), 'options': wopts,
                       'abstract': wdeck}},
            cls=empty_geometry_class(wdeck, wconv), found_input=True)

    for name, deck, text, options in shared_surface_witnesses():
        fails = text_failures(deck, text, options)
        res.count('corpus:filler-repeats-container-surfaces')
        res.seen((text, tuple(options)), nontrivial=True)
        if fails:
            res.violation(
                'impl-violation',
                f'{name} ({" ".join(options) or "default options"}): '
                f'{len(fails)} sample points misplaced: {fails[0]["why"]}',
                {'input': {'deck': text, 'options': options,
                           'abstract': deck, 'point': fails[0]['point']},
                 'expected': 'mcnpref.Reference.locate',
                 'observed': [f['why'] for f in fails[:5]]},
                found_input=True)

    for name, deck, text, options in null_fill_witnesses():
        fails = text_failures(deck, text, options)
        res.count('corpus:trcl+null_fill_transformation')
        res.seen((text, tuple(options)), nontrivial=True)
        if fails:
            res.violation(
                'impl-violation',
                f'{name}: {len(fails)} sample points misplaced: '
                f'{fails[0]["why"]}',
                {'input': {'deck': text, 'options': options,
                           'abstract': deck, 'point': fails[0]['point']},
                 'expected': 'mcnpref.Reference.locate (an explicit fill '
                             'transformation wins over the TRCL)',
                 'observed': [f['why'] for f in fails[:5]]},
                found_input=True)

    # 2. tie (under a line-coverage tracer restricted to the anchored functions
    #    that the ties call: every line of them that a tied call can reach
    #    must be executed)
    cov = start_coverage()
    skipped_fill = set()
    cases, meta = [], []
    corpus = c05_tie.corpus_cases()
    for i in range(-len(corpus), n_tie):
        if i < 0:
            case = corpus[i + len(corpus)]
            res.count('tie:corpus')
        else:
            case = c05_tie.gen_case(rng, malformed=(i % 4 == 3))
        runner = c05_tie.Runner(case)
        try:
            with traced(cov):
                outcome = runner.run()
        except Exception as exc:          # anything but KeyError/Recursion
            res.violation(
                'impl-violation' if case['fault'] is None else 'correspondence',
                f'pot_fill path raised {type(exc).__name__}: {exc}',
                {'input': {'tie_case': tie_case_summary(case)},
                 'theorem_or_correspondence': 'tie:fill'},
                found_input=case['fault'] is None)
            continue
        for note in runner.skipped:
            skipped_fill.add(note)
        cases.append(c05_tie.coq_case(case, runner, outcome))
        meta.append((case, outcome))
        developed = outcome[0] == 'ok' and any(outcome[1]['results'])
        res.seen(cases[-1], nontrivial=developed or outcome[0] == 'err')
        res.count('tie:fault:' + str(case['fault']))
        res.count('tie:outcome:' + (outcome[0] if outcome[0] == 'ok'
                                    else {1: 'KeyError',
                                          2: 'RecursionError',
                                          3: 'TypeError'}[outcome[1]]))
        res.count('tie:inline_cells:' + ('off' if case['inl'] is None else
                                         f'{case["inl"][0]}/{case["inl"][1]}'))
        res.count(f'tie:inline_filled={case["ifd"]},'
                  f'inline_filling={case["ifg"]}')
        if outcome[0] == 'ok':
            new = len(outcome[1]['cells']) - len(case['cells'])
            res.count('tie:new-cells:' + ('0' if new == 0 else '1-5' if new <= 5
                                          else '6-20' if new <= 20 else '21+'))
            res.count('tie:cache-entries', len(outcome[1]['cache']))
            res.count('tie:generated-surfaces', len(outcome[1]['surfs']))
    if meta:
        res.sample({'tie_case': tie_case_summary(meta[0][0]),
                    'impl': meta[0][1]})
    bad, errs = common.run_case_files('c05_tie', HEADER, 'tcase',
                                      'check_case', cases, chunk=150)
    res.obligation(f'tie:fill ({len(cases)} universe trees: model '
                   'trcl_phase + fill_phase = implementation)',
                   not bad and not errs, f'{len(bad)} disagreements {errs[:1]}')
    tie_broken = bool(bad or errs)
    diag_names = {'1': 'by_universe', '2': 'lists returned by pot_fill',
                  '3': 'dic_cell_mcnp', '4': 'generated surfaces',
                  '5': 'counters', '6': 'cell_transform_cache',
                  '7': 'cell_transform_rcache',
                  '8': 'model raises, implementation does not',
                  '9': 'implementation raises, model does not',
                  '10': 'different exception classes'}
    pending = []
    for idx in bad[:8]:
        case, outcome = meta[idx]
        diag, _ = common.coq_eval(HEADER, 'diagnose ' + cases[idx])
        what = diag_names.get((diag or '').strip(), str(diag))
        pending.append((case, outcome, what))
    for err in errs[:2]:
        res.violation('correspondence', 'generated case file failed: '
                      + err[:300], {'theorem_or_correspondence': 'tie:fill',
                                    'error': err}, found_input=False)

    # 2b. tie of parse_fill_kw / parse_trcl_kw (which tuple a keyword yields:
    #     the precedence rule of pot_fill hangs on () vs a 12-tuple)
    skipped_helpers = set()
    kw_cases, kw_meta = [], []
    for i in range(400 if tier == 'quick' else 4000):
        case = c05_kw.gen_case(rng)
        try:
            with traced(cov):
                outcome = c05_kw.run_impl(case)
        except c05_kw.HelperMissing as exc:
            skipped_helpers.add(str(exc))
            continue
        except Exception as exc:
            res.violation(
                'impl-violation',
                f'{"fill" if case["is_fill"] else "trcl"} keyword '
                f'{" ".join(case["tokens"])!r}: {type(exc).__name__}: {exc}',
                {'input': {'kw_case': case},
                 'theorem_or_correspondence': 'tie:fill_kw'},
                found_input=True)
            continue
        kw_cases.append(c05_kw.coq_case(case, outcome))
        kw_meta.append((case, outcome))
        res.seen(kw_cases[-1], nontrivial=case['kind'] != 'none')
        res.count(f'kw:{"fill" if case["is_fill"] else "trcl"}:{case["kind"]}'
                  + (':starred' if case['star'] else ''))
    kbad, kerrs = common.run_case_files('c05_kw', HEADER, 'kwcase', 'check_kw',
                                        kw_cases, chunk=200)
    res.obligation(f'tie:fill_kw ({len(kw_cases)} FILL / TRCL keyword '
                   'argument lists: model parse_tr_params = implementation)',
                   not kbad and not kerrs,
                   f'{len(kbad)} disagreements {kerrs[:1]}')
    for idx in kbad[:6]:
        case, outcome = kw_meta[idx]
        # independent reading of the keyword: what transformation was written
        want = None
        if case['kind'] in ('three', 'star3', 'null3', 'star_null3'):
            want = list(case['params']) + [1., 0., 0., 0., 1., 0., 0., 0., 1.]
        elif case['kind'] == 'num':
            want = case['table'][int(case['params'][0])][:12]
        elif case['truth'] is not None:
            want = case['truth']
        elif case['kind'] == 'none':
            want = []
        got = list(outcome[1]) if outcome[0] == 'ok' else None
        wrong = (want is not None
                 and (got is None or len(got) != len(want)
                      or any(abs(a - b) > 1e-9 for a, b in zip(got, want))))
        kw = ('*' if case['star'] else '') + ('fill' if case['is_fill']
                                              else 'trcl')
        res.violation(
            'impl-violation' if wrong else 'correspondence',
            f'{kw} keyword with arguments {" ".join(case["tokens"])!r} yields '
            f'{got!r}' + (f', the transformation written is {want!r}'
                          if wrong else ' (model differs)'),
            {'input': {'kw_case': case}, 'observed': outcome,
             'expected': want, 'theorem_or_correspondence': 'tie:fill_kw'},
            found_input=wrong)
    for err in kerrs[:2]:
        res.violation('correspondence', 'generated case file failed: '
                      + err[:300], {'theorem_or_correspondence': 'tie:fill_kw',
                                    'error': err}, found_input=False)
    tie_broken = tie_broken or bool(kbad or kerrs)

    # 2c. whole cell cards: parse_one_cell_worker -> universe, fillid, filltr,
    #     trcl of the CellMCNP (Model.cell_of_keywords)
    ck_cases, ck_meta = [], []
    n_public, public_bad = 0, []
    for i in range(300 if tier == 'quick' else 3000):
        case = c05_kw.gen_cell_case(rng)
        # every fifth card (all of them when the helper-level entry is gone)
        # also goes through the public route: deck text -> MIP parser ->
        # ParseMCNPCell(...).parse(), against an independent reading
        helper_gone = False
        outcome = None
        try:
            with traced(cov):
                outcome = c05_kw.run_cell_impl(case)
        except c05_kw.HelperMissing as exc:
            skipped_helpers.add(str(exc))
            helper_gone = True
        except Exception as exc:
            res.violation(
                'impl-violation',
                f'cell options {case["option"]!r}: {type(exc).__name__}: {exc}',
                {'input': {'cell_kw_case': case},
                 'theorem_or_correspondence': 'tie:cell_kw'},
                found_input=True)
            continue
        if helper_gone or i % 5 == 0:
            n_public += 1
            try:
                diff = c05_kw.public_cell_check(case)
            except Exception as exc:          # pylint: disable=broad-except
                diff = f'{type(exc).__name__}: {exc}'
            if diff is not None:
                public_bad.append((case, diff))
        if helper_gone:
            continue
        ck_cases.append(c05_kw.coq_cell_case(case, outcome))
        ck_meta.append((case, outcome))
        res.seen(ck_cases[-1], nontrivial=case['fill'] is not None
                 or case['trcl'] is not None)
        res.count('cellkw:fill=' + (case['fill']['kind'] if case['fill']
                                    else 'absent')
                  + ',trcl=' + ('present' if case['trcl'] else 'absent'))
    cbad, cerrs = common.run_case_files('c05_ck', HEADER, 'ckcase',
                                        'check_cell_kw', ck_cases, chunk=150)
    res.obligation(f'tie:cell_kw ({len(ck_cases)} cell option strings: model '
                   'cell_of_keywords = universe / fillid / filltr / trcl of '
                   'the CellMCNP)', not cbad and not cerrs,
                   f'{len(cbad)} disagreements {cerrs[:1]}')
    for idx in cbad[:6]:
        case, outcome = ck_meta[idx]
        res.violation(
            'correspondence',
            f'cell options {case["option"]!r} give {outcome!r}; the model '
            'differs (or a 12-entry transformation is not the written one)',
            {'input': {'cell_kw_case': case}, 'observed': outcome,
             'theorem_or_correspondence': 'tie:cell_kw'}, found_input=False)
    for err in cerrs[:2]:
        res.violation('correspondence', 'generated case file failed: '
                      + err[:300], {'theorem_or_correspondence': 'tie:cell_kw',
                                    'error': err}, found_input=False)
    tie_broken = tie_broken or bool(cbad or cerrs)
    res.obligation(f'tie:cell_kw_public ({n_public} cell cards through the '
                   'public route ParseMCNPCell(parser).parse(): universe, '
                   'fillid, fill transformation, TRCL = what is written)',
                   not public_bad, f'{len(public_bad)} differences')
    for case, diff in public_bad[:6]:
        res.violation(
            'impl-violation',
            f'cell card `1 1 -1.0 -1 {case["option"]}`: {diff}',
            {'input': {'cell_kw_case': case}, 'observed': diff,
             'theorem_or_correspondence': 'tie:cell_kw_public'},
            found_input=True)
    if skipped_helpers or skipped_fill:
        res.extra['skipped_helper_ties'] = [
            f'skipped: {h}' for h in sorted(skipped_helpers | skipped_fill)]

    finish_coverage(res, cov)

    # 3. sweep with the independent oracle (more of it when the tie broke)
    bad_decks = sweep(res, rng, n_decks, n_points, 'sweep')
    if tie_broken and bad_decks == 0:
        bad_decks = sweep(res, rng, 3 * n_decks, n_points, 'search')
    for case, outcome, what in pending:
        res.violation(
            'correspondence',
            f'model and implementation disagree on a universe tree ({what}); '
            + ('the sweep found misplaced points, see the other replays'
               if bad_decks else 'no misplaced point found by the sweep'),
            {'input': {'tie_case': tie_case_summary(case)},
             'observed': outcome, 'differs_in': what,
             'theorem_or_correspondence': 'tie:fill'},
            found_input=False)


def replay(path):
    data = json.load(open(path))
    inp = data.get('input', {})
    if 'deck' in inp:
        import impl
        import numpy as np
        import mcnpref
        conv = impl.convert(inp['deck'], inp.get('options', []))
        print('conversion:', conv)
        if not conv.ok and 'abstract' in inp:
            import copy
            deck0 = copy.deepcopy(inp['abstract'])
            deck0['transforms'] = {int(k): v for k, v in
                                   deck0.get('transforms', {}).items()}
            for cell in deck0['cells']:
                if 'expr' in cell:
                    cell['expr'] = _tup(cell['expr'])
                for holder in (cell, cell.get('fill') or {}):
                    key = 'trcl' if holder is cell else 'tr'
                    if isinstance(holder.get(key), list):
                        holder[key] = tuple(holder[key])
            print('reference: every generated volume is an empty region:',
                  c05_sweep.all_generated_volumes_empty(deck0))
            print('class:', empty_geometry_class(deck0, conv))
        if conv.text and 'abstract' in inp:
            deck = inp['abstract']
            deck['transforms'] = {int(k): v for k, v in
                                  deck.get('transforms', {}).items()}
            for cell in deck['cells']:
                cell['expr'] = _tup(cell['expr'])
                for holder in (cell, cell.get('fill') or {}):
                    key = 'trcl' if holder is cell else 'tr'
                    if isinstance(holder.get(key), list):
                        holder[key] = tuple(holder[key])
            t4 = impl.T4File(conv.text)
            if any(cell['u'] < 0 for cell in deck['cells']):
                print('negative universe numbers: the reference location '
                      'uses |u| (MCNP: same universe; c05_sweep.compare)')
            pts = [inp['point']] if inp.get('point') else []
            pts += c05_sweep.sample_points(random.Random(0), 300)
            checked, deep, failures = c05_sweep.compare(deck, t4, pts)
            print(f'{checked} points checked, {deep} below level 0, '
                  f'{len(failures)} failures')
            for fail in failures[:5]:
                print('  ', fail['point'], fail['why'])
            if inp.get('point'):
                ref = mcnpref.Reference(deck)
                print('reference chain at the recorded point:',
                      ref.locate(np.array(inp['point'], float)))
    elif 'cell_kw_case' in inp:
        case = inp['cell_kw_case']
        case['table'] = {int(k): v for k, v in case['table'].items()}
        for sub in (case['fill'], case['trcl']):
            if sub is not None:
                sub['table'] = case['table']
        outcome = c05_kw.run_cell_impl(case)
        print('cell options:', case['option'], '| TR cards', case['table'])
        print('implementation (universe, fillid, filltr, trcl):', outcome)
        ok, _ = common.coq_eval(HEADER, 'check_cell_kw '
                                + c05_kw.coq_cell_case(case, outcome))
        print('model agrees:', ok)
    elif 'kw_case' in inp:
        case = inp['kw_case']
        case['table'] = {int(k): v for k, v in case['table'].items()}
        outcome = c05_kw.run_impl(case)
        print('keyword', ('*' if case['star'] else '')
              + ('fill' if case['is_fill'] else 'trcl'), 'tokens',
              case['tokens'], 'TR cards', case['table'])
        print('implementation:', outcome)
        model, _ = common.coq_eval(
            HEADER, 'let c := ' + c05_kw.coq_case(case, outcome) + ' in '
            '(parse_tr_params (w_fill c) (w_star c) (w_trid c) (w_params c) '
            '(w_table c), '
            'check_kw c)')
        print('model (tokens as codes, 0 = 0.0, 1 = 1.0):', model)
    elif 'tie_case' in inp:
        case = case_from_summary(inp['tie_case'])
        runner = c05_tie.Runner(case)
        outcome = runner.run()
        print('implementation:', outcome)
        term = c05_tie.coq_case(case, runner, outcome)
        diag, _ = common.coq_eval(HEADER, 'diagnose ' + term)
        print('model vs implementation, first differing component '
              '(0 = none):', diag)
        model, _ = common.coq_eval(
            HEADER, 'match run_case ' + term + ' with Ok (du, rs, s) => '
            'Some (du, rs, s_cells s, s_surfs s, s_nck s, s_nsk s, '
            's_cache s, s_rcache s) | Err _ => None end')
        print('model:', model)
    print('recorded:', data.get('what'))
    return 0


def _tup(x):
    return tuple(_tup(y) for y in x) if isinstance(x, list) else x
