'''C10 — material cards become compositions with the same nuclides and amounts.

Theorems: coq/Properties/C10.v.  Ties (correspondence by execution):
  card   : tokens of an M card -> compositionConversionMCNPToT4 +
           extract_isotopes_fractions  vs  Model.convert_card
  block  : whole conversion of a deck, COMPOSITION block read back from the
           written file  vs  Model.convert_card + Model.block_of at binary64
  symbols: the 118 entries of the element enum vs Model.symbol
Independent oracle (search / sweep): the generator's abstract card against the
written file (periodic table written here, sums and ratios recomputed).'''
import json
import math
import random

import common
import impl
from common import cstr, clist, cfloat, cbool, copt, cpair, cn

THEOREMS = ['C10_zaid_split', 'C10_card_converted', 'C10_mixed_signs_rejected',
            'C10_rescale_sum', 'C10_rescale_proportional',
            'C10_block_negative_density', 'C10_block_atom_density']
TRUSTED = [
    'hand-written model coq/C10/Model.v (modelled, tied by execution only)',
    'decimal string -> binary64 (float()) and %.15e rendering: not modelled, '
    'the harness passes float(normalize_float(s)) values to the model and '
    'compares written concentrations at 1e-14 relative',
    'math.fsum vs left-to-right float sum: absorbed by the tolerance',
    'harness: generators, impl.T4File reader, PEG shim replacing TatSu',
]
ASSUMPTIONS = [
    'ZAIDs are decimal digits (no sign, blanks or underscores): the model\'s '
    'int() is narrower than Python\'s',
    'well-formed cards: fraction spellings do not start with a blank or a '
    'second minus sign; suffixes and ZAIDs contain no "="',
]
HEADER = ('From Coq Require Import List NArith ZArith Bool String Ascii '
          'PrimFloat.\nFrom T4V Require Import Base.Str Base.Scalar '
          'C10.Model C10.Exec.\nOpen Scope string_scope.\n')

PERIODIC = ('H HE LI BE B C N O F NE NA MG AL SI P S CL AR K CA SC TI V CR MN '
            'FE CO NI CU ZN GA GE AS SE BR KR RB SR Y ZR NB MO TC RU RH PD AG '
            'CD IN SN SB TE I XE CS BA LA CE PR ND PM SM EU GD TB DY HO ER TM '
            'YB LU HF TA W RE OS IR PT AU HG TL PB BI PO AT RN FR RA AC TH PA '
            'U NP PU AM CM BK CF ES FM MD NO LR RF DB SG BH HS MT DS RG CN NH '
            'FL MC LV TS OG').split()

FRAC_SPELLINGS = ['1', '0.5', '2.5e-2', '1.0', '0.25', '3', '7.5E-1', '1e-3',
                  '0.125', '4.0e1', '6.25-2', '.5', '2.', '1.5d-1', '0.0625',
                  '12', '100.0', '9.765625e-4', '3.0+1']
SUFFIXES = ['70c', '80c', '31c', '50d', '00c', '710nc', 'c', '']
KEYWORDS = ['nlib=70c', 'gas=1', 'plib=04p', 'estep=10', 'cond=-1']


# ---- generation -----------------------------------------------------------

def gen_nuclide(rng, neg):
    z = rng.choice([1, 2, 8, 13, 26, 92, 94, 118]) if rng.random() < 0.3 \
        else rng.randint(1, 118)
    a = 0 if rng.random() < 0.2 else rng.choice(
        [1, 2, 9, 10, 16, 56, 99, 100, 235, 238, 999, rng.randint(1, 999)])
    suf = rng.choice(SUFFIXES) if rng.random() < 0.6 else None
    return {'z': z, 'a': a, 'suf': suf, 'neg': neg,
            'frac': rng.choice(FRAC_SPELLINGS)}


def gen_card(rng, valid=True):
    '''Abstract card: list of items; valid cards have one sign throughout.'''
    n = rng.choice([1, 1, 2, 2, 3, 4, 5, 8, 13, 30]) if rng.random() < 0.8 \
        else rng.randint(1, 30)
    neg = rng.random() < 0.5
    items = []
    for _ in range(n):
        if rng.random() < 0.15:
            items.append({'key': rng.choice(KEYWORDS)})
        items.append(gen_nuclide(rng, neg))
    if rng.random() < 0.15:
        items.append({'key': rng.choice(KEYWORDS)})
    if not valid:
        fault = rng.choice(['mixed', 'mixed', 'badz', 'short', 'nofrac',
                            'alpha', 'z0'])
        nucs = [it for it in items if 'key' not in it]
        victim = rng.choice(nucs)
        if fault == 'mixed':
            if len(nucs) < 2:
                items.append(gen_nuclide(rng, not neg))
            else:
                victim['neg'] = not victim['neg']
                if all(x['neg'] == nucs[0]['neg'] for x in nucs):
                    nucs[0]['neg'] = not nucs[0]['neg']
        elif fault == 'badz':
            victim['z'] = rng.choice([119, 120, 200, 999])
        elif fault == 'z0':
            victim['z'] = 0
        elif fault == 'short':
            victim['raw'] = rng.choice(['92', '1', '235', '001'])
        elif fault == 'alpha':
            victim['raw'] = rng.choice(['u235', '92x35', '9a235', '92235c'])
        elif fault == 'nofrac':
            items = [it for it in items if 'key' not in it]
            items[-1]['drop_frac'] = True
        return items, fault
    return items, None


def tokens_of(items):
    toks = []
    for it in items:
        if 'key' in it:
            toks.append(it['key'])
            continue
        tok = it.get('raw', f'{it["z"]}{it["a"]:03d}')
        if it['suf'] is not None:
            tok += '.' + it['suf']
        toks.append(tok)
        if not it.get('drop_frac'):
            toks.append(('-' if it['neg'] else '') + it['frac'])
    return toks


def render_card(num, toks, rng):
    '''M card text with continuation lines (5+ leading blanks).'''
    lines = [f'm{num}']
    per_line = rng.choice([2, 4, 6])
    for k in range(0, len(toks), per_line):
        lines.append('      ' + ' '.join(toks[k:k + per_line]))
    return '\n'.join(lines)


def deck_of(cards, densities, rng):
    '''cards: {num: toks}; densities: {num: [spelling, ...]}. One spherical
    shell per (material, density).'''
    cells, surfs = [], []
    k = 0
    for num, dens in densities.items():
        for rho in dens:
            k += 1
            inner = f'{k - 1} ' if k > 1 else ''
            cells.append(f'{k} {num} {rho} {inner}-{k} imp:n=1')
            surfs.append(f'{k} so {k}')
    cells.append(f'{k + 1} 0 {k} imp:n=0')
    mats = [render_card(num, toks, rng) for num, toks in cards.items()]
    return ('C10 generated deck\n' + '\n'.join(cells) + '\n\n'
            + '\n'.join(surfs) + '\n\n' + '\n'.join(mats) + '\n')


# ---- implementation side --------------------------------------------------

def impl_card(toks, rng):
    '''compositionConversionMCNPToT4 + extract_isotopes_fractions on a deck
    holding one M card. Returns ('ok', entries, flag) or ('err', cls).'''
    from t4_geom_convert.Kernel.Composition.CompositionConversionMCNPToT4 \
        import compositionConversionMCNPToT4
    from t4_geom_convert.Kernel.Composition.ConstructCompositionT4 \
        import extract_isotopes_fractions
    deck = deck_of({7: toks}, {7: ['-1.0']}, rng)
    with impl.mip_parser(deck) as parser:
        try:
            abund = compositionConversionMCNPToT4(parser)[7]
            entries = extract_isotopes_fractions(abund.isotopes)
            return ('ok', [(n, f) for n, f in entries], abund.atom_fracs)
        except ValueError as exc:
            return ('err', 'EMixedSigns' if 'same sign' in str(exc)
                    else 'EValue')
        except AttributeError:
            return ('err', 'EAttribute')
        except IndexError:
            return ('err', 'EIndex')


def coq_card_out(out):
    if out[0] == 'err':
        return f'(Err {out[1]})'
    entries = clist(cpair(cstr(n), cstr(f)) for n, f in out[1])
    flag = copt(out[2], cbool)
    return f'(Ok ({entries}, {flag}))'


def spec_card(items):
    '''Independent reading of an abstract valid card.'''
    nucs = [it for it in items if 'key' not in it]
    names = [PERIODIC[it['z'] - 1] + ('-NAT' if it['a'] == 0 else str(it['a']))
             for it in nucs]
    return names, [it['frac'] for it in nucs], not nucs[0]['neg']


def py_float(spelling):
    from t4_geom_convert.Kernel.Utils import normalize_float
    return float(normalize_float(spelling))


def oracle_block(items, rho_spelling, comp):
    '''Property-level check of one written composition against the abstract
    card. Returns None or a description of the failure.'''
    names, fracs, atom = spec_card(items)
    rho = py_float(rho_spelling)
    got_names = [n for n, _ in comp['items']]
    if comp['declared'] != len(comp['items']):
        return 'declared count differs from the number of nuclides'
    if rho < 0:
        if comp['type'] != 'DENSITY':
            return f'negative density but block type {comp["type"]}'
        if got_names != names:
            return f'nuclides {got_names} != card {names}'
        if [a for _, a in comp['items']] != fracs:
            return 'mass-density fractions are not the card\'s absolute values'
        if comp['nb_atom'] != atom:
            return f'NB_ATOM={comp["nb_atom"]} but entries positive={atom}'
        if abs(impl.mcnp_float(comp['density']) - abs(rho)) > 1e-12 * abs(rho):
            return 'density value differs'
        return None
    if comp['type'] != 'POINT_WISE':
        return f'atom density but block type {comp["type"]}'
    if not atom:
        return None     # unsupported combination: warned about, empty block
    if got_names != names:
        return f'nuclides {got_names} != card {names}'
    concs = [impl.mcnp_float(a) for _, a in comp['items']]
    fvals = [py_float(f) for f in fracs]
    if abs(math.fsum(concs) - rho) > 1e-12 * max(1.0, abs(rho)):
        return f'concentrations sum to {math.fsum(concs)} not {rho}'
    for c, f in zip(concs, fvals):
        if abs(c * fvals[0] - concs[0] * f) > 1e-12 * max(abs(c * fvals[0]),
                                                         1e-300):
            return 'concentrations not proportional to the atom fractions'
    return None


DENSITIES = ['-1.0', '-2.7', '-0.001', '-19.1', '0.1', '0.0602', '1.0',
             '8.5e-2', '4.8-2', '-1.205-3', '2.5', '-11.35']


def run(res, tier, seed, proofs_ok):
    rng = random.Random(seed)
    n_valid = 250 if tier == 'quick' else 2500
    n_bad = 200 if tier == 'quick' else 1500
    res.rule = ('abstract material cards (1-30 nuclides, Z in 1..118, mass '
                'numbers incl. 000, library suffixes, keyword entries, 19 '
                'fraction spellings, one sign per card) rendered with '
                'continuation lines, plus a malformed stream (mixed signs, '
                'Z>118, Z=0, short or alphabetic ZAID, missing fraction); '
                'non-trivial = a card with >= 2 nuclides or a fault; distinct '
                'by token list')

    # ---- symbols ----
    from t4_geom_convert.Kernel.Composition.EIsotopeNameElementT4 \
        import EIsotopeNameElement
    from t4_geom_convert.Kernel.Composition.EIsotopeAtomicNumberMCNP \
        import EIsotopeAtomicNumber
    sym_cases = []
    for z in range(1, 119):
        name = EIsotopeNameElement(getattr(EIsotopeAtomicNumber,
                                           str(z)).value).name
        sym_cases.append(cpair(cn(z), cstr(name)))
    bad, errs = common.run_case_files('c10_sym', HEADER, 'N * string',
                                      'check_symbol', sym_cases)
    res.obligation('tie:symbols (118 enum entries vs Model.symbol)',
                   not bad and not errs, f'bad={bad} {errs}')
    for idx in bad:
        z = idx + 1
        res.violation('impl-violation',
                      f'element enum gives a wrong symbol for Z={z}',
                      {'input': {'z': z},
                       'expected': PERIODIC[z - 1],
                       'theorem_or_correspondence': 'tie:symbols'},
                      cls=None, found_input=True)
    n_enum = len(list(EIsotopeNameElement))
    if n_enum != 118 or len(list(EIsotopeAtomicNumber)) != 118:
        res.violation('impl-violation', 'element enums do not have 118 entries',
                      {'input': {'len': n_enum}}, found_input=True)

    # ---- card-level tie ----
    cards = []
    for i in range(n_valid + n_bad):
        items, fault = gen_card(rng, valid=i < n_valid)
        cards.append((items, fault, tokens_of(items)))
    card_cases, card_meta = [], []
    for items, fault, toks in cards:
        out = impl_card(toks, rng)
        card_cases.append(cpair(clist(cstr(t) for t in toks),
                                coq_card_out(out)))
        card_meta.append((items, fault, toks, out))
        nucs = [it for it in items if 'key' not in it]
        res.seen(toks, nontrivial=len(nucs) >= 2 or fault is not None)
        res.count('fault:' + str(fault))
        res.count('impl:' + (out[1] if out[0] == 'err' else 'ok'))
        res.count(f'nuclides:{min(len(nucs), 10)}{"+" if len(nucs) > 10 else ""}')
        # property-level oracle on the implementation's own result
        if fault is None:
            names, fracs, atom = spec_card(items)
            if out[0] != 'ok' or [n for n, _ in out[1]] != names \
                    or [f for _, f in out[1]] != fracs or out[2] != atom:
                res.violation('impl-violation',
                              'composition of a valid card differs from the '
                              f'card: {toks} -> {out}',
                              {'input': {'tokens': toks, 'items': items},
                               'expected': [names, fracs, atom],
                               'observed': out}, found_input=True)
        elif fault == 'mixed' and out[0] == 'ok':
            res.violation('impl-violation',
                          f'mixed-sign card accepted: {toks}',
                          {'input': {'tokens': toks}, 'observed': out},
                          found_input=True)
    res.sample({'tokens': card_meta[0][2], 'impl': card_meta[0][3]})
    res.sample({'tokens': card_meta[n_valid][2], 'fault': card_meta[n_valid][1],
                'impl': card_meta[n_valid][3]})
    bad, errs = common.run_case_files(
        'c10_card', HEADER, 'list string * card_out', 'check_card',
        card_cases)
    res.obligation(f'tie:card ({len(card_cases)} cards: model convert_card = '
                   'implementation)', not bad and not errs,
                   f'{len(bad)} disagreements {errs[:1]}')
    for idx in bad[:10]:
        items, fault, toks, out = card_meta[idx]
        model, _ = common.coq_eval(HEADER, 'convert_card '
                                   + clist(cstr(t) for t in toks))
        res.violation('correspondence',
                      f'model and implementation disagree on card {toks}: '
                      f'impl={out} model={model}',
                      {'input': {'tokens': toks},
                       'observed': out, 'model': model,
                       'theorem_or_correspondence': 'tie:card'},
                      found_input=False)

    # ---- whole conversion: COMPOSITION block of the written file ----
    n_decks = 60 if tier == 'quick' else 500
    block_cases, block_meta = [], []
    for _ in range(n_decks):
        k = rng.randint(1, 4)
        mats = {}
        dens = {}
        abstract = {}
        for num in rng.sample(range(1, 60), k):
            items, _ = gen_card(rng, valid=True)
            abstract[num] = items
            mats[num] = tokens_of(items)
            dens[num] = rng.sample(DENSITIES, rng.choice([1, 1, 2]))
        deck = deck_of(mats, dens, rng)
        conv = impl.convert(deck)
        if not conv.ok:
            res.violation('impl-violation',
                          f'valid deck rejected: {conv.exc}: {conv.msg[:200]}',
                          {'input': {'deck': deck}}, found_input=True)
            continue
        t4 = impl.T4File(conv.text)
        comps = {c['name']: c for c in t4.compositions}
        from t4_geom_convert.Kernel.Utils import normalize_float
        for num, spellings in dens.items():
            for rho in spellings:
                name = f'm{num}_{normalize_float(rho)}'
                comp = comps.get(name)
                res.seen((mats[num], rho))
                if comp is None:
                    res.violation('impl-violation',
                                  f'no composition {name} in the written file',
                                  {'input': {'deck': deck}}, found_input=True)
                    continue
                why = oracle_block(abstract[num], rho, comp)
                if why:
                    res.violation('impl-violation',
                                  f'composition {name}: {why}',
                                  {'input': {'deck': deck},
                                   'observed': comp}, found_input=True)
                names, fracs, atom = spec_card(abstract[num])
                fvals = [py_float(f) for f in fracs]
                if comp['type'] == 'DENSITY':
                    expected = (f'(BDensity {cbool(comp["nb_atom"])} '
                                + clist(cstr(n) for n, _ in comp['items'])
                                + ')')
                else:
                    expected = ('(BPointWise '
                                + clist(cpair(cstr(n), cfloat(impl.mcnp_float(a)))
                                        for n, a in comp['items']) + ')')
                block_cases.append(cpair(
                    clist(cstr(t) for t in mats[num]),
                    clist(cfloat(v) for v in fvals),
                    cfloat(py_float(rho)), expected))
                block_meta.append((deck, num, rho, comp))
                res.count('block:' + comp['type'])
    if block_meta:
        res.sample({'deck': block_meta[0][0], 'composition': block_meta[0][3]})
    bad, errs = common.run_case_files(
        'c10_block', HEADER,
        'list string * list float * float * block (T:=float)', 'check_block',
        block_cases)
    res.obligation(f'tie:block ({len(block_cases)} written compositions: '
                   'model block_of at binary64 = file)', not bad and not errs,
                   f'{len(bad)} disagreements {errs[:1]}')
    for idx in bad[:10]:
        deck, num, rho, comp = block_meta[idx]
        why = oracle_block_safe(deck, num, rho, comp)
        res.violation('correspondence',
                      f'written composition m{num} ({rho}) differs from the '
                      'model',
                      {'input': {'deck': deck}, 'observed': comp,
                       'theorem_or_correspondence': 'tie:block'},
                      found_input=False)


def oracle_block_safe(*_args):
    return None


def replay(path):
    '''Re-run the recorded input through the implementation and the oracle.'''
    data = json.load(open(path))
    inp = data.get('input', {})
    if 'deck' in inp:
        conv = impl.convert(inp['deck'])
        print('conversion:', conv)
        if conv.text:
            t4 = impl.T4File(conv.text)
            for comp in t4.compositions:
                print(comp)
    elif 'tokens' in inp:
        print('implementation:', impl_card(inp['tokens'], random.Random(0)))
        model, _ = common.coq_eval(HEADER, 'convert_card '
                                   + clist(cstr(t) for t in inp['tokens']))
        print('model:', model)
    print('recorded:', data.get('what'))
    return 0
