'''C10 — material cards become compositions with the same nuclides and amounts.

Theorems: coq/Properties/C10.v.  Ties (correspondence by execution):
  split     : contents of data cards -> MIP datacard.split  vs  Model.data_split
  materials : contents of all data cards of a deck -> get_material_composition
              vs  Model.get_materials
  symbols   : str(Z) through both element enums  vs  Model.atomic_value/element_name
  card      : tokens of an M card -> compositionConversionMCNPToT4 +
              extract_isotopes_fractions  vs  Model.convert_card
  partial   : runs failing in the composition path: what is left at the end of
              the file  vs  Model.composition_written
  text      : whole conversions: the COMPOSITION block of the written file,
              byte for byte, vs Model.composition_lines run on the data-card
              contents and the final cell dictionary captured from the run
              (number renderings = the implementation's own strings; the
              concentrations the code computes are compared numerically)
Independent oracle (sweep): the COMPOSITION block read back line by line
against an independent reading of the deck (ZAID arithmetic, periodic table
written here, reachability of materials through FILL, sums and ratios
recomputed with math.fsum).'''
import json
import math
import random
import re

import c10_cover
import common
import impl
from common import cstr, clist, cfloat, cbool, copt, cpair, cn, cz

THEOREMS = [
    'C10_material_card_recognised', 'C10_material_card_shape',
    'C10_other_cards_ignored', 'C10_material_cards_recognised',
    'C10_material_cards_duplicates', 'C10_material_cards_recognised_linked',
    'C10_one_block_per_material_density_linked',
    'C10_fraction_spelling_copied_linked',
    'C10_write_compositions_agree_linked', 'C10_atom_density_block_linked',
    'C10_conversion_succeeds', 'C10_text_read_back',
    'C10_lines_determine_blocks',
    'C10_element_table', 'C10_atomic_number_range',
    'C10_zaid_split', 'C10_card_converted', 'C10_mixed_signs_rejected',
    'C10_repeated_nuclide', 'C10_unused_card_still_checked',
    'C10_rescale_sum', 'C10_rescale_proportional', 'C10_rescale_entry',
    'C10_one_block_per_material_density', 'C10_block_order',
    'C10_block_origin',
    'C10_block_count', 'C10_block_lines',
    'C10_mass_density_block', 'C10_atom_density_block',
    'C10_mass_fractions_with_atom_density',
    'C10_mass_fractions_with_atom_density_refuted',
    'C10_text_shape',
]
TRUSTED = [
    'hand-written model coq/C10/Model.v (tied by execution only)',
    'float() and the %.15e rendering are parameters of the model: the '
    'harness passes the implementation\'s own float(normalize_float(s)) and '
    'the written amount strings; computed concentrations are compared at '
    '1e-14 relative.  normalize_float is a parameter too; the _linked '
    'theorems instantiate it with C09\'s model (tied in C09), the tie passes '
    'the implementation\'s own strings',
    'math.fsum vs left-to-right float sum: absorbed by the tolerance',
    'Card.content() / get_cards of MIP: the model starts from the one-line '
    'content of each data card; C10_material_cards_recognised_linked and '
    'C10_one_block_per_material_density_linked start from the physical lines '
    'through C14\'s model of both (tied in C14)',
    'the final cell dictionary (importance, universe, fillid, materialID, '
    'density of every cell after LIKE/lattice/FILL development) is captured '
    'from the run, not modelled here (C09, C12, C15); '
    'C10_write_compositions_agree_linked proves that C09\'s model of '
    'writeT4Composition over ITS cell dictionary gives the same text',
    'the text of the warning (mass fractions at an atom density) is not '
    'modelled',
    'harness: generators, line reader of the COMPOSITION block, PEG shim '
    'replacing TatSu',
]
ASSUMPTIONS = [
    'theorems about ZAIDs speak of ZAIDs made of decimal digits; outside '
    'that guard the model follows Python\'s int() on ASCII tokens (sign, '
    'single underscores), tied by the pyint stream and C10_python_int; the '
    'number of a material card is matched by [0-9]* so digits are all there '
    'is',
    'well-formed cards: fraction spellings do not start with a blank or a '
    'second minus sign; suffixes and ZAIDs contain no "="',
    'ASCII decks',
]
HEADER = ('From Coq Require Import List NArith ZArith Bool String Ascii '
          'PrimFloat.\nFrom T4V Require Import Base.Str Base.Scalar '
          'C10.Model C10.Exec.\nOpen Scope string_scope.\n')

CLS_EMPTY = 'mass_fractions_atom_density_empty_block'
CLS_FORTRAN = 'fortran_spelled_fraction_copied'


def fortran_only(spelling):
    '''An MCNP number written in a way only Fortran reads: D exponent marker
    or an exponent without marker (1.5d-1, 6.25-2, 3.0+1).'''
    if impl.is_t4_number(spelling):
        return False
    try:
        impl.mcnp_float(spelling)
    except ValueError:
        return False
    return True

PERIODIC = ('H HE LI BE B C N O F NE NA MG AL SI P S CL AR K CA SC TI V CR MN '
            'FE CO NI CU ZN GA GE AS SE BR KR RB SR Y ZR NB MO TC RU RH PD AG '
            'CD IN SN SB TE I XE CS BA LA CE PR ND PM SM EU GD TB DY HO ER TM '
            'YB LU HF TA W RE OS IR PT AU HG TL PB BI PO AT RN FR RA AC TH PA '
            'U NP PU AM CM BK CF ES FM MD NO LR RF DB SG BH HS MT DS RG CN NH '
            'FL MC LV TS OG').split()

FRAC_SPELLINGS = ['1', '0.5', '2.5e-2', '1.0', '0.25', '3', '7.5E-1', '1e-3',
                  '0.125', '4.0e1', '6.25-2', '.5', '2.', '1.5d-1', '0.0625',
                  '12', '100.0', '9.765625e-4', '3.0+1', '0.3', '0.7',
                  '1.1e-5', '0.1', '33.3', '6.0221e-1']
SUFFIXES = ['70c', '80c', '31c', '50d', '00c', '710nc', 'c', '', '70C', '03p']
KEYWORDS = ['nlib=70c', 'gas=1', 'plib=04p', 'estep=10', 'cond=-1',
            'hlib=24h', 'pnlib=70u', 'NLIB=80c']
# data cards that are not material cards (none is read by the converter)
OTHER_CARDS = ['mt{n} lwtr.01t', 'mt{n} grph.10t poly.10t', 'mx{n}:n j 8016.70c',
               'mx{n}:p 1001 6012', 'mode n', 'mode n p', 'mpn{n} 0 8016',
               'mgopt f 4', 'nps 1000', 'print', 'MT{n} hwtr.10t',
               'Mx{n}:h j model', 'mphys on', 'sdef pos=0 0 0 erg=1',
               'f4:n 1', 'e4 1 10', 'kcode 1000 1 10 20', 'ksrc 0 0 0',
               'mesh geom=xyz', 'phys:n 20', 'cut:n 1e8', 'totnu', 'void',
               'fm4 1 {n} -6', 'prdmp j j 1']


# ---- generation -----------------------------------------------------------

def gen_nuclide(rng, neg):
    z = rng.choice([1, 2, 8, 13, 26, 92, 94, 118]) if rng.random() < 0.3 \
        else rng.randint(1, 118)
    a = 0 if rng.random() < 0.2 else rng.choice(
        [1, 2, 9, 10, 16, 56, 99, 100, 235, 238, 999, rng.randint(1, 999)])
    suf = rng.choice(SUFFIXES) if rng.random() < 0.6 else None
    zlead = rng.choice([1, 2]) if rng.random() < 0.06 else 0
    return {'z': z, 'a': a, 'suf': suf, 'neg': neg, 'zlead': zlead,
            'frac': rng.choice(FRAC_SPELLINGS)}


def gen_card(rng, valid=True, neg=None):
    '''Abstract card: list of items; valid cards have one sign throughout.
    Keyword entries sit in every position (front, between pairs, runs of
    several, end); nuclides are sometimes repeated (same ZAID, own fraction,
    possibly another library suffix).'''
    n = rng.choice([1, 1, 2, 2, 3, 4, 5, 8, 13, 30]) if rng.random() < 0.8 \
        else rng.randint(1, 30)
    if neg is None:
        neg = rng.random() < 0.5
    p_key = rng.choice([0.0, 0.15, 0.15, 0.5])
    items = []
    for _ in range(n):
        while rng.random() < p_key:
            items.append({'key': rng.choice(KEYWORDS)})
        nucs = [it for it in items if 'key' not in it]
        if nucs and rng.random() < 0.2:
            nuc = dict(rng.choice(nucs))          # repeated nuclide
            nuc['frac'] = rng.choice(FRAC_SPELLINGS)
            if rng.random() < 0.5:
                nuc['suf'] = rng.choice(SUFFIXES)
            items.append(nuc)
        else:
            items.append(gen_nuclide(rng, neg))
    while rng.random() < p_key:
        items.append({'key': rng.choice(KEYWORDS)})
    if not valid:
        fault = rng.choice(['mixed', 'mixed', 'badz', 'short', 'nofrac',
                            'alpha', 'z0', 'keymid', 'empty', 'pyint'])
        nucs = [it for it in items if 'key' not in it]
        victim = rng.choice(nucs)
        if fault == 'mixed':
            if len(nucs) < 2:
                items.append(gen_nuclide(rng, not neg))
            else:
                victim['neg'] = not victim['neg']
                if all(x['neg'] == nucs[0]['neg'] for x in nucs):
                    nucs[0]['neg'] = not nucs[0]['neg']
        elif fault == 'badz':
            victim['z'] = rng.choice([119, 120, 200, 999, 1000])
        elif fault == 'z0':
            victim['z'] = 0
        elif fault == 'short':
            victim['raw'] = rng.choice(['92', '1', '235', '001'])
        elif fault == 'alpha':
            victim['raw'] = rng.choice(['u235', '92x35', '9a235', '92235c'])
        elif fault == 'pyint':
            # spellings Python's int() reads or refuses in its own way
            victim['raw'] = rng.choice(
                ['+92235', '9_2235', '92_235', '9__2235', '-92235', '1-35',
                 '1+00', '+1001', '0_1001', '1_001', '_1001', '1001_',
                 '+-1001', '1+01', '8_016', '+0001001', '-0001', '1e03'])
        elif fault == 'nofrac':
            items = [it for it in items if 'key' not in it]
            items[-1]['drop_frac'] = True
        elif fault == 'keymid':
            victim['keymid'] = rng.choice(KEYWORDS)
        elif fault == 'empty':
            items = [it for it in items if 'key' in it]
        return items, fault
    return items, None


def tokens_of(items):
    toks = []
    for it in items:
        if 'key' in it:
            toks.append(it['key'])
            continue
        tok = it.get('raw', '0' * it.get('zlead', 0) + f'{it["z"]}{it["a"]:03d}')
        if it['suf'] is not None:
            tok += '.' + it['suf']
        toks.append(tok)
        if 'keymid' in it:
            toks.append(it['keymid'])
        if not it.get('drop_frac'):
            toks.append(('-' if it['neg'] else '') + it['frac'])
    return toks


def render_card(head, toks, rng):
    '''Card text: continuation lines (5+ leading blanks or a trailing &),
    $ comments, runs of blanks.'''
    style = rng.choice(['blank', 'blank', 'amp', 'one'])
    per_line = rng.choice([2, 4, 6, 7])
    if style == 'one' and len(toks) <= 10:
        return head + ' ' + ' '.join(toks)
    lines = []
    first = rng.choice([0, 0, 2]) if toks else 0
    chunks = [toks[:first]] + [toks[k:k + per_line]
                               for k in range(first, len(toks), per_line)]
    for k, chunk in enumerate(chunks):
        sep = rng.choice([' ', ' ', '  '])
        text = sep.join(chunk)
        if k == 0:
            text = (head + ' ' + text).rstrip()
        elif style == 'amp':
            text = rng.choice(['', ' ', '  ']) + text
        else:
            text = ' ' * rng.choice([5, 6, 9]) + text
        if style == 'amp' and k < len(chunks) - 1:
            text += ' &'
        elif rng.random() < 0.15:
            text += ' $ ' + rng.choice(['comment', 'm99 1001 1', 'nlib=70c',
                                        '8016 0.5'])
        lines.append(text)
    return '\n'.join(lines)


def mat_head(num, rng):
    head = rng.choice(['m', 'm', 'M']) + rng.choice(['', '', '', '0', '00']) \
        + str(num)
    return rng.choice(['', '', ' ', '   ']) + head


DENSITY_GROUPS = [
    ['-1.0', '-1.00', '-1.', '-1', '-1.0e0', '-10.0-1'],
    ['-2.7', '-2.70', '-2.7e0', '-0.27e1', '-27-1'],
    ['-0.001', '-1e-3', '-1.0-3', '-1.d-3', '-.001'],
    ['-19.1', '-19.10', '-1.91e1', '-1.91+1'],
    ['0.1', '0.10', '1e-1', '1.0-1', '.1'],
    ['0.0602', '6.02e-2', '6.02-2', '0.06020'],
    ['1.0', '1', '1.', '1.00'],
    ['8.5e-2', '8.50e-2', '0.085', '8.5-2'],
    ['-1.205-3', '-1.205e-3', '-0.001205'],
    ['2.5', '2.50', '25e-1'],
    ['-11.35', '-11.350', '-1.135e1'],
]


def gen_deck(rng):
    '''Abstract deck: materials (some unused, some used only by dead / filled
    / never-filled-universe cells), other data cards, cells of every kind.'''
    n_mats = rng.randint(1, 5)
    nums = rng.sample(range(1, 120), n_mats)
    mats = []
    for num in nums:
        items, _ = gen_card(rng, valid=True)
        mats.append({'num': num, 'items': items, 'head': mat_head(num, rng)})
    cells = []       # level-0 shells, in order
    universes = {}   # u -> list of (mat, rho)

    def use(num):
        group = rng.choice(DENSITY_GROUPS)
        return num, rng.choice(group)

    roles = {}
    for num in nums:
        role = rng.choice(['plain', 'plain', 'plain', 'multi', 'multi',
                           'dead', 'filled', 'universe', 'orphan',
                           'unused', 'plain+dead', 'universe+plain'])
        roles[num] = role
        if role in ('plain', 'plain+dead', 'universe+plain'):
            cells.append(('plain',) + use(num))
        if role == 'multi':
            # one material at several densities, in several spellings
            for group in rng.sample(DENSITY_GROUPS, rng.choice([1, 2, 3])):
                for rho in rng.sample(group, rng.choice([1, 2, 3])):
                    cells.append(('plain', num, rho))
        if role in ('dead', 'plain+dead'):
            cells.append(('dead',) + use(num))
        if role == 'filled':
            u = len(universes) + 1
            universes[u] = [(0, None), (0, None)]
            cells.append(('filled', num, use(num)[1], u))
        if role in ('universe', 'universe+plain'):
            u = len(universes) + 1
            other = rng.choice(nums)
            universes[u] = [use(num), use(other) if rng.random() < 0.5
                            else (0, None)]
            container_dead = rng.random() < 0.25
            cells.append(('fill0dead' if container_dead else 'fill0', 0,
                          None, u))
        if role == 'orphan':
            u = len(universes) + 1
            universes[u] = [use(num), (0, None)]   # never used by a FILL
    if not any(c[0] in ('plain', 'filled', 'fill0') for c in cells) \
            or rng.random() < 0.2:
        cells.append(('plain', 0, None))      # a live void cell
    rng.shuffle(cells)
    others = []
    for _ in range(rng.choice([0, 1, 2, 4])):
        others.append(rng.choice(OTHER_CARDS).format(
            n=rng.choice(nums + [rng.randint(1, 99)])))
    return {'mats': mats, 'cells': cells, 'universes': universes,
            'others': others, 'roles': roles}


def render_deck(deck, rng):
    lines, surfs = [], []
    k = 0
    for cell in deck['cells']:
        k += 1
        geom = (f'{k - 1} ' if k > 1 else '') + f'-{k}'
        surfs.append(f'{k} so {k}')
        kind, num, rho = cell[0], cell[1], cell[2]
        matpart = f'{num} {rho}' if num != 0 else '0'
        if kind == 'plain':
            lines.append(f'{k} {matpart} {geom} imp:n=1')
        elif kind == 'dead':
            lines.append(f'{k} {matpart} {geom} imp:n=0')
        elif kind == 'filled':
            lines.append(f'{k} {matpart} {geom} fill={cell[3]} imp:n=1')
        elif kind == 'fill0':
            lines.append(f'{k} 0 {geom} fill={cell[3]} imp:n=1')
        elif kind == 'fill0dead':
            lines.append(f'{k} 0 {geom} fill={cell[3]} imp:n=0')
    if k == 0:
        k = 1
        surfs.append('1 so 1')
        lines.append('1 0 -1 imp:n=1')
    lines.append(f'{k + 1} 0 {k} imp:n=0')
    cid = 500
    for u, (left, right) in sorted(deck['universes'].items()):
        plane = 900 + u
        surfs.append(f'{plane} px 0')
        for (num, rho), geom in ((left, f'-{plane}'), (right, f'{plane}')):
            cid += 1
            matpart = f'{num} {rho}' if num != 0 else '0'
            lines.append(f'{cid} {matpart} {geom} u={u} imp:n=1')
    data = [render_card(m['head'], tokens_of(m['items']), rng)
            for m in deck['mats']] + list(deck['others'])
    rng.shuffle(data)
    return ('C10 generated deck\n' + '\n'.join(lines) + '\n\n'
            + '\n'.join(surfs) + '\n\n' + '\n'.join(data) + '\n')


def simple_deck(cards, densities, rng):
    '''cards: {num: toks}; densities: {num: [spelling, ...]}. One spherical
    shell per (material, density).'''
    cells, surfs = [], []
    k = 0
    for num, dens in densities.items():
        for rho in dens:
            k += 1
            inner = f'{k - 1} ' if k > 1 else ''
            cells.append(f'{k} {num} {rho} {inner}-{k} imp:n=1')
            surfs.append(f'{k} so {k}')
    cells.append(f'{k + 1} 0 {k} imp:n=0')
    mats = [render_card(f'm{num}', toks, rng) for num, toks in cards.items()]
    return ('C10 generated deck\n' + '\n'.join(cells) + '\n\n'
            + '\n'.join(surfs) + '\n\n' + '\n'.join(mats) + '\n')


# ---- implementation side --------------------------------------------------

EXC = {'IndexError': 'EIndex', 'ValueError': 'EValue',
       'AttributeError': 'EAttribute', 'TypeError': 'EType',
       'ZeroDivisionError': 'EZeroDiv'}


def exc_class(exc):
    name = type(exc).__name__ if not isinstance(exc, str) else exc
    return EXC.get(name, name)


def impl_card(toks, rng):
    '''compositionConversionMCNPToT4 + extract_isotopes_fractions on a deck
    holding one M card. Returns ('ok', entries, flag) or ('err', cls).'''
    from t4_geom_convert.Kernel.Composition.CompositionConversionMCNPToT4 \
        import compositionConversionMCNPToT4
    from t4_geom_convert.Kernel.Composition.ConstructCompositionT4 \
        import extract_isotopes_fractions
    deck = simple_deck({7: toks}, {7: ['-1.0']}, rng)
    with impl.mip_parser(deck) as parser:
        try:
            abund = compositionConversionMCNPToT4(parser)[7]
            entries = extract_isotopes_fractions(abund.isotopes)
            return ('ok', [(n, f) for n, f in entries], abund.atom_fracs)
        except ValueError as exc:
            return ('err', 'EMixedSigns' if 'same sign' in str(exc)
                    else 'EValue')
        except (AttributeError, IndexError, TypeError) as exc:
            return ('err', exc_class(exc))


def coq_card_out(out):
    if out[0] == 'err':
        return f'(Err {out[1]})'
    entries = clist(cpair(cstr(n), cstr(f)) for n, f in out[1])
    flag = copt(out[2], cbool)
    return f'(Ok ({entries}, {flag}))'


def split_helper():
    '''datacard.split is a helper below Card.parts(); a rewrite may rename it
    (then tie:split is skipped: tie:materials goes through Card.parts and
    get_material_composition, the public entry that runs the same code).'''
    try:
        from MIP.mip import datacard
        return getattr(datacard, 'split', None)
    except ImportError:
        return None


def impl_split(content):
    split = split_helper()
    try:
        if split is not None:
            return tuple(split(content))
        # helper gone: only "does the card match at all", through Card.parts
        import contextlib
        import io
        from MIP.mip.main import Card
        with contextlib.redirect_stdout(io.StringIO()):
            return ('<parts>',) + tuple(
                Card(lines=[content], position=0, type='d').parts())
    except AttributeError:
        return None


def impl_materials_of_contents(contents):
    '''get_material_composition on a parser stub yielding cards with the
    given contents (exercises Card.parts and the function itself).'''
    from MIP.geom.composition import get_material_composition
    from MIP.mip.main import Card

    class Stub:
        def cards(self, blocks='d', skipcomments=True):
            for text in contents:
                yield Card(lines=[text], position=0, type='d')
    import contextlib
    import io
    try:
        with contextlib.redirect_stdout(io.StringIO()):
            return ('ok', list(get_material_composition(Stub()).items()))
    except (ValueError, AttributeError, IndexError, TypeError) as exc:
        return ('err', exc_class(exc))


def data_contents(deck_text):
    with impl.mip_parser(deck_text) as parser:
        return [card.content()
                for card in parser.cards(blocks='d', skipcomments=True)]


def convert_capture(deck_text, extra_args=()):
    '''Whole conversion; the arguments of writeT4Composition are recorded.'''
    import t4_geom_convert.main as tmain
    from t4_geom_convert.Kernel.FileHandlers.Writer import \
        WriteT4Composition as wmod
    captured = {}
    orig = wmod.writeT4Composition

    def spy(parser, cells, ofile):
        captured['cards'] = [card.content() for card in
                             parser.cards(blocks='d', skipcomments=True)]
        captured['cells'] = [
            (key, float(c.importance), int(c.universe), c.fillid is not None,
             c.materialID, c.density) for key, c in cells.items()]
        return orig(parser, cells, ofile)
    # the function is reached either through the name main.py imported or
    # through the writer module: intercept both spellings
    had = hasattr(tmain, 'writeT4Composition')
    orig_main = getattr(tmain, 'writeT4Composition', None)
    wmod.writeT4Composition = spy
    if had:
        tmain.writeT4Composition = spy
    try:
        conv = impl.convert(deck_text, extra_args)
    finally:
        wmod.writeT4Composition = orig
        if had:
            tmain.writeT4Composition = orig_main
    return conv, captured


def composition_section(text):
    '''The bytes from the newline in front of COMPOSITION to the newline
    after END_COMPOSITION, or None.'''
    start = text.find('\nCOMPOSITION\n')
    if start < 0:
        return None
    end = text.find('END_COMPOSITION\n', start)
    if end < 0:
        return None
    return text[start:end + len('END_COMPOSITION\n')]


def py_norm(spelling):
    from t4_geom_convert.Kernel.Utils import normalize_float
    return normalize_float(spelling)


def py_fval(spelling):
    try:
        return float(py_norm(spelling))
    except (ValueError, IndexError, TypeError):
        return None


def finite(x):
    return x is not None and not (math.isnan(x) or math.isinf(x))


# ---- independent readers (sweep oracle) ------------------------------------

def read_block(section):
    '''Line reader of a COMPOSITION section written by the converter.
    Returns (declared_count, [block dict]) or raises ValueError.'''
    if not section.endswith('\n'):
        raise ValueError('section does not end with a newline')
    lines = section[:-1].split('\n')
    if lines[:2] != ['', 'COMPOSITION']:
        raise ValueError('bad opening lines')
    if lines[-2:] != ['', 'END_COMPOSITION']:
        raise ValueError('bad closing lines')
    if not re.fullmatch(r'[0-9]+', lines[2]):
        raise ValueError(f'bad count line {lines[2]!r}')
    declared = int(lines[2])
    blocks = []
    for line in lines[3:-2]:
        if line.startswith('  '):
            if not blocks:
                raise ValueError('nuclide line before any block')
            body = line[2:]
            if body == '' and not blocks[-1]['raw_items']:
                blocks[-1]['raw_items'].append(None)     # the empty join
                continue
            parts = body.split(' ')
            if len(parts) != 2 or not parts[0] or not parts[1]:
                raise ValueError(f'bad nuclide line {line!r}')
            blocks[-1]['raw_items'].append((parts[0], parts[1]))
            continue
        words = line.split(' ')
        if words[0] == 'POINT_WISE' and len(words) == 4:
            typ, temp, name, count = words
            blocks.append({'type': typ, 'temp': temp, 'name': name,
                           'declared': count, 'density': None,
                           'nb_atom': None, 'raw_items': []})
        elif words[0] == 'DENSITY' and len(words) == 6 \
                and words[4] in ('NB_ATOM', ''):
            typ, temp, name, rho, flag, count = words
            blocks.append({'type': typ, 'temp': temp, 'name': name,
                           'declared': count, 'density': rho,
                           'nb_atom': flag == 'NB_ATOM', 'raw_items': []})
        else:
            raise ValueError(f'bad block header {line!r}')
    for blk in blocks:
        if not re.fullmatch(r'[0-9]+', blk['declared']):
            raise ValueError(f'bad count in header of {blk["name"]}')
        blk['declared'] = int(blk['declared'])
        raw = blk.pop('raw_items')
        if raw == [None]:
            raw = []
        if None in raw or not (raw or blk['declared'] == 0):
            raise ValueError(f'bad nuclide lines in {blk["name"]}')
        blk['items'] = raw
    return declared, blocks


def read_material_cards(deck_text):
    '''Independent reading of the material cards of a deck text: the data
    block is what follows the second blank line; a card starts in the first
    five columns, goes on with lines starting with five blanks or after a
    trailing &; $ starts a comment.  Returns {number: [tokens]} for the cards
    named M<digits>.'''
    blocks = re.split(r'\n[ \t]*\n', deck_text)
    if len(blocks) < 3:
        return {}
    cards, cur, amp = [], None, False
    for line in blocks[2].split('\n'):
        code = line.split('$')[0].rstrip()
        if not code.strip():
            continue
        if re.match(r' {0,4}[cC]( |$)', line):
            continue
        cont = amp or line.startswith('     ')
        amp = code.endswith('&')
        if amp:
            code = code[:-1]
        if cont and cur is not None:
            cur.append(code)
        else:
            cur = [code]
            cards.append(cur)
    mats = {}
    for card in cards:
        words = ' '.join(card).split()
        m = re.fullmatch(r'[mM]([0-9]+)', words[0]) if words else None
        if m:
            mats[int(m.group(1))] = words[1:]
    return mats


def read_card_tokens(toks):
    '''Independent reading of the entries of a material card: keyword entries
    (with an = sign) dropped, then (ZAID, fraction) pairs; Z and A by integer
    arithmetic on the ZAID.  Returns (names, amounts, atom) or None if the
    card is not a valid one-sign card.'''
    plain = [t for t in toks if '=' not in t]
    if len(plain) % 2 or not plain:
        return None
    names, amounts, signs = [], [], set()
    for zaid, frac in zip(plain[0::2], plain[1::2]):
        number = zaid.split('.')[0]
        if not number.isdigit():
            return None
        z, a = divmod(int(number), 1000)
        if not 1 <= z <= 118:
            return None
        names.append(PERIODIC[z - 1] + ('-NAT' if a == 0 else str(a)))
        signs.add(frac.startswith('-'))
        amounts.append(frac[1:] if frac.startswith('-') else frac)
    if len(signs) != 1:
        return None
    return names, amounts, not signs.pop()


def expected_uses(deck):
    '''(material number, density spelling) of every region a converted volume
    can come from: live level-0 cells without FILL, and the cells of a
    universe filling a live level-0 cell.'''
    uses = []
    for cell in deck['cells']:
        kind = cell[0]
        if kind == 'plain' and cell[1] != 0:
            uses.append((cell[1], cell[2]))
        elif kind in ('filled', 'fill0'):
            for num, rho in deck['universes'][cell[3]]:
                if num != 0:
                    uses.append((num, rho))
    return uses


def geomcomp_names(t4_text):
    '''Names on the lines of the GEOMCOMP section of a written file.'''
    start = t4_text.find('\nGEOMCOMP\n')
    end = t4_text.find('END_GEOMCOMP', start)
    if start < 0 or end < 0:
        return []
    names = []
    for line in t4_text[start + len('\nGEOMCOMP\n'):end].split('\n'):
        words = line.split()
        if len(words) >= 2 and words[1].isdigit():
            names.append(words[0])
    return names


def oracle_deck(deck, deck_text, section, t4_text=None):
    '''Property-level check of a written COMPOSITION section against the
    abstract deck and an independent reading of its text.  Yields
    (description, class or None).'''
    try:
        declared, blocks = read_block(section)
    except ValueError as exc:
        yield f'COMPOSITION block cannot be read back: {exc}', None
        return
    if t4_text is not None:
        # the composition a volume is assigned to must be one that is written
        # (every material of the generated decks has a card)
        written = {b['name'] for b in blocks}
        for name in geomcomp_names(t4_text):
            if re.fullmatch(r'm[0-9]+_.+', name) and name not in written:
                yield (f'GEOMCOMP assigns volumes to {name}, a composition '
                       'that is not written: the cells using that material '
                       'at that density get no composition'), None
    if declared != len(blocks):
        yield (f'COMPOSITION declares {declared} compositions but '
               f'{len(blocks)} are written'), None
    if not blocks or (blocks[-1]['type'], blocks[-1]['name'],
                      blocks[-1]['items']) != \
            ('POINT_WISE', 'm0', [('HE4', '1E-30')]):
        yield 'the void composition m0 HE4 1E-30 is not the last block', None
    names_seen = [b['name'] for b in blocks]
    if len(set(names_seen)) != len(names_seen):
        yield f'a composition name is written twice: {names_seen}', None
    cards = read_material_cards(deck_text)
    generated = {m['num']: tokens_of(m['items']) for m in deck['mats']}
    if cards != generated:
        yield ('harness: independent card reader disagrees with the '
               f'generator: {cards} vs {generated}'), None
        return
    groups = {}
    for num, rho in expected_uses(deck):
        groups.setdefault((num, impl.mcnp_float(rho)), set()).add(rho)
    by_group = {}
    for blk in blocks[:-1]:
        m = re.fullmatch(r'm([0-9]+)_(.+)', blk['name'])
        if not m or str(int(m.group(1))) != m.group(1):
            yield f'composition name {blk["name"]!r} is not m<int>_<density>', None
            continue
        try:
            key = (int(m.group(1)), impl.mcnp_float(m.group(2)))
        except ValueError:
            yield f'composition name {blk["name"]!r}: density is not a number', None
            continue
        if key not in groups:
            yield (f'composition {blk["name"]} is written but no converted '
                   'cell uses that material at that density'), None
            continue
        by_group.setdefault(key, []).append(blk)
        if blk['temp'] != '300':
            yield f'composition {blk["name"]}: temperature {blk["temp"]}', None
        yield from oracle_block(cards[key[0]], key[1], blk)
    for key, spellings in groups.items():
        got = by_group.get(key, [])
        if not got:
            yield (f'material {key[0]} at density {key[1]} is used by a '
                   'converted cell but has no composition'), None
        elif len(got) > len(spellings):
            yield (f'material {key[0]} at density {key[1]}: {len(got)} '
                   f'compositions for {len(spellings)} spelling(s)'), None


def oracle_block(toks, rho, blk):
    '''One written block against the independent reading of its card.'''
    name = blk['name']
    spec = read_card_tokens(toks)
    if spec is None:
        yield f'harness: card of {name} is not a valid one-sign card', None
        return
    names, amounts, atom = spec
    got_names = [n for n, _ in blk['items']]
    if blk['declared'] != len(blk['items']):
        yield (f'{name}: declares {blk["declared"]} nuclides, lists '
               f'{len(blk["items"])}'), None
    if rho < 0:
        if blk['type'] != 'DENSITY':
            yield f'{name}: mass density but block type {blk["type"]}', None
            return
        if got_names != names:
            yield f'{name}: nuclides {got_names} != card {names}', None
        elif [a for _, a in blk['items']] != amounts:
            yield (f'{name}: amounts {[a for _, a in blk["items"]]} are not '
                   f'the card\'s absolute values {amounts}'), None
        else:
            for (nuc, amount) in blk['items']:
                if not impl.is_t4_number(amount):
                    yield (f'{name}: amount {amount!r} of {nuc} is copied in '
                           'a spelling that is not a plain decimal number'), \
                        CLS_FORTRAN if fortran_only(amount) else None
                    break
        if blk['nb_atom'] != atom:
            yield (f'{name}: NB_ATOM={blk["nb_atom"]} but entries '
                   f'positive={atom}'), None
        try:
            written = impl.mcnp_float(blk['density'])
        except ValueError:
            written = None
        if written is None or abs(written - abs(rho)) > 1e-12 * abs(rho):
            yield f'{name}: density value {blk["density"]} != |{rho}|', None
        return
    if blk['type'] != 'POINT_WISE':
        yield f'{name}: atom density but block type {blk["type"]}', None
        return
    if not atom and not blk['items'] and blk['declared'] == 0:
        yield (f'{name}: card with mass fractions used at an atom density: '
               'the composition is written without any nuclide'), CLS_EMPTY
        return
    if got_names != names:
        yield f'{name}: nuclides {got_names} != card {names}', None
        return
    if not atom:
        return      # mass fractions at an atom density, converted somehow
    try:
        concs = [float(a) for _, a in blk['items']]
    except ValueError:
        yield f'{name}: a concentration is not a number', None
        return
    fvals = [impl.mcnp_float(f) for f in amounts]
    total = math.fsum(fvals)
    if abs(math.fsum(concs) - rho) > 1e-12 * max(1.0, abs(rho)):
        yield f'{name}: concentrations sum to {math.fsum(concs)} not {rho}', None
    for c, f in zip(concs, fvals):
        if abs(c - f * rho / total) > 1e-12 * max(abs(c), 1e-300):
            yield (f'{name}: concentration {c} is not fraction {f} * {rho} / '
                   f'{total}'), None
            break


# ---- Coq rendering ---------------------------------------------------------

def coq_cell(cell):
    _key, imp, univ, filled, mat, dens = cell
    return (f'(mkCell {cfloat(imp)} {cz(univ)} {cbool(filled)} '
            f'{cz(int(mat))} {copt(dens, cstr)})')


def coq_text_case(cards, cells, expected, section):
    '''Case for Exec.check_text. expected = ('ok', lines) | ('err', cls).'''
    strings = set()
    for content in cards:
        for tok in content.split():
            strings.add(tok)
            if tok.startswith('-'):
                strings.add(tok[1:])
    dens = sorted({c[5] for c in cells if c[5] is not None})
    strings.update(dens)
    norms = clist(cpair(cstr(d), cstr(py_norm(d))) for d in dens)
    fvals = []
    for s in sorted(strings):
        v = py_fval(s)
        if v is not None and not finite(v):
            return None
        fvals.append(cpair(cstr(s), copt(v, cfloat)))
    rends = []
    if section is not None:
        try:
            _, blocks = read_block(section)
        except ValueError:
            blocks = []
        for blk in blocks:
            if blk['type'] != 'POINT_WISE':
                continue
            amounts = []
            for _, amount in blk['items']:
                try:
                    amounts.append(cpair(cfloat(float(amount)), cstr(amount)))
                except ValueError:
                    amounts.append(cpair(cfloat(0.0), cstr(amount)))
            rends.append(cpair(cstr(blk['name']), clist(amounts)))
    if expected[0] == 'ok':
        exp = f'(Ok {clist(cstr(l) for l in expected[1])})'
    else:
        exp = f'(Err {expected[1]})'
    return (f'(mkText {clist(cstr(c) for c in cards)} '
            f'{clist(coq_cell(c) for c in cells)} {norms} {clist(fvals)} '
            f'{clist(rends)} {exp})')


def ascii_ok(text):
    return all(32 <= ord(ch) < 127 for ch in text)


# ---- known findings --------------------------------------------------------

WITNESS_EMPTY = '''C10 witness: weight fractions used at an atom density
1 5 0.1 -1 imp:n=1
2 0 1 imp:n=0

1 so 1

m5 1001 -0.11 8016 -0.89
'''


WITNESS_FORTRAN = '''C10 witness: Fortran spellings of weight fractions
1 5 -1.0 -1 imp:n=1
2 0 1 imp:n=0

1 so 1

m5 1001 -1.5d-1 8016 -8.5-1
'''


def witness_fortran(res):
    conv = impl.convert(WITNESS_FORTRAN)
    section = composition_section(conv.text or '')
    if not conv.ok or section is None:
        res.violation('impl-violation', 'witness deck of class '
                      f'{CLS_FORTRAN} is rejected: {conv}',
                      {'input': {'deck': WITNESS_FORTRAN}}, found_input=True)
        return
    try:
        _, blocks = read_block(section)
    except ValueError as exc:
        res.violation('impl-violation', f'witness deck: {exc}',
                      {'input': {'deck': WITNESS_FORTRAN}}, found_input=True)
        return
    blk = blocks[0]
    if blk['items'] == [('H1', '1.5d-1'), ('O16', '8.5-1')]:
        res.violation('impl-violation',
                      'card m5 1001 -1.5d-1 8016 -8.5-1 at mass density '
                      '-1.0: amounts written as 1.5d-1 and 8.5-1',
                      {'input': {'deck': WITNESS_FORTRAN}, 'observed': blk},
                      cls=CLS_FORTRAN, found_input=True)
    res.count('witness:' + CLS_FORTRAN)


def witnesses(res):
    witness_fortran(res)
    conv = impl.convert(WITNESS_EMPTY)
    section = composition_section(conv.text or '')
    if not conv.ok or section is None:
        res.violation('impl-violation', 'witness deck of class '
                      f'{CLS_EMPTY} is rejected: {conv}',
                      {'input': {'deck': WITNESS_EMPTY}}, found_input=True)
        return
    try:
        _, blocks = read_block(section)
    except ValueError as exc:
        res.violation('impl-violation', f'witness deck: {exc}',
                      {'input': {'deck': WITNESS_EMPTY}}, found_input=True)
        return
    blk = blocks[0]
    if blk['name'] == 'm5_0.1' and blk['declared'] == 0 and not blk['items']:
        res.violation('impl-violation',
                      'card m5 (H1 0.11, O16 0.89 by weight) used at atom '
                      'density 0.1: composition m5_0.1 written without '
                      'nuclides', {'input': {'deck': WITNESS_EMPTY},
                                   'observed': blk},
                      cls=CLS_EMPTY, found_input=True)
    res.count('witness:' + CLS_EMPTY)


# ---- run -------------------------------------------------------------------

def run(res, tier, seed, proofs_ok):
    rng = random.Random(seed)
    quick = tier == 'quick'
    n_valid = 250 if quick else 4000
    n_bad = 200 if quick else 2500
    res.rule = ('abstract material cards (1-30 entries, Z in 1..118, mass '
                'numbers incl. 000, leading zeros, library suffixes, keyword '
                'entries in every position, repeated nuclides, 25 fraction '
                'spellings, one sign per card) rendered with continuation '
                'lines / & / $ comments, plus a malformed stream (mixed '
                'signs, Z>118, Z=0, short or alphabetic ZAID, missing '
                'fraction, keyword between ZAID and fraction, no nuclide); '
                'whole decks with 1-5 materials (several densities in '
                'several spellings, used only by dead / filled / universe / '
                'never-filled-universe cells, unused) and mt/mx/mode/... '
                'cards; non-trivial = a card with >= 2 nuclides or a fault, '
                'a deck; distinct by token list / deck text')
    witnesses(res)
    run_symbols(res)
    try:
        cover = c10_cover.Coverage()
    except Exception as exc:        # pylint: disable=broad-except
        cover = None
        res.extra['coverage_error'] = repr(exc)
    if cover is None:
        run_split(res, rng, quick)
        run_cards(res, rng, n_valid, n_bad)
        run_decks(res, rng, 70 if quick else 2000)
        return
    with cover:
        run_split(res, rng, quick)
        run_cards(res, rng, n_valid, n_bad)
        run_decks(res, rng, 70 if quick else 2000)
    try:
        total, missing, stale = cover.report()
    except Exception as exc:        # pylint: disable=broad-except
        res.extra['coverage_error'] = repr(exc)
        return
    res.extra['coverage_functions_not_present'] = list(c10_cover.MISSING)
    res.obligation(f'coverage: every executable line ({total}) of the '
                   f'{cover.n_functions} modelled functions is executed by a '
                   f'tied case, except {len(c10_cover.UNREACHED)} listed with '
                   'a reason', not missing and not stale,
                   f'missing={missing[:6]} stale={stale}')
    res.extra['coverage_missing'] = [list(m) for m in missing]
    if missing or stale:
        res.violation('correspondence',
                      f'lines of modelled functions not executed by any tied '
                      f'case: {missing[:6]}; stale exemptions: {stale}',
                      {'input': {'coverage': [list(m) for m in missing]},
                       'theorem_or_correspondence': 'coverage'},
                      found_input=False)


def run_symbols(res):
    from t4_geom_convert.Kernel.Composition.EIsotopeNameElementT4 \
        import EIsotopeNameElement
    from t4_geom_convert.Kernel.Composition.EIsotopeAtomicNumberMCNP \
        import EIsotopeAtomicNumber
    sym_cases = []
    for z in range(1, 119):
        try:
            name = EIsotopeNameElement(getattr(EIsotopeAtomicNumber,
                                               str(z)).value).name
        except (AttributeError, ValueError):
            name = '<none>'
        sym_cases.append(cpair(cn(z), cstr(name)))
        if name != PERIODIC[z - 1]:
            res.violation('impl-violation',
                          f'element enums give {name} for Z={z}',
                          {'input': {'z': z}, 'expected': PERIODIC[z - 1],
                           'theorem_or_correspondence': 'sweep:symbols'},
                          cls=None, found_input=True)
    bad, errs = common.run_case_files('c10_sym', HEADER, 'N * string',
                                      'check_symbol', sym_cases)
    res.obligation('tie:symbols (118 enum entries vs the model tables)',
                   not bad and not errs, f'bad={bad} {errs}')
    n_enum = len(list(EIsotopeNameElement))
    if n_enum != 118 or len(list(EIsotopeAtomicNumber)) != 118:
        res.violation('impl-violation', 'element enums do not have 118 entries',
                      {'input': {'len': n_enum}}, found_input=True)


def gen_content(rng, small=False):
    '''One-line content of a data card, of many shapes (small: numbers 0..3,
    so that blocks repeat material numbers).'''
    kind = rng.random()
    n = rng.randint(0, 3) if small else rng.randint(0, 130)
    if kind < 0.35:
        head = rng.choice(['m', 'M']) + rng.choice(['', '0', '00']) + str(n)
        toks = tokens_of(gen_card(rng, valid=True)[0])[:8]
        sep = rng.choice([' ', '  '])
        return rng.choice(['', ' ', '  ']) + head + sep + sep.join(toks) \
            + rng.choice(['', ' '])
    if kind < 0.7:
        return rng.choice(['', ' ']) + rng.choice(OTHER_CARDS).format(n=n)
    if kind < 0.8:
        return rng.choice(['m', 'M', ' m ', 'm ' + str(n), 'm*' + str(n),
                           f'm{n}*', f'*m{n} 1001 1', f'm{n}', f'm{n} ',
                           f'*tr{n} 0 0 0', f'tr{n}* 1 2 3', f'{n} m',
                           '', ' ', f'{n}', '*', '** a1', 'imp:n 1 1 0',
                           f'm{n}1001 1', f'm {n} 1001 1', f'mm{n} 1',
                           f'm{n}m 1', f'M{n}\t1001 1'])
    alphabet = 'mM 0159*:=.-+abctx'
    return ''.join(rng.choice(alphabet) for _ in range(rng.randint(0, 8)))


def run_split(res, rng, quick):
    contents = [gen_content(rng) for _ in range(400 if quick else 6000)]
    cases, meta = [], []
    if split_helper() is None:
        res.extra.setdefault('skipped', []).append(
            'skipped: helper MIP.mip.datacard.split not present (tie:split); '
            'tie:materials runs the same code through Card.parts and '
            'get_material_composition')
        contents = []
    for content in contents:
        if not ascii_ok(content.replace('\t', ' ')):
            continue
        content = content.replace('\t', ' ')
        out = impl_split(content)
        exp = copt(out, lambda t: cpair(*(cstr(x) for x in t)))
        cases.append(cpair(cstr(content), exp))
        meta.append((content, out))
        res.seen(('content', content), nontrivial=out is not None)
        res.count('split:' + ('nomatch' if out is None else
                              'material' if (out[2] + out[0]).lower() == 'm'
                              else 'other'))
    bad, errs = common.run_case_files(
        'c10_split', HEADER,
        'string * option (string * string * string * string)',
        'check_split', cases)
    res.obligation(f'tie:split ({len(cases)} card contents: model data_split '
                   '= datacard.split)', not bad and not errs,
                   f'{len(bad)} disagreements {errs[:1]}')
    for idx in bad[:5]:
        content, out = meta[idx]
        res.violation('correspondence',
                      f'data_split differs on {content!r}: impl={out}',
                      {'input': {'content': content}, 'observed': out,
                       'theorem_or_correspondence': 'tie:split'},
                      found_input=False)
    # whole data blocks
    cases, meta = [], []
    for _ in range(120 if quick else 2500):
        small = rng.random() < 0.5
        block = [gen_content(rng, small).replace('\t', ' ')
                 for _ in range(rng.randint(0, 6))]
        if rng.random() < 0.7:
            block = [c for c in block if impl_split(c) is not None
                     and not re.fullmatch(r'\s*[mM]', c)]
        out = impl_materials_of_contents(block)
        if out[0] == 'ok':
            exp = '(Ok ' + clist(cpair(cn(k), clist(cstr(t) for t in v))
                                 for k, v in out[1]) + ')'
            # independent expectation of WHICH cards are material cards
            want = {}
            for content in block:
                m = re.match(r'\s*[mM]([0-9]+)(.*)$', content)
                if m and not m.group(2).startswith('*'):
                    want[int(m.group(1))] = m.group(2).split()
            if list(want.items()) != out[1]:
                res.violation(
                    'impl-violation',
                    f'material cards of {block} read as {out[1]}, expected '
                    f'{want}', {'input': {'contents': block},
                                'observed': out[1], 'expected': want},
                    found_input=True)
        else:
            exp = f'(Err {out[1]})'
        cases.append(cpair(clist(cstr(c) for c in block), exp))
        meta.append((block, out))
        res.seen(('block', block), nontrivial=len(block) >= 2)
        res.count('materials:' + (out[1] if out[0] == 'err' else
                                  f'{min(len(out[1]), 4)}'))
        heads = [m.group(1) for m in
                 (re.match(r'\s*[mM]0*([0-9]+)(?![0-9*])', c) for c in block)
                 if m]
        if len(set(heads)) < len(heads):
            res.count('materials:repeated-number')
    bad, errs = common.run_case_files(
        'c10_mats', HEADER, 'list string * res (list (N * list string))',
        'check_materials', cases)
    res.obligation(f'tie:materials ({len(cases)} data blocks: model '
                   'get_materials = get_material_composition)',
                   not bad and not errs,
                   f'{len(bad)} disagreements {errs[:1]}')
    for idx in bad[:5]:
        block, out = meta[idx]
        res.violation('correspondence',
                      f'get_materials differs on {block}: impl={out}',
                      {'input': {'contents': block}, 'observed': out,
                       'theorem_or_correspondence': 'tie:materials'},
                      found_input=False)


def run_cards(res, rng, n_valid, n_bad):
    cards = []
    for i in range(n_valid + n_bad):
        items, fault = gen_card(rng, valid=i < n_valid)
        cards.append((items, fault, tokens_of(items)))
    card_cases, card_meta = [], []
    for items, fault, toks in cards:
        out = impl_card(toks, rng)
        card_cases.append(cpair(clist(cstr(t) for t in toks),
                                coq_card_out(out)))
        card_meta.append((items, fault, toks, out))
        nucs = [it for it in items if 'key' not in it]
        res.seen(toks, nontrivial=len(nucs) >= 2 or fault is not None)
        res.count('fault:' + str(fault))
        res.count('impl:' + (out[1] if out[0] == 'err' else 'ok'))
        res.count(f'nuclides:{min(len(nucs), 10)}{"+" if len(nucs) > 10 else ""}')
        names = [(it['z'], it['a']) for it in nucs]
        if len(set(names)) < len(names):
            res.count('card:repeated-nuclide')
        # property-level oracle on the implementation's own result
        if fault is None:
            spec = read_card_tokens(toks)
            got = (None if out[0] != 'ok' else
                   ([n for n, _ in out[1]], [f for _, f in out[1]], out[2]))
            if spec is None or got != spec:
                res.violation('impl-violation',
                              'composition of a valid card differs from the '
                              f'card: {toks} -> {out}',
                              {'input': {'tokens': toks, 'items': items},
                               'expected': spec, 'observed': out},
                              found_input=True)
        elif fault == 'mixed' and out[0] == 'ok':
            res.violation('impl-violation',
                          f'mixed-sign card accepted: {toks}',
                          {'input': {'tokens': toks}, 'observed': out},
                          found_input=True)
    res.sample({'tokens': card_meta[0][2], 'impl': card_meta[0][3]})
    res.sample({'tokens': card_meta[n_valid][2], 'fault': card_meta[n_valid][1],
                'impl': card_meta[n_valid][3]})
    bad, errs = common.run_case_files(
        'c10_card', HEADER, 'list string * card_out', 'check_card',
        card_cases)
    res.obligation(f'tie:card ({len(card_cases)} cards: model convert_card = '
                   'implementation)', not bad and not errs,
                   f'{len(bad)} disagreements {errs[:1]}')
    for idx in bad[:10]:
        items, fault, toks, out = card_meta[idx]
        model, _ = common.coq_eval(HEADER, 'convert_card '
                                   + clist(cstr(t) for t in toks))
        res.violation('correspondence',
                      f'model and implementation disagree on card {toks}: '
                      f'impl={out} model={model}',
                      {'input': {'tokens': toks},
                       'observed': out, 'model': model,
                       'theorem_or_correspondence': 'tie:card'},
                      found_input=False)


def corner(cells, data):
    return ('C10 corner deck\n' + '\n'.join(cells) + '\n\n1 so 1\n2 so 2\n3 so 3\n\n'
            + '\n'.join(data) + '\n')


# hand-written decks for the error branches and odd cards (tie:text only)
CORNER_DECKS = [
    # all fractions zero at an atom density: ZeroDivisionError
    corner(['1 5 0.1 -1 imp:n=1', '2 0 1 imp:n=0'], ['m5 1001 0 8016 0.0']),
    # ... harmless at a mass density
    corner(['1 5 -1.0 -1 imp:n=1', '2 0 1 imp:n=0'], ['m5 1001 0 8016 0.0']),
    # a fraction that is not a number: ValueError only on the atom-density path
    corner(['1 5 0.1 -1 imp:n=1', '2 0 1 imp:n=0'], ['m5 1001 abc 8016 1']),
    corner(['1 5 -1.0 -1 imp:n=1', '2 0 1 imp:n=0'], ['m5 1001 abc 8016 1']),
    # an m0 card and a live void cell: TypeError
    corner(['1 0 -1 imp:n=1', '2 0 1 imp:n=0'], ['m0 1001 1']),
    # the same number twice: place of the first card, entries of the last
    corner(['1 5 -1.0 -1 imp:n=1', '2 7 -2.0 1 -2 imp:n=1', '3 0 2 imp:n=0'],
           ['m5 1001 1', 'm7 8016 1', 'M05 26000 2 26056 1']),
    # a card without nuclide, a card with keywords only
    corner(['1 5 -1.0 -1 imp:n=1', '2 6 0.1 1 -2 imp:n=1', '3 0 2 imp:n=0'],
           ['m5', 'm6 nlib=70c gas=1']),
    # Python's int() on ZAIDs
    corner(['1 5 -1.0 -1 imp:n=1', '2 0 1 imp:n=0'], ['m5 +92235 1 9_2235 2 1-35 3']),
    corner(['1 5 -1.0 -1 imp:n=1', '2 0 1 imp:n=0'], ['m5 -92235 1']),
    # m alone, a star, a letter glued to the number
    corner(['1 5 -1.0 -1 imp:n=1', '2 0 1 imp:n=0'], ['m5 1001 1', 'm']),
    corner(['1 5 -1.0 -1 imp:n=1', '2 0 1 imp:n=0'], ['m5 1001 1', 'm5* 8016 1', '*m5 8016 1']),
    corner(['1 5 -1.0 -1 imp:n=1', '2 0 1 imp:n=0'], ['m5 1001 1', 'm5x 1']),
    # negative zero density, density spelled with a plus sign
    corner(['1 5 -0.0 -1 imp:n=1', '2 5 +1.0 1 -2 imp:n=1', '3 0 2 imp:n=0'], ['m5 1001 1 8016 2']),
    # one fraction positive zero with negative ones: '-0' counts as negative
    corner(['1 5 -1.0 -1 imp:n=1', '2 0 1 imp:n=0'], ['m5 1001 -0 8016 -1']),
    corner(['1 5 -1.0 -1 imp:n=1', '2 0 1 imp:n=0'], ['m5 1001 0 8016 -1']),
]


OPTION_SETS = [('--always-inline-filling',), ('--skip-deduplication',),
               ('--skip-geomcomp',), ('--skip-boundary-conditions',),
               ('--always-inline-filling', '--skip-deduplication'),
               ('--skip-geomcomp', '--skip-boundary-conditions')]


def conv_error_class(conv):
    if conv.exc == 'ValueError' and 'same sign' in conv.msg:
        return 'EMixedSigns'
    return EXC.get(conv.exc, conv.exc)


def partial_lines(conv):
    '''Lines of the partial file from the newline in front of the last
    COMPOSITION keyword on (a run that failed in the composition path).'''
    text = conv.text or ''
    idx = text.rfind('\nCOMPOSITION\n')
    if idx < 0 or not text.endswith('\n'):
        return ['<no COMPOSITION line>']
    return text[idx:][:-1].split('\n')


def run_decks(res, rng, n_decks):
    text_cases, text_meta = [], []
    partial_cases, partial_meta = [], []
    n_known = {}
    extra = ()
    for text in CORNER_DECKS:
        conv, cap = convert_capture(text)
        res.seen(text)
        res.count('deck:corner:' + (conv.exc or 'ok'))
        if 'cells' not in cap:
            res.violation('correspondence', 'corner deck did not reach '
                          f'writeT4Composition: {conv}',
                          {'input': {'deck': text},
                           'theorem_or_correspondence': 'tie:text'},
                          found_input=False)
            continue
        section = composition_section(conv.text or '') if conv.ok else None
        expected = ('ok', section[:-1].split('\n')) if conv.ok \
            else ('err', conv_error_class(conv))
        case = coq_text_case(cap['cards'], cap['cells'], expected, section)
        if case is not None:
            text_cases.append(case)
            text_meta.append((text, expected))
            if not conv.ok:
                partial_cases.append(cpair(case, clist(
                    cstr(l) for l in partial_lines(conv))))
                partial_meta.append((text, partial_lines(conv)))
    for i in range(n_decks):
        deck = gen_deck(rng)
        broken = None
        if i % 10 == 9:
            # a faulty card somewhere (used or not): the run must fail, the
            # model must fail the same way
            victim = rng.choice(deck['mats'])
            victim['items'], broken = gen_card(rng, valid=False)
        text = render_deck(deck, rng)
        # a third of the decks under an option set: none may change the block
        extra = rng.choice(OPTION_SETS) if rng.random() < 0.34 else ()
        conv, cap = convert_capture(text, extra)
        res.seen((text, extra))
        res.count('options:' + (' '.join(extra) or 'default'))
        res.count('deck:' + ('broken:' + broken if broken else 'valid'))
        for role in deck['roles'].values():
            res.count('role:' + role)
        section = composition_section(conv.text or '') if conv.ok else None
        if broken is None:
            if not conv.ok or section is None:
                res.violation('impl-violation',
                              f'valid deck rejected: {conv.exc}: '
                              f'{conv.msg[:200]}',
                              {'input': {'deck': text, 'args': list(extra)}}, found_input=True)
                continue
            for why, cls in oracle_deck(deck, text, section, conv.text):
                if cls is not None:
                    n_known[cls] = n_known.get(cls, 0) + 1
                    if n_known[cls] > 3:
                        continue
                res.violation('impl-violation', why,
                              {'input': {'deck': text, 'args': list(extra)},
                               'theorem_or_correspondence': 'sweep:decks'},
                              cls=cls, found_input=True)
        elif broken == 'mixed' and conv.ok:
            res.violation('impl-violation',
                          'deck with a mixed-sign material card converted',
                          {'input': {'deck': text, 'args': list(extra)}}, found_input=True)
        if 'cells' not in cap:
            if conv.ok:
                res.violation('correspondence',
                              'writeT4Composition was not called',
                              {'input': {'deck': text, 'args': list(extra)},
                               'theorem_or_correspondence': 'tie:text'},
                              found_input=False)
            continue
        if conv.ok:
            expected = ('ok', section[:-1].split('\n'))
        else:
            expected = ('err', conv_error_class(conv))
        if not all(ascii_ok(c) for c in cap['cards']):
            continue
        case = coq_text_case(cap['cards'], cap['cells'], expected, section)
        if case is None:
            continue
        text_cases.append(case)
        text_meta.append((text, expected))
        if not conv.ok and all(ascii_ok(l) for l in partial_lines(conv)):
            partial_cases.append(cpair(case, clist(
                cstr(l) for l in partial_lines(conv))))
            partial_meta.append((text, partial_lines(conv)))
    if text_meta:
        res.sample({'deck': text_meta[0][0],
                    'composition_lines': text_meta[0][1][1]})
    bad, errs = common.run_case_files('c10_text', HEADER, 'text_case',
                                      'check_text', text_cases, chunk=40)
    res.obligation(f'tie:text ({len(text_cases)} whole conversions: the '
                   'COMPOSITION block byte for byte = model '
                   'composition_lines)', not bad and not errs,
                   f'{len(bad)} disagreements {errs[:1]}')
    for idx in bad[:10]:
        text, expected = text_meta[idx]
        model, _ = common.coq_eval(HEADER, 'model_text ' + text_cases[idx])
        res.violation('correspondence',
                      'COMPOSITION block differs from the model: '
                      f'impl={str(expected)[:300]} model={str(model)[:300]}',
                      {'input': {'deck': text}, 'observed': expected,
                       'model': model,
                       'theorem_or_correspondence': 'tie:text'},
                      found_input=False)
    run_partial(res, partial_cases, partial_meta)


def run_partial(res, partial_cases, partial_meta):
    bad, errs = common.run_case_files('c10_partial', HEADER,
                                      'text_case * list string',
                                      'check_partial', partial_cases, chunk=40)
    res.obligation(f'tie:partial ({len(partial_cases)} runs that fail in the '
                   'composition path: what is left at the end of the file = '
                   'model composition_written)', not bad and not errs,
                   f'{len(bad)} disagreements {errs[:1]}')
    for idx in bad[:5]:
        text, lines = partial_meta[idx]
        res.violation('correspondence',
                      f'partial file ends with {lines[:6]} but the model '
                      'leaves the opening COMPOSITION line only',
                      {'input': {'deck': text}, 'observed': lines,
                       'theorem_or_correspondence': 'tie:partial'},
                      found_input=False)


def replay(path):
    '''Re-run the recorded input through the implementation and the oracle.'''
    data = json.load(open(path))
    inp = data.get('input', {})
    if 'deck' in inp:
        conv, cap = convert_capture(inp['deck'], tuple(inp.get('args', ())))
        print('conversion:', conv)
        print('warnings:', [w for w in conv.warnings if 'unclosed' not in w])
        section = composition_section(conv.text or '')
        print('COMPOSITION section:', repr(section))
        if section is not None:
            try:
                declared, blocks = read_block(section)
                print('declared', declared)
                for blk in blocks:
                    print(' ', blk)
            except ValueError as exc:
                print('cannot be read back:', exc)
        print('independent reading of the cards:',
              {k: read_card_tokens(v)
               for k, v in read_material_cards(inp['deck']).items()})
        if 'cells' in cap:
            expected = ('ok', section[:-1].split('\n')) if conv.ok and section \
                else ('err', conv_error_class(conv))
            case = coq_text_case(cap['cards'], cap['cells'], expected, section)
            if case:
                model, _ = common.coq_eval(HEADER, 'model_text ' + case)
                print('model:', model)
    elif 'tokens' in inp:
        print('implementation:', impl_card(inp['tokens'], random.Random(0)))
        model, _ = common.coq_eval(HEADER, 'convert_card '
                                   + clist(cstr(t) for t in inp['tokens']))
        print('model:', model)
    elif 'content' in inp:
        print('implementation:', impl_split(inp['content']))
        model, _ = common.coq_eval(HEADER, 'data_split ' + cstr(inp['content']))
        print('model:', model)
    elif 'contents' in inp:
        print('implementation:', impl_materials_of_contents(inp['contents']))
        model, _ = common.coq_eval(
            HEADER, 'get_materials ' + clist(cstr(c) for c in inp['contents']))
        print('model:', model)
    print('recorded:', data.get('what'))
    return 0
