'''C14 — output does not depend on MCNP-insignificant formatting.

Theorems: coq/Properties/C14.v.  Ties (correspondence by execution), all
through coq/C14/Exec.v `tied` (function number -> serialised model output):
  exhaustive : every re-implemented regex / str method on ALL strings up to a
               length over a small alphabet (enumerated inside Coq, compared by
               bucketed polynomial fingerprints; a disagreeing bucket is
               expanded into explicit cases)
  lines      : get_cards / block_cards on all sequences of lines from a line
               alphabet
  layout     : blocks, get_cards, content, the three splits, option tokens and
               the whole front end on generated decks under random layouts,
               plus a malformed stream
Independent oracle (sweep): abstract decks rendered canonically and under
random equivalence-preserving layouts; both converted with the real
converter; written files compared after the header.'''
import itertools
import json
import random
import re

import common
import impl
import c14_impl as I
import c14_decks as D
from common import cn, cpair, clist

THEOREMS = ['C14_squeeze_closed_form', 'C14_content_layout',
            'C14_cards_grouping', 'C14_cards_layout',
            'C14_case_invariant_options', 'C14_case_invariant_splits',
            'C14_split_surface', 'C14_split_surface_tr',
            'C14_split_surface_rendered', 'C14_split_data_rendered',
            'C14_blocks_layout', 'C14_blocks_layout_message',
            'C14_split_cell_void', 'C14_split_cell_material',
            'C14_front_layout', 'C14_surface_card_layout',
            'C14_surface_layout_invariant', 'C14_data_card_layout',
            'C14_to_float_spellings', 'C14_front_layout_plain',
            'C14_blocks_layout_any', 'C14_front_metamorphic',
            'C14_front_metamorphic_case', 'C14_surface_metamorphic',
            'C14_split_cell_rendered', 'C14_cell_metamorphic',
            'C14_material_cell_parsed', 'C14_split_likebut',
            'C14_options_trailing_blank', 'C14_shorthand_invariant',
            'C14_shorthand_expected_fits', 'C14_shorthand_expected_overlong_refuted',
            'C14_split_cell_rendered_density', 'C14_split_cell_rendered_like',
            'C14_parse_all_congruence_linked', 'C14_parse_metamorphic_linked',
            'C14_parse_metamorphic_c09_linked', 'C14_message_no_blank_refuted',
            'C14_surface_reader_linked', 'C14_spellings_same_number_linked',
            'C14_shorthand_expected_jim', 'C14_parse_metamorphic_density_linked',
            'C14_decimal_point_same_value_linked']
TRUSTED = [
    'hand-written model coq/C14/Model.v (modelled, tied by execution only); '
    'regexes re-implemented as scanners: tied exhaustively on short strings '
    'over small alphabets, on all short line sequences and on generated decks, '
    'not proved equivalent to the regexes',
    'Python str.split/splitlines/lower and the regex class \\s are modelled on '
    'ASCII only',
    'linked, not re-modelled: the cell parser after cellcard.split (C15\'s '
    'model, environment universally quantified), normalize_float (C09\'s '
    'model), the reader of surface cards incl. what to_float VALUE a token has '
    '(C02\'s model); their own ties are those properties\' trusted base',
    'not modelled and not linked (rewrite sweep only): the geometry parser, '
    'the VALUES of data-card entries (the shorthand model is generic in the '
    'numbers, tied at exact rationals on integer tokens), the LOG shorthand, '
    'everything after parsing, the written file',
    'fingerprints (polynomial hashes mod 2^31-1 on both sides) stand for '
    'equality of the enumerated outputs',
    'harness: deck generator, layout renderer, impl.T4File reader, PEG shim '
    'replacing TatSu',
]
ASSUMPTIONS = [
    'ASCII decks, read in text mode (no \\r reaches the front end; CRLF is in '
    'the sweep corpus only)',
    'content-level functions (splits, option tokens) are modelled on strings '
    'without line breaks, which is what Card.content returns',
    'cell_split: float(t2)==0 is modelled for digit-only material numbers; '
    'other spellings make the model abstain (EUnsupported)',
    'layout theorems: tokens contain no blank, "$" or "&"; the first token of '
    'a line is not a lone "c"/"C"; a card starts with fewer than 5 blank '
    'columns on a line not preceded by an "&" continuation; title and block '
    'lines are non-blank and hold no \\r/\\n; before the options no blank or ")" '
    'is directly followed by a letter or "*" (opt_free); option strings neither '
    'start nor end with a colon (owf) in the linked statements',
    'to_float model: tokens over [0-9 . + - e E d D] (no inf, nan, '
    'underscores, blanks)',
    'only get_cards(skipcomments=True) is modelled (the only mode the '
    'converter uses)',
]
HEADER = ('From Coq Require Import List NArith ZArith Bool String Ascii Uint63.\n'
          'From T4V Require Import Base.Str C14.Model C14.Exec.\n'
          'Import ListNotations.\nOpen Scope string_scope.\n')
FP_TYPE = 'N * string * N * string * string * int'


def cs(s):
    '''Coq term for an ASCII string. Coq's lexer takes every byte 1..127 raw
    inside a string literal (a double quote is doubled); NUL goes through the
    list of codes.'''
    assert all(ord(ch) < 128 for ch in s), repr(s)
    if '\x00' not in s:
        return '"' + s.replace('"', '""') + '"%string'
    return '(S_ [' + '; '.join(str(ord(ch)) for ch in s) + ']%N)'


# ---------------------------------------------------------------------------
# exhaustive domains: (function, alphabet, quick max length, thorough max
# length, [(prefix, suffix)])
# ---------------------------------------------------------------------------
EXHAUSTIVE = [
    ('is_comment', ' \tcCx1', 4, 6, [('', '')]),
    ('is_comment', ' cx', 7, 9, [('', '')]),
    ('has5', ' \tx\x0b', 6, 8, [('', '')]),
    ('amp_cont', ' &$x\t', 5, 7, [('', '')]),
    ('expand_tabs', ' \tx', 8, 10, [('', '')]),
    ('strip_trailer', ' $&x', 5, 7, [('', '')]),
    ('squeeze', ' \tx\n', 6, 8, [('', '')]),
    ('words', ' \tx\ny', 5, 7, [('', '')]),
    ('splitlines', 'a \n\r\x0b', 5, 7, [('', '')]),
    ('lower', ''.join(chr(k) for k in range(128)), 1, 2, [('', ''), ('aZ', '{')]),
    ('blocks', 'a \n', 8, 9, [('', ''), ('message: \n', ''), ('Message:x\n\n', ''),
                              ('t\n', '\n\n')]),
    ('blocks', 'ac \n\t', 5, 7, [('', ''), (' MESSAGE:', '')]),
    ('get_cards', 'c \n&x\t$', 4, 6, [('', ''), ('1', '')]),
    ('get_cards', 'cC \n1', 5, 7, [('', '')]),
    ('block_cards', 'c \n&x\t$', 4, 6, [('', ''), ('1 &\n', '')]),
    ('surf_split', ' 1+*-p/.', 4, 6, [('', ''), ('*1 ', ''), ('1 -2 ', ' 5')]),
    ('data_split', ' *m1.', 5, 7, [('', ''), ('imp:n', '')]),
    ('split_options', ' )a*1(', 5, 7, [('', '')]),
    ('void_split', ' 1(a', 6, 8, [('', '')]),
    ('nonvoid_split', ' 1(a', 6, 8, [('', ''), ('1 1 ', '')]),
    ('likebut_split', ' 1lLikebutBU', 3, 5, [('', ''), ('1 like', ''), ('1 LIKE 2', 'T u=1'),
                                           ('2 like 1 b', '')]),
    ('cell_split', ' 01a(', 5, 7, [('', ''), ('1 0 ', ''), ('1 1 ', ''), ('7 like 1 but', '')]),
    ('cell_split', ' 0)*:i-', 3, 5, [('3 0 -1', ''), ('3 2 -1.0 (1', ''), ('3 00 ', ' imp:n=1')]),
    ('opt_tokens', ' :=(Aa)', 4, 6, [('', ''), ('imp', '1')]),
    ('to_float', '1.+-eEdD', 4, 6, [('', ''), ('1.5', ''), ('-.', '0')]),
    ('to_float', '10.+-d', 5, 7, [('', '')]),
    ('front', 'a \nc', 5, 7, [('t\n', ''), ('t\n1 0 1\n\n', ''), ('message:\n\nt\n', '\n\na')]),
]

# a line alphabet for get_cards / block_cards: all sequences up to a length
LINE_ALPHABET = ['1 x', '     y', 'c k', ' z &', 'w $ &', '& $ r', '\tq', 'C',
                 '    c', 'v & $ r', '    5', '   \t t', 'cx', 'x &  ', '     c u']


BUCKET = 4000       # strings per fingerprint bucket (about)


def exhaustive_cases(tier):
    '''Buckets (name, fid, alphabet, free length, prefix, suffix): all strings
    pre + w + suf with w over the alphabet, |w| <= the tier's maximum; a
    length with more than BUCKET strings is split by leading characters.'''
    out = []
    for name, alpha, nq, nt, fixes in EXHAUSTIVE:
        nmax = nq if tier == 'quick' else nt
        if name == 'front' and not I.front_in_memory():
            continue            # 16 k scratch files: left to the layout tie
        if not I.available(name):
            if name != 'to_float':
                continue        # counted in prepare_exhaustive
            name = 'to_float_accepts'   # public behaviour only: read or ValueError
        fid = I.FID[name]
        for pre, suf in fixes:
            for n in range(0, nmax + 1):
                k = 0
                while len(alpha) ** (n - k) > BUCKET and k < n:
                    k += 1
                for head in itertools.product(alpha, repeat=k):
                    out.append((name, fid, alpha, n - k, pre + ''.join(head), suf))
    return out


def prepare_exhaustive(res, tier):
    buckets = exhaustive_cases(tier)
    cases, total = [], 0
    for name in sorted({e[0] for e in EXHAUSTIVE}):
        if not I.available(name):
            res.count('exhaustive:skipped (internal name gone):' + name)
    for name, fid, alpha, n, pre, suf in buckets:
        if name in I.SKIPPED:
            continue
        try:
            fp = I.fingerprint(fid, alpha, n, pre, suf)
        except I.TooManyHangs:
            raise
        except Exception as exc:        # pylint: disable=broad-except
            if name in I.REQUIRES or name in I.PROBES:
                # a helper-level observer stopped working half-way: skip it
                I.SKIPPED[name] = f'observer raised {exc!r}'
                res.count('exhaustive:skipped (observer failed):' + name)
                continue
            raise
        total += len(alpha) ** n
        cases.append(cpair(cn(fid), cs(alpha), cn(n), cs(pre), cs(suf), f'{fp}%uint63'))
        res.count('exhaustive:' + name, len(alpha) ** n)
    res.evaluations += total

    def job():
        return common.run_case_files('c14_fp', HEADER, FP_TYPE, 'check_fp',
                                     cases, chunk=max(4, len(cases) // 24),
                                     jobs=JOBS)

    def finish(result):
        bad, errs = result
        res.obligation(f'tie:exhaustive ({total} strings in {len(cases)} buckets, '
                       f'{len(EXHAUSTIVE)} domains: model = implementation by '
                       'fingerprint)', not bad and not errs,
                       f'{len(bad)} buckets disagree {errs[:1]}')
        # expand disagreeing buckets into explicit cases to name the inputs
        for idx in bad[:4]:
            name, fid, alpha, n, pre, suf = buckets[idx]
            inputs = [pre + ''.join(t) + suf
                      for t in itertools.product(alpha, repeat=n)][:6000]
            explicit = [(fid, s, I.FUNS[fid][1](s)) for s in inputs]
            bad2 = run_explicit(f'c14_fpx{idx}', explicit)
            if not bad2:
                res.violation('correspondence',
                              f'fingerprint of {name} over {alpha!r}^{n} differs '
                              'but no single input was isolated',
                              {'theorem_or_correspondence': 'tie:exhaustive',
                               'function': name, 'alphabet': alpha, 'n': n,
                               'prefix': pre, 'suffix': suf}, found_input=False)
            for k in bad2[:3]:
                report_disagreement(res, 'tie:exhaustive', *explicit[k])
    return job, finish


JOBS = 8


HASHED = {21}      # functions with long outputs: compared by hash


def run_explicit(name, triples, chunk=400):
    '''Indices of the triples (function, input, output of the implementation)
    on which the model answers differently.'''
    plain = [k for k, t in enumerate(triples) if t[0] not in HASHED]
    hashed = [k for k, t in enumerate(triples) if t[0] in HASHED]
    bad = []
    for idx, ctype, fun, render in (
            (plain, 'N * string * string', 'check_ser', cs),
            (hashed, 'N * string * int', 'check_hash',
             lambda out: f'{I.hstr(out, 7)}%uint63')):
        if not idx:
            continue
        cases = [cpair(cn(triples[k][0]), cs(triples[k][1]), render(triples[k][2]))
                 for k in idx]
        sub, errs = common.run_case_files(name + fun[-4:], HEADER, ctype, fun,
                                          cases, chunk=chunk, jobs=JOBS)
        if errs:
            raise RuntimeError('generated case file failed: ' + errs[0][-800:])
        bad += [idx[k] for k in sub]
    return sorted(bad)


def report_disagreement(res, tie, fid, inp, out):
    name = I.FUNS[fid][0]
    model, _ = common.coq_eval(HEADER, f'tied {fid}%N {cs(inp)}')
    res.violation('correspondence',
                  f'{name}: model and implementation disagree on {inp!r}: '
                  f'impl={out!r} model={model}',
                  {'input': {'function': name, 'fid': fid, 'text': inp},
                   'observed': out, 'model': model,
                   'theorem_or_correspondence': tie}, found_input=False)


def prepare_lines(res, tier):
    '''All sequences of lines from LINE_ALPHABET (get_cards, block_cards),
    enumerated on both sides and compared by fingerprint, one bucket per
    (function, length, first line).'''
    nmax = 4 if tier == 'quick' else 5
    buckets, cases = [], []
    for name in ('get_cards', 'block_cards'):
        fid = I.FID[name]
        fun = I.FUNS[fid][1]
        for n in range(1, nmax + 1):
            for first in LINE_ALPHABET:
                pre = first + '\n'
                acc = 0
                for seq in itertools.product(LINE_ALPHABET, repeat=n - 1):
                    text = pre + ''.join(l + '\n' for l in seq)
                    acc = (acc * 1000003 + I.hstr(fun(text), I.hstr(text, 7))) % I.MODULUS
                buckets.append((fid, n - 1, pre))
                cases.append(cpair(cn(fid), clist(cs(l) for l in LINE_ALPHABET),
                                   cn(n - 1), cs(pre), f'{acc}%uint63'))
    total = sum(len(LINE_ALPHABET) ** n for n in range(1, nmax + 1))
    res.count('lines:sequences', total)
    res.evaluations += 2 * total

    def job():
        return common.run_case_files(
            'c14_lines', HEADER, 'N * list string * N * string * int',
            'check_fp_lines', cases, chunk=max(4, len(cases) // 12), jobs=JOBS)

    def finish(result):
        bad, errs = result
        res.obligation(f'tie:lines (get_cards and block_cards on all {total} '
                       f'sequences of <= {nmax} lines from a '
                       f'{len(LINE_ALPHABET)}-line alphabet, by fingerprint)',
                       not bad and not errs,
                       f'{len(bad)} buckets disagree {errs[:1]}')
        for idx in bad[:3]:
            fid, n, pre = buckets[idx]
            explicit = []
            for seq in itertools.islice(itertools.product(LINE_ALPHABET, repeat=n), 3000):
                text = pre + ''.join(l + '\n' for l in seq)
                explicit.append((fid, text, I.FUNS[fid][1](text)))
            bad2 = run_explicit(f'c14_linesx{idx}', explicit)
            if not bad2:
                res.violation('correspondence',
                              f'fingerprint of {I.FUNS[fid][0]} over line sequences '
                              f'behind {pre!r} differs but no single input was isolated',
                              {'theorem_or_correspondence': 'tie:lines',
                               'prefix': pre, 'n': n}, found_input=False)
            for k in bad2[:3]:
                report_disagreement(res, 'tie:lines', *explicit[k])
    return job, finish


EXPAND_ALPHABET = ['1', '2', '-3', '0', 'r', '2r', '3R', 'i', '2i', '1I', '3m', '2M',
                   'm', 'j', '2J', 'x', '12', '0r', '0J']


def prepare_expand(res, tier):
    '''expand_data_card (nR nI xM nJ) on all token sequences up to a length
    from EXPAND_ALPHABET, with and without an expected count; values compared
    as exact fractions, by fingerprint.'''
    nmax = 4 if tier == 'quick' else 5
    cases, buckets, total = [], [], 0
    for expected in (None, 2, 4):
        top = nmax if expected is None else nmax - 1
        for n in range(0, top + 1):
            firsts = [[]] if n < 3 else [[t] for t in EXPAND_ALPHABET]
            for pre in firsts:
                free = n - len(pre)
                acc = 0
                for seq in itertools.product(EXPAND_ALPHABET, repeat=free):
                    toks = pre + list(seq)
                    out = I.f_expand(toks, expected)
                    acc = (acc * 1000003 + I.hstr(out, I.hstr(' '.join(toks), 7))) % I.MODULUS
                    total += 1
                buckets.append((expected, free, pre))
                cases.append(cpair(clist(cs(t) for t in EXPAND_ALPHABET), cn(free),
                                   clist(cs(t) for t in pre),
                                   common.copt(expected, cn), f'{acc}%uint63'))
    res.count('expand:sequences', total)
    res.evaluations += total

    def job():
        return common.run_case_files(
            'c14_expand', HEADER, 'list string * N * list string * option N * int',
            'check_fp_expand', cases, chunk=max(4, len(cases) // 12), jobs=JOBS)

    def finish(result):
        bad, errs = result
        res.obligation(f'tie:expand (expand_data_card on all {total} token '
                       f'sequences of <= {nmax} entries from a '
                       f'{len(EXPAND_ALPHABET)}-token alphabet, expected in '
                       '{None, 2, 4}, exact fractions, by fingerprint)',
                       not bad and not errs, f'{len(bad)} buckets disagree {errs[:1]}')
        for idx in bad[:3]:
            expected, free, pre = buckets[idx]
            explicit = []
            for seq in itertools.islice(itertools.product(EXPAND_ALPHABET, repeat=free), 3000):
                toks = pre + list(seq)
                explicit.append((expected, toks, I.f_expand(toks, expected)))
            ecases = [cpair(common.copt(e, cn), clist(cs(t) for t in toks), cs(out))
                      for e, toks, out in explicit]
            bad2, errs2 = common.run_case_files(
                f'c14_expandx{idx}', HEADER, 'option N * list string * string',
                'check_expand', ecases, chunk=400, jobs=JOBS)
            if errs2:
                raise RuntimeError(errs2[0][-600:])
            for k in bad2[:3]:
                e, toks, out = explicit[k]
                model, _ = common.coq_eval(
                    HEADER, f'expand_q {common.copt(e, lambda v: f"{v}%nat")} '
                    + clist(cs(t) for t in toks))
                res.violation('correspondence',
                              f'expand_data_card: model and implementation disagree '
                              f'on {toks} expected={e}: impl={out!r} model={model}',
                              {'input': {'tokens': toks, 'expected': e},
                               'observed': out, 'model': model,
                               'theorem_or_correspondence': 'tie:expand'},
                              found_input=False)
            if not bad2:
                res.violation('correspondence', 'fingerprint of expand_data_card '
                              f'behind {pre} differs but no single input was isolated',
                              {'theorem_or_correspondence': 'tie:expand'},
                              found_input=False)
    return job, finish


# ---------------------------------------------------------------------------
# layout tie on generated decks
# ---------------------------------------------------------------------------

def malform(rng, text):
    '''Damage a deck text: the front end must still agree with the model.'''
    kind = rng.choice(['dropblank', 'addblank', 'cut', 'dollar', 'amp',
                       'comment', 'notitle', 'tabs', 'spurious'])
    lines = text.split('\n')
    k = rng.randrange(len(lines))
    if kind == 'dropblank':
        blanks = [i for i, l in enumerate(lines) if not l.strip()]
        if blanks:
            del lines[rng.choice(blanks)]
    elif kind == 'addblank':
        lines.insert(k, rng.choice(['', '  ', '\t']))
    elif kind == 'cut':
        lines = lines[:k]
    elif kind == 'dollar':
        lines[k] = lines[k][:rng.randrange(len(lines[k]) + 1)] + '$' + lines[k]
    elif kind == 'amp':
        lines[k] = lines[k] + rng.choice([' &', '&', ' & x', ' &  $ y'])
    elif kind == 'comment':
        lines.insert(k, rng.choice(['c', 'cc', '     c', ' c\tx', 'C$']))
    elif kind == 'notitle':
        lines = lines[1:]
    elif kind == 'tabs':
        lines[k] = lines[k].replace(' ', '\t', rng.randint(1, 3))
    elif kind == 'spurious':
        lines.append('')
        lines.append('junk 1 2')
    return '\n'.join(lines), kind


def prepare_layout(res, tier, rng):
    n_decks = 24 if tier == 'quick' else 200
    triples, meta = [], []

    def add(name, inp, nontrivial=True):
        fid = I.FID[name]
        out = I.FUNS[fid][1](inp)
        triples.append((fid, inp, out))
        res.count('layout:' + name)
        if out.startswith(I.SEP4):
            res.count('layout:' + name + ':' + out[1:].split(I.SEP2)[0])
        res.seen((name, inp), nontrivial=nontrivial)
        return out

    for k in range(n_decks):
        deck = D.gen_deck(rng)
        texts = [D.render(deck, None)]
        for _ in range(2):
            texts.append(D.render(deck, D.Layout(rng, numbers=False)))
        bad_texts = []
        for _ in range(3 if tier == 'quick' else 6):
            bad_text, kind = malform(rng, rng.choice(texts))
            res.count('layout:malformed:' + kind)
            bad_texts.append(bad_text)
        for text in texts + bad_texts:
            add('front_all', text)
            out = I.f_front(text)
            if I.f_front_file(text) != out:
                res.violation('correspondence', 'MIP(file).cards differs from '
                              'the same calls on the text held in memory',
                              {'input': {'function': 'front', 'fid': 20,
                                         'text': text},
                               'theorem_or_correspondence': 'tie:layout'},
                              found_input=False)
            # card level on each block of the real splitter
            from MIP.mip.blocks import get_block_positions
            try:
                with I.time_limit(3):
                    dres = get_block_positions(text)
            except (ValueError, IndexError):
                continue
            except I.ImplHang:
                I.note_hang(('get_block_positions', text[:200]))
                continue
            for key, split in (('c', 'cell_split'), ('s', 'surf_split'),
                               ('d', 'data_split')):
                if key not in dres:
                    continue
                block = text[slice(*dres[key][0])]
                from MIP.mip.main import Card
                from MIP.mip.cards import get_cards
                for lines, _, _ in get_cards(block, skipcomments=True):
                    content = Card(lines=lines).content()
                    out = add(split, content)
                    if split == 'cell_split' and not out.startswith(I.SEP4) \
                            and I.available('opt_tokens'):
                        add('opt_tokens', out.split(I.SEP1)[3])
    if triples:
        res.sample({'function': I.FUNS[triples[0][0]][0],
                    'text': triples[0][1], 'impl': triples[0][2]})
    # distinct cases only
    uniq = list(dict.fromkeys(triples))

    def job():
        return run_explicit('c14_layout', uniq, chunk=300)

    def finish(bad):
        res.obligation(f'tie:layout ({len(uniq)} distinct calls on {n_decks} '
                       'decks x 3 layouts + 3 (thorough 6) malformed: blocks, get_cards, '
                       'splits, option tokens, front)', not bad,
                       f'{len(bad)} disagreements')
        for k in bad[:8]:
            report_disagreement(res, 'tie:layout', *uniq[k])
    return job, finish


# ---------------------------------------------------------------------------
# sweep: the property itself on the converter
# ---------------------------------------------------------------------------

def body(text):
    '''Written file after the three header comment lines.'''
    return '\n'.join(text.split('\n')[3:])


def outcome(conv):
    if conv.ok and conv.text is not None:
        return ('ok', body(conv.text))
    return ('err', conv.exc)


class _Hung:
    ok, exc, msg, text = False, 'Hang', 'the conversion did not finish', None


def convert(text, args=()):
    '''impl.convert under a time limit (a front end that stops advancing must
    be reported, not hang the check).'''
    try:
        with I.time_limit(30):
            conv = impl.convert(text, args, keep_stdout=False)
    except I.ImplHang:
        conv = _Hung()
    if conv.exc in ('Hang', 'ImplHang'):    # impl.convert may catch it itself
        I.note_hang(('convert', text[:200]))
        return _Hung()
    return conv


def fortran_only(tok):
    '''A number spelling Fortran reads and Python's float() does not.'''
    try:
        float(tok)
        return False
    except ValueError:
        pass
    try:
        impl.mcnp_float(tok)
        return True
    except ValueError:
        return False


def known_class(base_text, text, base, new, msg):
    '''Narrow class of the open finding message_block_no_blank_after_colon:
    the rewrite is the original text behind ONE extra block "message:<word>..."
    (no blank after the colon) and a blank line, the original converts, the
    rewrite dies in get_block_positions (ValueError, spurious blank lines).'''
    if base[0] != 'ok' or new != ('err', 'ValueError'):
        return None
    if 'spurious blank lines' not in msg or not text.endswith(base_text):
        return None
    head = text[:len(text) - len(base_text)]
    if re.fullmatch(r'message:\S[^\n]*\n(?: {5,}\S[^\n]*\n)*[ \t]*\n', head, flags=re.I):
        return 'message_block_no_blank_after_colon'
    return None


def compare(base_text, base, text, desc, numbers, res, args=()):
    conv = convert(text, args)
    new = outcome(conv)
    if new == base:
        return True
    if base[0] == 'ok' and new[0] == 'ok' and numbers:
        # number respellings may change the spelling of written numbers and
        # the names of compositions: compare the abstract content
        if D.canonical(base[1]) == D.canonical(new[1]):
            return True
    cls = known_class(base_text, text, base, new, conv.msg)
    what = (f'rewrite [{", ".join(desc["used"])}] changes the output: '
            + (f'conversion fails with {new[1]}: {conv.msg[:120]}' if new[0] == 'err'
               else ('converted file differs' if base[0] == 'ok' else
                     f'conversion succeeds, original fails with {base[1]}')))
    res.violation('impl-violation', what,
                  {'input': {'deck': base_text, 'rewrite': text,
                             'args': list(args), 'layout': desc},
                   'expected': base[1][:2000] if base[0] == 'ok' else base,
                   'observed': new[1][:2000] if new[0] == 'ok' else new},
                  cls=cls, found_input=True)
    return False


def run_sweep(res, tier, rng):
    n_decks = 200 if tier == 'quick' else 1800
    n_rewrites = 6
    n_ok = n_fail = 0
    for k in range(n_decks):
        deck = D.gen_deck(rng)
        base_text = D.render(deck, None)
        args = D.lattice_args(deck)
        base = outcome(convert(base_text, args))
        if base == ('err', 'Hang'):
            res.violation('impl-violation', 'the conversion of a generated deck '
                          'does not finish',
                          {'input': {'deck': base_text, 'rewrite': base_text,
                                     'args': list(args)}}, found_input=True)
        res.count('sweep:base:' + (base[0] if base[0] == 'ok' else str(base[1])))
        for feat in D.features(deck):
            res.count('sweep:deck:' + feat)
        if base[0] == 'ok':
            n_ok += 1
        else:
            n_fail += 1
        for j in range(n_rewrites):
            layout = D.Layout(rng, numbers=(j % 2 == 1))
            text = D.render(deck, layout)
            res.seen(text, nontrivial=text != base_text)
            for used in layout.describe()['used']:
                res.count('sweep:rewrite:' + used)
            compare(base_text, base, text, layout.describe(), layout.numbers,
                    res, args)
        if k == 0:
            res.sample({'deck': base_text, 'rewrite': text})
        # separate, labelled stream (open finding): the canonical text behind
        # a message block whose first word goes on after the colon
        if base[0] == 'ok' and k % 8 == 0:
            text = rng.choice(['message:outp=x', 'MESSAGE:o=x r=y', 'Message:xsdir=a\n     outp=b']) \
                + '\n' + rng.choice(['', ' ', '\t']) + '\n' + base_text
            res.seen(text)
            res.count('sweep:stream:message_without_blank')
            compare(base_text, base, text,
                    {'used': ['message block without blank after the colon'],
                     'stream': 'message_without_blank'}, False, res, args)
    res.obligation(f'sweep: {n_decks} decks x {n_rewrites} random layouts, '
                   f'{n_ok} converted, '
                   f'{n_fail} rejected (the rewrite must be rejected the same '
                   'way)', n_ok > n_fail, 'most generated decks must convert')


# ---------------------------------------------------------------------------
# known findings
# ---------------------------------------------------------------------------
WITNESS_BASE = ('{pre}witness\n1 1 {rho} -1 imp:n={i}\n2 0 1 -2 fill=1 ({x} 0 0) imp:n=1\n'
                '3 0 -3 u=1 imp:n=1\n4 0 3 u=1 imp:n=1\n5 0 2 imp:n=0\n\n'
                '1 1 so {r}\n2 so 9.0\n3 so 1.0\n\ntr1 {t} 0 0\nm1 1001 2 8016 {f}\n')
WITNESS_DEFAULT = dict(rho='-1.0', r='5.0', t='1.0', f='1.0', x='1.0', i='1', pre='')
WITNESSES = [
    # open: message block whose first word goes on after the colon
    ('message:outp=x', dict(pre='message:outp=x\n\n')),
    ('MESSAGE:OUTP=x and a continuation line', dict(pre='MESSAGE:OUTP=x\n     runtpe=r\n \n')),
    ('message: outp=x (with the blank: recognised)', dict(pre='message: outp=x\n\n')),
    # repaired in /repo a161adb (to_float in parse_keywords)
    ('IMP:N=1.0+0 on a cell card', dict(i='1.0+0')),
    ('IMP:N=.1d1 on a cell card', dict(i='.1d1')),
    # repaired in /repo ffaf98c (MIP.mip.datacard.to_float)
    ('SO 5.0+0', dict(r='5.0+0')),
    ('TR1 1.0+0 0 0', dict(t='1.0+0')),
    ('SO 5.0d0', dict(r='5.0d0')),
    ('SO .5D+1', dict(r='.5D+1')),
    ('FILL=1 (1.0+0 0 0)', dict(x='1.0+0')),
    ('density -1.0+0', dict(rho='-1.0+0')),
    ('density -1.0e0', dict(rho='-1.0e0')),
    ('fraction 1.0d0', dict(f='1.0d0')),
]


def run_witnesses(res):
    base_text = WITNESS_BASE.format(**WITNESS_DEFAULT)
    base = outcome(convert(base_text))
    if base[0] != 'ok':
        res.violation('impl-violation', 'the witness deck no longer converts: '
                      + str(base[1]),
                      {'input': {'deck': base_text, 'rewrite': base_text}},
                      found_input=True)
    for label, fields in WITNESSES:
        text = WITNESS_BASE.format(**dict(WITNESS_DEFAULT, **fields))
        res.seen(text)
        ok = compare(base_text, base, text,
                     {'used': ['number respelling ' + label], 'stream': 'witness'},
                     True, res)
        res.count('witness:' + label + (':same' if ok else ':differs'))


# corpus: hand-written rewrites of one deck, each of a kind the generators
# also produce, kept as fixed regression cases (all must leave the output
# unchanged)
CORPUS_BASE = ('''corpus
1 1 -1.0 -1 imp:n=1
2 0 1 -2 fill=1 (1 0 0) imp:n=1
3 0 -3 u=1 imp:n=1
4 0 3 u=1 imp:n=1
5 0 2 imp:n=0

1 so 5.0
2 so 9.0
3 so 1.0

m1 1001 2 8016 1.0
''')
CORPUS = [
    ('message block', lambda t: 'message: outp=x\n\n' + t),
    ('message block, upper case, two lines', lambda t: 'MESSAGE: outp=x\n     runtpe=r\n\n' + t),
    ('upper case', lambda t: t.upper()),
    ('equal signs dropped', lambda t: t.replace('imp:n=1', 'imp:n 1').replace('u=1', 'u 1').replace('fill=1', 'fill 1')),
    ('blanks around equal signs', lambda t: t.replace('imp:n=1', 'imp:n = 1').replace('u=1', 'u = 1')),
    ('blanks around the colon of imp:n', lambda t: t.replace('imp:n=1', 'imp : n=1')),
    ('& then comment line then continuation', lambda t: t.replace('1 so 5.0', '1 so &\nc hello\n5.0')),
    ('two & continuations with a comment between', lambda t: t.replace('1 1 -1.0 -1 imp:n=1', '1 1 -1.0 &\nc x\n -1 &\nimp:n=1')),
    ('density 1.0d0', lambda t: t.replace('-1.0 -1', '-1.0d0 -1')),
    ('density -10.0-1', lambda t: t.replace('-1.0 -1', '-10.0-1 -1')),
    ('density -1.00e0', lambda t: t.replace('-1.0 -1', '-1.00e0 -1')),
    ('density -.1+1', lambda t: t.replace('-1.0 -1', '-.1+1 -1')),
    ('fraction 1.0+0', lambda t: t.replace('8016 1.0', '8016 1.0+0')),
    ('fraction .10d1', lambda t: t.replace('8016 1.0', '8016 .10d1')),
    ('material number 01', lambda t: t.replace('1 1 -1.0', '1 01 -1.0')),
    ('tab continuation', lambda t: t.replace('1 so 5.0', '1 so\n\t5.0')),
    ('4 blanks + tab continuation', lambda t: t.replace('1 so 5.0', '1 so\n    \t5.0')),
    ('$ trailer', lambda t: t.replace('1 so 5.0', '1 so 5.0 $ 7')),
    ('$ trailer without blank', lambda t: t.replace('1 so 5.0', '1 so 5.0$ 7')),
    ('$ trailer holding an &', lambda t: t.replace('1 so 5.0', '1 so 5.0 $ 7 &')),
    ('comment inside a card', lambda t: t.replace('1 so 5.0', '1 so\nc 9\n     5.0')),
    ('bare C comment inside a card', lambda t: t.replace('1 so 5.0', '1 so\nC\n     5.0')),
    ('indented surface card', lambda t: t.replace('1 so 5.0', '    1 so 5.0')),
    ('indented cell card', lambda t: t.replace('1 1 -1.0', '   1 1 -1.0')),
    ('indented data card', lambda t: t.replace('m1 1001', '  m1 1001')),
    ('CRLF line ends', lambda t: t.replace('\n', '\r\n')),
    ('blanks on the delimiter lines', lambda t: t.replace('\n\n', '\n   \n')),
    ('two blank delimiter lines... only at the end', lambda t: t + '\n\n'),
    ('blanks inside the parentheses', lambda t: t.replace('(1 0 0)', '( 1 0 0 )')),
    ('no blank before the parenthesis', lambda t: t.replace('fill=1 (1 0 0)', 'fill=1(1 0 0)')),
    ('IMP data card', lambda t: t.replace(' imp:n=1', '').replace(' imp:n=0', '') + 'imp:n 1 1 1 1 0\n'),
    ('IMP data card 3r', lambda t: t.replace(' imp:n=1', '').replace(' imp:n=0', '') + 'imp:n 1 3r 0\n'),
    ('IMP data card R R R upper case', lambda t: t.replace(' imp:n=1', '').replace(' imp:n=0', '') + 'IMP:N 1 R R R 0\n'),
    ('IMP data card 1 2i 1 0 -- constant interpolation', lambda t: t.replace(' imp:n=1', '').replace(' imp:n=0', '') + 'imp:n 1 2i 1 0\n'),
    ('IMP data card 1 1 2 1i 0 -- interpolated descent into the zero (mutation M17)',
     lambda t: t.replace(' imp:n=1', '').replace(' imp:n=0', '') + 'imp:n 1 1 2 1i 0\n'),
    ('IMP data card 1 r 2r 0 -- bare r (mutation M13)',
     lambda t: t.replace(' imp:n=1', '').replace(' imp:n=0', '') + 'imp:n 1 r 2r 0\n'),
    ('upper-case M card', lambda t: t.replace('m1 1001', 'M1 1001')),
    ('blanks around the union colon', lambda t: t.replace('5 0 2 imp', '5 0 2 : 2 imp')),
    ('explicit plus sign', lambda t: t.replace('5 0 2 imp', '5 0 +2 imp')),
    ('surface parameter 5.', lambda t: t.replace('1 so 5.0', '1 so 5.')),
    ('surface parameter 0.5e1', lambda t: t.replace('1 so 5.0', '1 so 0.5e1')),
    ('surface parameter +5.0', lambda t: t.replace('1 so 5.0', '1 so +5.0')),
]


# second corpus deck: two cells of the same material and density (seeded change
# C14_B: compositions keyed on the value, associations on the spelling)
CORPUS2_BASE = ('''corpus two cells\n1 1 -2.7 -1 imp:n=1\n2 1 -2.7 1 -2 imp:n=1\n3 0 2 imp:n=0\n\n'''
                '''1 so 5.0\n2 so 9.0\n\nm1 13027 1.0\n''')
CORPUS2 = [
    ('second density -2.7e0', lambda t: t.replace('2 1 -2.7 ', '2 1 -2.7e0 ')),
    ('second density -27.-1', lambda t: t.replace('2 1 -2.7 ', '2 1 -27.-1 ')),
    ('second density -.27d1', lambda t: t.replace('2 1 -2.7 ', '2 1 -.27d1 ')),
    ('first density -2.70, second -2.7+0', lambda t: t.replace('1 1 -2.7 ', '1 1 -2.70 ').replace('2 1 -2.7 ', '2 1 -2.7+0 ')),
]


# third and fourth corpus decks: a lattice FILL array followed by more keywords
# (seeded change C14_E: tokens consumed by the shorthand) and LIKE n BUT RHO=
# (seeded change C14_F: density of the BUT part not normalised)
CORPUS3_BASE = ('''corpus lattice\n80 0 -87 fill=3 imp:n=1\n'''
                '''81 0 -81 82 -83 84 lat=1 u=3 fill=0:1 0:1 0:0 4 4 4 5 imp:n=1\n'''
                '''82 1 -1.0 -85 u=4 imp:n=1\n83 0 85 u=4 imp:n=1\n'''
                '''84 1 -2.0 -86 u=5 imp:n=1\n85 0 86 u=5 imp:n=1\n86 0 87 imp:n=0\n\n'''
                '''81 px 1.0\n82 px -1.0\n83 py 1.0\n84 py -1.0\n85 so 0.5\n86 so 0.25\n'''
                '''87 rpp -1.0 3.0 -1.0 3.0 -5.0 5.0\n\nm1 1001 1.0\n''')
CORPUS3 = [
    ('FILL array 4 2r 5 followed by imp:n', lambda t: t.replace('0:0 4 4 4 5 imp', '0:0 4 2r 5 imp')),
    ('FILL array 4 2R 5, then u= and lat= after it',
     lambda t: t.replace('lat=1 u=3 fill=0:1 0:1 0:0 4 4 4 5 imp:n=1',
                         'fill=0:1 0:1 0:0 4 2R 5 lat=1 u=3 imp:n=1')),
    ('FILL array 4 r r 5', lambda t: t.replace('0:0 4 4 4 5 imp', '0:0 4 r r 5 imp')),
]
CORPUS4_BASE = ('''corpus like but rho\n1 1 -1.0 -1 imp:n=1\n'''
                '''2 like 1 but trcl=(20 0 0) rho=-2.7 imp:n=1\n'''
                '''3 0 1 #2 -2 imp:n=1\n4 0 2 imp:n=0\n\n1 so 5.0\n2 so 50.0\n\nm1 13027 1.0\n''')
CORPUS4 = [
    ('rho=-2.70', lambda t: t.replace('rho=-2.7 ', 'rho=-2.70 ')),
    ('RHO=-2.7D+0', lambda t: t.replace('rho=-2.7 ', 'RHO=-2.7D+0 ')),
    ('rho=-.27+1', lambda t: t.replace('rho=-2.7 ', 'rho=-.27+1 ')),
    ('rho -2.700e0 (no equal sign)', lambda t: t.replace('rho=-2.7 ', 'rho -2.700e0 ')),
]


# fifth and sixth corpus decks: a shorthand entry DIRECTLY AFTER the closing
# value of an interpolation (seeded change C14_H: stale reference entry), in a
# FILL array, on an IMP data card and on a TR card
CORPUS5_BASE = ('''corpus lattice three fillers\n80 0 -87 fill=3 imp:n=1\n'''
                '''81 0 -81 82 -83 84 lat=1 u=3 fill=0:1 0:1 0:0 4 5 6 6 imp:n=1\n'''
                '''82 1 -1.0 -85 u=4 imp:n=1\n83 0 85 u=4 imp:n=1\n'''
                '''84 1 -2.0 -86 u=5 imp:n=1\n85 0 86 u=5 imp:n=1\n'''
                '''88 1 -3.0 -88 u=6 imp:n=1\n89 0 88 u=6 imp:n=1\n86 0 87 imp:n=0\n\n'''
                '''81 px 1.0\n82 px -1.0\n83 py 1.0\n84 py -1.0\n85 so 0.5\n86 so 0.25\n88 so 0.75\n'''
                '''87 rpp -1.0 3.0 -1.0 3.0 -5.0 5.0\n\nm1 1001 1.0\n''')
CORPUS5 = [
    ('FILL array 4 1i 6 r', lambda t: t.replace('0:0 4 5 6 6 imp', '0:0 4 1i 6 r imp')),
    ('FILL array 4 I 6 R', lambda t: t.replace('0:0 4 5 6 6 imp', '0:0 4 I 6 R imp')),
    ('FILL array 4 1i 6 1r, u and lat behind it',
     lambda t: t.replace('lat=1 u=3 fill=0:1 0:1 0:0 4 5 6 6 imp:n=1',
                         'fill=0:1 0:1 0:0 4 1i 6 1r lat=1 u=3 imp:n=1')),
]
CORPUS6_BASE = ('''corpus imp and tr after interpolation\n1 1 -1.0 -1\n2 0 1 -2\n3 0 2 -3\n'''
                '''4 0 3 -4\n5 0 4\n6 0 -5\n\n1 1 so 1.0\n2 so 2.0\n3 so 3.0\n4 so 4.0\n5 so 9.0\n\n'''
                '''imp:n 1 1 2 1 0 0\ntr1 0 1 2 2 0 0 0 1 0 0 0 1\nm1 1001 1.0\n''')
CORPUS6 = [
    ('imp:n 1 1 2 1i 0 r', lambda t: t.replace('imp:n 1 1 2 1 0 0', 'imp:n 1 1 2 1i 0 r')),
    ('imp:n 1 r 2 I 0 R', lambda t: t.replace('imp:n 1 1 2 1 0 0', 'IMP:N 1 r 2 I 0 R')),
    ('imp:n 1.0 1 2 1 0 0 -- first entry with a fraction (seeded change C14_G)',
     lambda t: t.replace('imp:n 1 1 2 1 0 0', 'imp:n 1.0 1 2 1 0 0')),
    ('imp:n 1.00e0 1. 2 1 0 0', lambda t: t.replace('imp:n 1 1 2 1 0 0', 'imp:n 1.00e0 1. 2 1 0 0')),
    ('tr1 0 1i 2 r ...', lambda t: t.replace('tr1 0 1 2 2 0 0', 'tr1 0 1i 2 r 0 0')),
    ('tr1 0 1i 2 r 0 2i 1 (interpolation after interpolation)',
     lambda t: t.replace('tr1 0 1 2 2 0 0 0 1 0', 'tr1 0 1i 2 r 0 2i 1 0')),
]


def run_corpus(res):
    for tag, base_text, cases in (('corpus3', CORPUS3_BASE, CORPUS3),
                                  ('corpus4', CORPUS4_BASE, CORPUS4),
                                  ('corpus5', CORPUS5_BASE, CORPUS5),
                                  ('corpus6', CORPUS6_BASE, CORPUS6)):
        base_n = outcome(convert(base_text))
        res.count(tag + ':base:' + str(base_n[0]))
        for label, rewrite in cases:
            text = rewrite(base_text)
            assert text != base_text, label
            res.seen(text)
            ok = compare(base_text, base_n, text,
                         {'used': ['corpus: ' + label], 'stream': 'corpus'}, True, res)
            res.count(tag + ':' + ('same' if ok else 'differs'))
    base2 = outcome(convert(CORPUS2_BASE))
    res.count('corpus2:base:' + str(base2[0]))
    for label, rewrite in CORPUS2:
        text = rewrite(CORPUS2_BASE)
        res.seen(text)
        ok = compare(CORPUS2_BASE, base2, text,
                     {'used': ['corpus: ' + label], 'stream': 'corpus'}, True, res)
        res.count('corpus2:' + ('same' if ok else 'differs'))

    base = outcome(convert(CORPUS_BASE))
    res.count('corpus:base:' + str(base[0]))
    for label, rewrite in CORPUS:
        text = rewrite(CORPUS_BASE)
        res.seen(text)
        ok = compare(CORPUS_BASE, base, text,
                     {'used': ['corpus: ' + label], 'stream': 'corpus'}, True, res)
        res.count('corpus:' + ('same' if ok else 'differs'))


def coverage_probe():
    '''A few direct calls of the anchored helpers whose shapes the witnesses,
    the corpus and the layout tie do not contain (all are also in the
    exhaustive ties, which run untraced for speed). Information only: a call
    that does not work any more is skipped.'''
    def quiet(fun, *args):
        try:
            fun(*args)
        except I.TooManyHangs:
            raise
        except Exception:       # pylint: disable=broad-except
            pass
    for toks, expected in [(['1', '2r', 'r', '2i', '4', 'i', '5', '3m', 'j', '2j'], None),
                           (['1', '3r'], 4), (['1', '5r'], 4), (['m'], None), (['1'], 3)]:
        quiet(I.f_expand, toks, expected)
    for tok in ['1.5', '1.5d3', '-6.4-2', '1.5+-3', 'x']:
        quiet(I.f_to_float_accepts, tok)
    from t4_geom_convert.Kernel.Utils import normalize_float
    for tok in ['1.0', '1.00', '1.', '6.4-2', '1.50e-3', '-5d4', '7']:
        quiet(normalize_float, tok)
    for text in ['     y\n1 x &\nc k\n z\n', 'c\n', '1 x\n\tq\n']:
        quiet(I.f_get_cards, text)
        quiet(I.f_block_cards, text)
    for text in ['', 'a', 'a\n\nb\n\nc\n\nd\n\ne', 'message: x\n\nt\nc\n']:
        quiet(I.f_blocks, text)


class _NoCov:
    '''Stand-in when the coverage tracer cannot be set up.'''
    def __enter__(self):
        return self

    def __exit__(self, *exc):
        return False


def run(res, tier, seed, proofs_ok):
    del I.HANGS[:]
    I.SKIPPED.clear()
    I._AVAILABLE.clear()
    I.FRONT_VIA_FILE[0] = None
    # line coverage is information only: nothing in it may fail the check
    cov, cov_missing_names = _NoCov(), []
    try:
        import c14_cov
        funcs, cov_missing_names = c14_cov.anchored_functions()
        cov = c14_cov.LineCov(funcs)
    except Exception as exc:        # pylint: disable=broad-except
        res.extra.setdefault('line_coverage', []).append(
            {'skipped': f'coverage tracer not available: {exc!r}'})
    try:
        run_all(res, tier, seed, cov)
    except I.TooManyHangs as exc:
        res.obligation('implementation calls return', False, str(exc))
        res.violation('impl-violation', 'the front end does not terminate: '
                      + str(exc),
                      {'input': {'function': I.HANGS[0][0], 'text': I.HANGS[0][1],
                                 'deck': I.HANGS[0][1], 'rewrite': I.HANGS[0][1]}},
                      found_input=True)
    if I.SKIPPED:
        res.extra['skipped_helper_ties'] = [f'skipped: {name}: {why}'
                                           for name, why in sorted(I.SKIPPED.items())]
    try:
        if not isinstance(cov, _NoCov):
            import c14_cov
            total, missing = cov.missing(c14_cov.UNREACHABLE)
            res.extra.setdefault('line_coverage', []).append(
                {'anchored_lines': total, 'code_objects': len(cov.codes),
                 'never_executed': [list(m) for m in missing[:20]],
                 'names_not_present': cov_missing_names})
    except Exception as exc:        # pylint: disable=broad-except
        res.extra.setdefault('line_coverage', []).append(
            {'skipped': f'coverage report failed: {exc!r}'})


def run_all(res, tier, seed, cov):
    rng = random.Random(seed)
    res.rule = ('(a) every string up to a length over small alphabets for each '
                're-implemented regex/str method; (b) all line sequences from '
                'a 15-line alphabet; (c) abstract decks (cells with unions, '
                'complements, universes/FILL, TRCL, LIKE BUT, lattices, surfaces '
                'with TR and boundary marks, TR/M/IMP data cards) rendered '
                'canonically and under random layouts (case, blanks, tabs, '
                'continuation by 5+ blanks or &, c-comment lines, $ trailers, '
                'message block, blank-line runs, dropped "=", IMP/FILL shorthand, '
                'number spellings) + malformed texts + a fixed corpus; non-trivial = text differs from '
                'the canonical rendering / >= 2 lines')
    with cov:
        run_witnesses(res)
        run_corpus(res)
        coverage_probe()
    # the Python side of the three ties first, then their Coq files run in the
    # background while the sweep converts decks
    from concurrent.futures import ThreadPoolExecutor
    rng_layout = random.Random(rng.random())
    rng_sweep = random.Random(rng.random())
    with cov:
        layout_phase = prepare_layout(res, tier, rng_layout)
    phases = [prepare_exhaustive(res, tier), prepare_lines(res, tier),
              layout_phase, prepare_expand(res, tier)]
    with ThreadPoolExecutor(max_workers=4) as pool:
        futures = [pool.submit(job) for job, _ in phases]
        run_sweep(res, tier, rng_sweep)
        for (_, finish), fut in zip(phases, futures):
            finish(fut.result())


def replay(path):
    data = json.load(open(path))
    inp = data.get('input', {})
    if 'deck' in inp:
        base = impl.convert(inp['deck'], inp.get('args', ()))
        new = impl.convert(inp['rewrite'], inp.get('args', ()))
        print('original :', base)
        print('rewrite  :', new)
        b, n = outcome(base), outcome(new)
        print('identical output:', b == n)
        if b[0] == 'ok' and n[0] == 'ok' and b != n:
            print('identical abstract content:',
                  D.canonical(b[1]) == D.canonical(n[1]))
            import difflib
            for line in list(difflib.unified_diff(
                    b[1].split('\n'), n[1].split('\n'), 'original', 'rewrite',
                    lineterm=''))[:40]:
                print(line)
    elif 'text' in inp:
        fid = inp['fid']
        print('implementation:', repr(I.FUNS[fid][1](inp['text'])))
        model, _ = common.coq_eval(HEADER, f'tied {fid}%N {cs(inp["text"])}')
        print('model         :', model)
    print('recorded:', data.get('what'))
    return 0
