'''C06 — rectangular lattices: element position, index order, fill array.

Theorems: coq/Properties/C06.v.  Ties (correspondence by execution):
  ranges  : Lattice.parse_ranges / main.parse_lattice on option strings
  bounds  : LatticeBounds.size/dims/indices/__getitem__, LatticeSpec + items,
            LatticeSpec.__getitem__ (tuple / int)
  fillid  : ParseMCNPCell.to_fillid, ParseMCNPCell.parse_fill_kw (tokens ->
            ranges, universes, parameter tokens, rest of the keyword list)
  numeric : latticeReciprocal, latticeVector, squareLatticeReciprocalVecs,
            squareLatticeBaseVectors, compose_transform at binary64
  develop : CellConversion.develop_lattice observed (wrapper installed by the
            harness at run time, /repo untouched) during whole conversions of
            generated lattice decks: surfaces handed to the base-vector code,
            cells created (order, translation of the geometry, fill universe or
            own material, 12 numbers of filltr), exception class
Independent oracle (sweep): whole conversions of generated LAT=1 decks with
ground truth by construction (c06_gen.py), written file evaluated by t4eval at
points of every element, across element borders and outside the declared
ranges, against mcnpref reference semantics; every cell has its own material so
the owner of a point is identified by its composition.'''
import contextlib
import itertools
import json
import random

import numpy as np

import common
import impl
import deck as deckmod
import c06_gen
from common import cz, cstr, clist, cfloat, copt, cpair

THEOREMS = ['C06_family_index', 'C06_family_numeric', 'C06_family_develop',
            'C06_family_text', 'C06_family_linked']
# the members of the families (coq/Properties/C06.v): each family is literally
# the conjunction of its members' statements
MEMBERS = {
    'C06_family_index': [
        'C06_indices_first_fastest',
        'C06_items_array',
        'C06_items_array_3d',
        'C06_getitem_tuple_last_fastest',
        'C06_homogeneous_fill',
        'C06_dimension_checks_spec',
    ],
    'C06_family_numeric': [
        'C06_reciprocal_dual',
        'C06_square_base_vectors',
        'C06_square_base_vectors_translate',
        'C06_outward_sense',
        'C06_square_sides_irrelevant',
        'C06_square_errors',
        'C06_compose_transform_point',
    ],
    'C06_family_develop': [
        'C06_develop_lattice_located',
        'C06_develop_lattice_complete',
        'C06_degenerate_ranges_developed',
        'C06_develop_lattice_square',
        'C06_extract_surfaces',
        'C06_lattice_end_to_end',
        'C06_lattice_end_to_end_3d',
        'C06_lattice_end_to_end_1d_2d',
    ],
    'C06_family_text': [
        'C06_parse_ranges_spelled',
        'C06_parse_lattice_option',
        'C06_parse_fill_kw_array',
        'C06_parse_fill_kw_short_and_shapes',
        'C06_array_entry_transformation_refuted',
        'C06_fill_array_read_as_mcnp',
        'C06_parse_fill_kw_flat',
        'C06_tokenize_fill_array',
        'C06_float_spelling_facts',
        'C06_fill_array_read_as_mcnp_param',
    ],
    'C06_family_linked': [
        'C06_lattice_end_to_end_linked',
        'C06_lattice_end_to_end_conv_linked',
        'C06_link_inverse_satisfiable',
        'C06_lattice_unique_owner_linked',
    ],
}
TRUSTED = [
    'hand-written model coq/C06/Model.v; its agreement with the code is tied '
    'by execution (15 ties), not proved',
    'how a 12-number transformation moves a surface (p -> O + B^T p, MIP '
    'transform_frame) is C04\'s subject and is taken as the definition of '
    'apply_tr here',
    'LINKED family (C06_lattice_end_to_end_linked, _conv_linked, '
    '_unique_owner_linked): the cell_transform / pot_fill interface is derived '
    'from C05\'s theorems over C05\'s model; still assumed there: C05\'s '
    'sense_law and key_law (C04), inverse_of (C05\'s pull-back = inverse of '
    'apply_tr on the produced transformations; satisfiable for orthogonal '
    'ones: C06_link_inverse_satisfiable), the lattice universe\'s list in du '
    'is the list of element cells (no deletion of the lattice cell / '
    'by_universe of the developed table in the statement), c_orig = [] and '
    'du-closedness of the developed table, and for the converse definedness '
    'of C05\'s partial Den',
    'the UNLINKED C06_lattice_end_to_end (iff over plain regions) keeps the '
    'interface as the definition lattice_volumes; the real pot_fill / '
    'cell_transform on the converter\'s objects are covered by the point sweep '
    '(default options and the four inlining option sets)',
    'MIP extract_surfaces_list (order of the surfaces of the cell card), '
    'keyword dispatch of parse_keywords, the i/m/j/log shorthands of '
    'expand_data_card and the numeric value of FILL parameters (to_float, TRn '
    'lookup, to_cos, normalize_transform: C04/C05) are outside the model; '
    'covered by the sweep only',
    'binary64 rounding, numpy matmul evaluation order and x**2 vs x*x: '
    'absorbed by the 1e-9 scaled tolerance of the numeric ties; unit cells '
    'whose reciprocal vectors are linearly dependent AND not dyadic are not '
    'compared (both sides divide by rounding noise)',
    'harness: generators (c06_gen.py), mcnpref reference semantics (+ the '
    'TRCL-and-fill-transformation rule in c06_gen.LatRef), t4eval, '
    'impl.T4File reader, PEG shim replacing TatSu, the run-time wrapper '
    'around CellConversion.develop_lattice',
]
ASSUMPTIONS = [
    'integers of --lattice / FILL are spelled [+-]?[0-9]+ (the model\'s int() '
    'is narrower than Python\'s: no blanks, underscores, non-ASCII digits); '
    'FILL parameter tokens are spellings the model\'s to_float accepts '
    '(is_float_spelling; that they end in a digit or a point and hold no '
    'colon is now proved: C06_float_spelling_facts); inf/nan/underscore '
    'spellings are outside the model',
    'C06_square_base_vectors: the two surfaces of a pair are distinct '
    '(spacing <> 0) and the normals of the pairs are linearly independent; '
    'otherwise the code raises ZeroDivisionError (modelled, tied, proved: '
    'C06_square_errors)',
    'C06_develop_lattice_located and the end-to-end theorems: ranges with '
    'lo <= hi, an array of exactly size(ranges) entries, at least one range '
    'per base vector and one-point surplus ranges (C06_dimension_checks_spec; '
    'otherwise LatticeError, proved), filltr empty or 12 numbers, at most one '
    'TRCL of 12 numbers (the parser produces no other shape)',
    'C06_tokenize_fill_array: tokens without blanks, tabs, ( ) =, upper-case '
    'letters, not starting or ending with a colon (okword)',
    'a lattice cell with both TRCL and a fill transformation is swept against '
    'the rule "TRCL moves the cell, the fill transformation alone places the '
    'filler" (the rule of mcnpref.locate for ordinary filled cells and of the '
    'upstream decks trcl_filltr*.imcnp validated against MCNP)',
]
HEADER = ('From Coq Require Import List ZArith Bool String Ascii PrimFloat.\n'
          'From T4V Require Import Base.Str Base.Scalar C06.Model C06.Exec.\n'
          'Open Scope string_scope.\n')

ERR = {'LatticeError': 'ELattice', 'ZeroDivisionError': 'EZeroDiv',
       'ValueError': 'EValue', 'IndexError': 'EIndex',
       'AssertionError': 'EAssert',
       'MissingLatticeOptError': 'EMissingLatticeOpt',
       'ParseMCNPCellError': 'EParseCell'}


# ---- rendering of values as Coq terms --------------------------------------

def cbounds(bs):
    return clist(cpair(cz(lo), cz(hi)) for lo, hi in bs)


def cres(out, ok):
    '''out = ('ok', value) | ('err', exception class name)'''
    if out[0] == 'err':
        return f'(Err {ERR.get(out[1], "EOther_" + out[1])})'
    return f'(Ok {ok(out[1])})'


def cvec(v):
    return cpair(*(cfloat(x) for x in v))


def csurf(surf):
    (pt, nrm), side = surf
    return cpair(cpair(cvec(pt), cvec(nrm)), cz(side))


def call(fun, *args):
    try:
        return ('ok', fun(*args))
    except Exception as exc:       # pylint: disable=broad-except
        return ('err', type(exc).__name__)


# ---- witnesses of the known findings ---------------------------------------

WITNESS_ROTATION = '''lattice with a rotating fill transformation (DESIGN 8 #18, repaired: corpus)
1 0 -10 fill=1 imp:n=1
2 0 10 imp:n=0
3 3 -1.0 -21 22 u=1 lat=1 *fill=5 (0 0 0 90 0 90 180 90 90 90 90 0) imp:n=1
11 11 -1.0 -41 u=5 imp:n=1
12 12 -1.0 41 u=5 imp:n=1

10 so 8
21 px 1.5
22 px -1.5
41 s 1 0 0 0.4

m3 1001 1
m11 1001 1
m12 1001 1
'''
WITNESS_ROTATION_ARGS = ['--lattice', '3,-1:1']

WITNESS_DEGENERATE = '''two-dimensional lattice, one row: fill=-1:1 0:0 0:0
1 0 -10 fill=1 imp:n=1
2 0 10 imp:n=0
3 3 -1.0 -21 22 -23 24 u=1 lat=1 fill=-1:1 0:0 0:0 5 1 5 imp:n=1
11 11 -1.0 -41 u=5 imp:n=1
12 12 -1.0 41 u=5 imp:n=1

10 so 8
21 px 1
22 px -1
23 py 1
24 py -1
41 so 0.4

m3 1001 1
m11 1001 1
m12 1001 1
'''


WITNESS_ENTRY_TR = '''1-D lattice, the last array entry carries its own transformation
1 0 -10 fill=1 imp:n=1
2 0 10 imp:n=0
3 3 -1.0 -21 22 u=1 lat=1 fill=-1:1 0:0 0:0 5 5 5(0 1 0) imp:n=1
11 11 -1.0 -41 u=5 imp:n=1
12 12 -1.0 41 u=5 imp:n=1

10 so 8
21 px 1
22 px -1
41 so 0.4

m3 1001 1
m11 1001 1
m12 1001 1
'''


def witness_entry_tr():
    '''MCNP: the (0 1 0) in parentheses belongs to the last entry (element
    +1); elements -1 and 0 keep their filler sphere at their centre.'''
    conv = impl.convert(WITNESS_ENTRY_TR, [])
    if not conv.ok or conv.text is None:
        return None          # rejected: a different behaviour, not this class
    t4 = impl.T4File(conv.text)
    centre0 = owners_at(t4, [0.0, 0.0, 0.0])
    moved0 = owners_at(t4, [0.0, 1.0, 0.0])
    last = owners_at(t4, [2.0, 1.0, 0.0])
    if centre0 == ['m11_-1.0'] and moved0 == ['m12_-1.0']:
        return None
    return ("'fill=-1:1 0:0 0:0 5 5 5(0 1 0)': the transformation of the last "
            'array entry is applied to every element: centre (0,0,0) of '
            f'element 0 lies in {centre0}, its filler sphere is found at '
            f'(0,1,0): {moved0} (element +1 at (2,1,0): {last})')


def owners_at(t4, point):
    import t4eval
    evl = t4eval.Evaluator(t4, eps=1e-9)
    comp_of = {vid: name for name, vols in t4.geomcomp for vid in vols}
    try:
        return [comp_of.get(v, '?') for v in evl.owners(point)]
    except t4eval.T4EvalError as exc:
        # a witness point on a surface of the WRITTEN geometry: the geometry is
        # not the expected one (the witness points are interior points)
        return [f'<{exc}>']


def witness_rotation():
    '''Filler sphere (material 11) of element +1 must sit at (3+... ) i.e.
    world (3,1,0): the fill motion maps the universe point (1,0,0) to (0,1,0),
    the element translation adds (3,0,0). Returns None when the property
    holds there, else a description.'''
    conv = impl.convert(WITNESS_ROTATION, WITNESS_ROTATION_ARGS)
    if not conv.ok or conv.text is None:
        return None      # a different behaviour: not this finding
    t4 = impl.T4File(conv.text)
    good = owners_at(t4, [3.0, 1.0, 0.0])
    bad = owners_at(t4, [0.0, 4.0, 0.0])
    if good == ['m11_-1.0'] and bad != ['m11_-1.0']:
        return None
    return (f'1-D lattice, pitch 3 along x, *FILL=5 rotating by 90 degrees '
            f'about z: point (3,1,0) of the filler sphere of element [1] lies '
            f'in {good}, the sphere is found at (0,4,0): {bad}')


def witness_degenerate():
    '''Regression (repaired in /repo 9b5a8f0): the one-row array must be
    accepted and put the three elements along x only.'''
    conv = impl.convert(WITNESS_DEGENERATE, [])
    if not conv.ok or conv.text is None:
        return ('2-D lattice with FILL=-1:1 0:0 0:0 (one row) is rejected: '
                f'{conv.exc}: {(conv.msg or "")[:120]}')
    t4 = impl.T4File(conv.text)
    want = {(2.0, 0.0, 0.0): ['m11_-1.0'], (-2.0, 0.1, 0.0): ['m11_-1.0'],
            (0.0, 0.0, 0.0): ['m3_-1.0'], (2.0, 0.8, 0.0): ['m12_-1.0'],
            (-1.2, -0.9, 3.0): ['m12_-1.0'], (0.9, -0.9, -3.0): ['m3_-1.0'],
            (0.0, 2.0, 0.0): [], (2.0, -2.0, 0.0): [], (4.0, 0.0, 0.0): []}
    for point, comps in want.items():
        got = owners_at(t4, list(point))
        if got != comps:
            return ('2-D lattice with FILL=-1:1 0:0 0:0 5 1 5: point '
                    f'{point} lies in {got}, expected {comps}')
    return None


# ---- run-time wrapper around develop_lattice --------------------------------

@contextlib.contextmanager
def spy_develop(records):
    from t4_geom_convert.Kernel.Volume import CellConversion as ccmod
    from t4_geom_convert.Kernel.Volume.Lattice import LatticeSpec
    from MIP.geom.main import extract_surfaces_list
    cls = ccmod.CellConversion
    orig = cls.develop_lattice

    def planes_of(self, ids):
        out = {}
        for sid in ids:
            out[abs(sid)] = [
                ((tuple(float(x) for x in surf.param_surface[0]),
                  tuple(float(x) for x in surf.param_surface[1])), int(side))
                for surf, side in self.dic_surf_mcnp[abs(sid)]]
        return out

    def wrapper(self, key):
        cell = self.dic_cell_mcnp[key]
        rec = {'key': key, 'lattice': cell.lattice}
        try:
            ids = [int(s) for s in extract_surfaces_list(cell.geometry)]
            rec['ids'] = ids
            rec['dic'] = planes_of(self, ids)
            rec['universe'] = int(cell.universe)
            rec['material'] = cell.materialID
            fill = cell.fillid
            if isinstance(fill, LatticeSpec):
                rec['fill'] = ('spec', [tuple(b) for b in fill.bounds],
                               [int(u) for u in fill.spec])
            elif fill is None:
                rec['fill'] = ('none',)
            else:
                rec['fill'] = ('univ', int(fill))
            rec['filltr'] = [float(x) for x in cell.filltr]
            rec['trcl'] = [[float(x) for x in t] for t in cell.trcl]
        except Exception as exc:       # pylint: disable=broad-except
            rec['snapshot_error'] = f'{type(exc).__name__}: {exc}'
        # the guard "if cell.lattice is None: return": a cell that is not a
        # lattice is left alone (ConstructVolumeT4 never asks, so ask here)
        plain = [k for k, c in self.dic_cell_mcnp.items() if c.lattice is None]
        if plain:
            snapshot = dict(self.dic_cell_mcnp)
            orig(self, plain[0])
            rec['guard_ok'] = snapshot == self.dic_cell_mcnp
        before = set(self.dic_cell_mcnp)
        try:
            orig(self, key)
        except Exception as exc:
            rec['out'] = ('err', type(exc).__name__)
            records.append(rec)
            raise
        elems = []
        for new_key in self.dic_cell_mcnp:
            if new_key in before:
                continue
            new = self.dic_cell_mcnp[new_key]
            new_ids = [int(s) for s in extract_surfaces_list(new.geometry)]
            new_planes = planes_of(self, new_ids)
            shifts = []
            for old_id, new_id in zip(rec['ids'], new_ids):
                for (old, _), (cur, _) in zip(rec['dic'][abs(old_id)],
                                              new_planes[abs(new_id)]):
                    shifts.append((tuple(c - o for c, o in zip(cur[0], old[0])),
                                   cur[1] == old[1]))
            elems.append({'key': new_key, 'fillid': new.fillid,
                          'material': new.materialID,
                          'universe': int(new.universe),
                          'lattice': new.lattice,
                          'filltr': [float(x) for x in new.filltr],
                          'shifts': shifts,
                          'same_signs': [a > 0 for a in rec['ids']]
                          == [a > 0 for a in new_ids]})
        rec['out'] = ('ok', elems)
        rec['deleted'] = key not in self.dic_cell_mcnp
        records.append(rec)

    cls.develop_lattice = wrapper
    try:
        yield
    finally:
        cls.develop_lattice = orig


IDENT9 = [1.0, 0.0, 0.0, 0.0, 1.0, 0.0, 0.0, 0.0, 1.0]


def develop_case(rec):
    '''(coq case, harness-level inconsistencies) of one recorded call.'''
    problems = []
    if rec['fill'][0] == 'spec':
        fill = f'(FSpec {cbounds(rec["fill"][1])} ' \
            f'{clist(cz(u) for u in rec["fill"][2])})'
    elif rec['fill'][0] == 'none':
        fill = 'FNone'
    else:
        fill = f'(FUniv {cz(rec["fill"][1])})'
    dic = clist(cpair(cz(k), clist(csurf(s) for s in v))
                for k, v in rec['dic'].items())
    cell = cpair(cz(rec['universe']), fill,
                 clist(cfloat(x) for x in rec['filltr']),
                 clist(clist(cfloat(x) for x in t) for t in rec['trcl']))
    if rec['out'][0] == 'err':
        expected = cres(rec['out'], None)
    else:
        outs = []
        for el in rec['out'][1]:
            shifts = el['shifts']
            if not shifts:
                problems.append('new cell has no surfaces')
                shift = (0.0, 0.0, 0.0)
            else:
                shift = shifts[0][0]
                for other, same_normal in shifts:
                    if not same_normal or max(
                            abs(a - b) for a, b in zip(other, shift)) > 1e-9 \
                            * max(1.0, max(abs(v) for v in shift)):
                        problems.append(
                            'the planes of a new cell are not all moved by '
                            f'the same translation: {shifts}')
                        break
            if not el['same_signs']:
                problems.append('surface senses changed in a new cell')
            if el['lattice'] is not None:
                problems.append('new cell still has lattice set')
            if el['universe'] != rec['universe']:
                problems.append('new cell changed universe')
            if el['fillid'] is None and el['material'] != rec['material']:
                problems.append('own-universe element lost the lattice '
                                'cell\'s material')
            outs.append(cpair(
                clist(cfloat(x) for x in list(shift) + IDENT9),
                copt(el['fillid'], cz),
                clist(cfloat(x) for x in el['filltr'])))
        if not rec.get('deleted'):
            problems.append('the lattice cell was not removed')
        if rec.get('guard_ok') is False:
            problems.append('develop_lattice changed something for a cell '
                            'that is not a lattice')
        expected = f'(Ok {clist(outs)})'
    case = cpair(clist(cz(i) for i in rec['ids']), dic, cell, expected)
    return case, problems


# ---- direct-call generators --------------------------------------------------

def gen_int_spelling(rng, valid=True):
    if valid:
        n = rng.choice([0, 1, 2, 3, 4, 5, 7, 10, 12, 99, 100, 255])
        sign = rng.choice(['', '', '', '-', '-', '+'])
        pad = rng.choice(['', '', '', '0', '00'])
        return f'{sign}{pad}{n}'
    return rng.choice(['', 'a', '1.5', '1e3', '--1', '-', '+', '1a', 'x1',
                       '6.022e23', '-6.022e23', '1-', '0x10', '1+1'])


def gen_range_string(rng, valid=True):
    if valid:
        return gen_int_spelling(rng) + ':' + gen_int_spelling(rng)
    kind = rng.choice(['nocolon', 'three', 'lo', 'hi', 'empty', 'both'])
    if kind == 'nocolon':
        return gen_int_spelling(rng)
    if kind == 'three':
        return ':'.join(gen_int_spelling(rng) for _ in range(3))
    if kind == 'lo':
        return gen_int_spelling(rng, False) + ':' + gen_int_spelling(rng)
    if kind == 'hi':
        return gen_int_spelling(rng) + ':' + gen_int_spelling(rng, False)
    if kind == 'empty':
        return rng.choice(['', ':', '::', '1:', ':1'])
    return gen_int_spelling(rng, False) + ':' + gen_int_spelling(rng, False)


TINY_DECK = ('parser fixture\n1 0 -1 imp:n=1\n2 0 1 imp:n=0\n\n1 so 1\n\n'
             + ''.join(f'tr{k} {k} 0 0\n' for k in range(1, 10)))


def make_cell_parser():
    '''A ParseMCNPCell built by its public constructor on a small deck with
    TR1..TR9 (never by __new__ with hand-set attributes: the internal
    attributes are not the harness's business).'''
    from t4_geom_convert.Kernel.FileHandlers.Parser.ParseMCNPCell import \
        ParseMCNPCell
    with impl.mip_parser(TINY_DECK) as mip_p:
        return ParseMCNPCell(mip_p, None, {})


PARAM_TOKENS = ['0', '1', '-2', '0.5', '90', '1.5', '-0.25', '3', '12', '7',
                '.5', '2.', '1e1', '1.5d1', '2.5-1', '+4', '-1.e-1', '3d0']
BAD_PARAM_TOKENS = ['2r', '-', '1.5x', '.', '+e1', '1e', '1d+', '3j']
TAILS = [[], [], ['imp:n', '1'], ['u', '3'], ['lat', '1', 'imp:n', '1'],
         ['trcl', '2'], ['vol', '1.0']]


def fillid_card_options(shape, f_bounds, f_univs, lattice):
    '''Options text of a cell card carrying the FILL / LAT keywords of one
    to_fillid case, or None when the shape cannot be written on a card
    (arrays of the wrong length, reversed ranges).'''
    lat = f'lat={lattice} ' if lattice else ''
    if shape == 'nofill':
        return lat + 'imp:n=1'
    if shape in ('plain', 'plain_lat_noopt', 'hom'):
        return f'{lat}fill={f_univs} imp:n=1'
    if shape in ('array', 'array_nolat'):
        if not f_bounds or any(lo > hi for lo, hi in f_bounds):
            return None
        ranges = ' '.join(f'{lo}:{hi}' for lo, hi in f_bounds)
        return (f'{lat}fill={ranges} ' + ' '.join(str(u) for u in f_univs)
                + ' imp:n=1')
    return None


def gen_fill_tokens(rng):
    '''(first argument, rest of the keyword list in reading order, shape)'''
    tail = list(rng.choice(TAILS))
    if rng.random() < 0.2:
        n_par = rng.choice([0, 1, 3, 12, 2, 9])
        pars = [rng.choice(PARAM_TOKENS) for _ in range(n_par)]
        if n_par == 1:
            pars = [str(rng.randint(1, 9))]
        return str(rng.choice([1, 2, 17, 0])), pars + tail, 'plain'
    bs = [(lo, lo + n - 1) for lo, n in
          ((rng.randint(-3, 2), rng.choice([1, 1, 2, 3])) for _ in
           range(rng.choice([1, 2, 3, 3, 3])))]
    ranges = [gen_int_spelling_of(rng, lo) + ':' + gen_int_spelling_of(rng, hi)
              for lo, hi in bs]
    size = 1
    for lo, hi in bs:
        size *= hi - lo + 1
    mode = rng.choice(['exact', 'exact', 'exact', 'short', 'repeat',
                       'repeat_over', 'bad'])
    univs = [rng.choice([0, 1, 2, 3, 5, 17]) for _ in range(size)]
    toks = [gen_int_spelling_of(rng, u) for u in univs]
    shape = 'array:' + mode
    if mode == 'exact':
        k = rng.choice([0, 0, 0, 1, 2, 3, 3, 4, 6, 9, 12, 13])
        pars = [rng.choice(PARAM_TOKENS) for _ in range(k)]
        if k == 1:
            pars = [str(rng.randint(1, 9))]
        if k and rng.random() < 0.08:
            pars[rng.randrange(k)] = rng.choice(BAD_PARAM_TOKENS)
            shape = 'array:badparam'
        toks = toks + pars
        shape += f':surplus{k}'
    elif mode == 'short':
        toks = toks[:rng.randint(0, size - 1)]
        if not tail and rng.random() < 0.7:
            tail = ['imp:n', '1']
    elif mode in ('repeat', 'repeat_over'):
        # u nR shorthand for a run of equal universes
        n = rng.randint(1, max(1, size - 1))
        head = [rng.choice([1, 2, 5]) for _ in range(size - n)] or [2]
        n = size - len(head)
        rep = [f'{n}r'] if n != 1 or rng.random() < 0.5 else ['r']
        if n == 0:
            rep = []
        if mode == 'repeat_over':
            rep = [f'{n + rng.randint(1, 3)}r']
        toks = [str(u) for u in head] + rep
        k = rng.choice([0, 0, 3])
        toks += [rng.choice(PARAM_TOKENS) for _ in range(k)]
    else:
        toks = rng.choice([['r'] + toks, ['xr'] + toks, toks[:1] + ['qr'],
                           ['1:2:3'] + toks, toks[:0]])
        if rng.random() < 0.3:
            ranges[0] = rng.choice(['1:', '0:1:2', 'a:1'])
    return ranges[0], ranges[1:] + toks + tail, shape


def gen_int_spelling_of(rng, value):
    sign = '-' if value < 0 else rng.choice(['', '', '', '+'])
    return sign + rng.choice(['', '', '0']) + str(abs(value))


def fill_tokens_truth(first, stack):
    '''Independent reading of a well-formed array (mode exact): ranges,
    then size integers, then every token that looks like a number.'''
    ranges = [first]
    k = 0
    while k < len(stack) and ':' in stack[k]:
        ranges.append(stack[k])
        k += 1
    bs = [tuple(int(x) for x in r.split(':')) for r in ranges]
    size = 1
    for lo, hi in bs:
        size *= hi - lo + 1
    univs = [int(t) for t in stack[k:k + size]]
    k += size
    n_par = 0
    while k < len(stack) and stack[k][0] in '0123456789.+-':
        n_par += 1
        k += 1
    return bs, univs, n_par


def gen_bounds(rng, allow_weird=True):
    n = rng.choice([1, 1, 2, 2, 3, 3, 3, 4]) if allow_weird \
        else rng.choice([1, 2, 3, 3])
    if allow_weird and rng.random() < 0.05:
        n = 0
    out = []
    for _ in range(n):
        lo = rng.randint(-4, 4)
        k = rng.choice([1, 1, 2, 2, 3, 4])
        if allow_weird and rng.random() < 0.12:
            k = rng.choice([0, -1, -2])       # reversed ranges
        out.append((lo, lo + k - 1))
    return out


def gen_vec(rng):
    return tuple(rng.choice(c06_gen.COMPONENTS) for _ in range(3))


def gen_unit_cell(rng):
    '''Synthetic surfaces list [((point, normal), side)] with ground truth
    index vectors, for direct calls of squareLattice*.'''
    d = rng.choice([1, 2, 3])
    kind = rng.choice(['ortho', 'rot', 'skew']) if d > 1 \
        else rng.choice(['ortho', 'rot'])
    vecs = c06_gen.gen_basis(rng, d, kind)
    centre = np.array([rng.choice([-1.0, 0.0, 0.5, 2.0]) for _ in range(3)])
    duals = c06_gen.dual(vecs)
    comp = c06_gen.complement_basis(vecs)
    order = list(range(d))
    rng.shuffle(order)
    surfaces, truth = [], []
    for i in order:
        nrm = duals[i]
        far_first = rng.random() < 0.5
        pair = []
        for sign in ((0.5, -0.5) if far_first else (-0.5, 0.5)):
            # any point of the plane n.(x-c) = sign
            point = centre + sign * np.array(vecs[i])
            for j in range(d):
                if j != i:
                    point = point + rng.choice([0.0, 0.5, -1.0, 2.0]) \
                        * np.array(vecs[j])
            for w in comp:
                point = point + rng.choice([0.0, 1.0, -0.5]) * w
            scale = rng.choice([1.0, -1.0, 2.0, -0.5, 1.0 / np.linalg.norm(nrm)])
            normal = scale * nrm
            # side of the plane on which the cell (the centre) lies
            side = 1 if float(normal @ (centre - point)) > 0 else -1
            pair.append(((tuple(float(x) for x in point),
                          tuple(float(x) for x in normal)), side))
        surfaces.extend(pair)
        truth.append([float(v) if far_first else float(-v) for v in vecs[i]])
    return surfaces, truth


def break_unit_cell(rng, surfaces):
    fault = rng.choice(['odd', 'eight', 'empty', 'same_plane', 'parallel',
                        'side0'])
    surfaces = list(surfaces)
    if fault == 'odd':
        surfaces = surfaces[:-1]
    elif fault == 'eight':
        surfaces = (surfaces * 4)[:rng.choice([7, 8, 10])]
    elif fault == 'empty':
        surfaces = []
    elif fault == 'same_plane':
        surfaces[1] = (surfaces[0][0], -surfaces[0][1])
    elif fault == 'parallel':
        if len(surfaces) >= 4:
            surfaces[2:4] = surfaces[0:2]
        else:
            surfaces = surfaces + surfaces
    elif fault == 'side0':
        surfaces[0] = (surfaces[0][0], rng.choice([0, 2, -2]))
    return surfaces, fault


def dyadic_unit_cell(rng):
    '''All numbers dyadic so that exact-zero tests agree bit for bit: used for
    the degenerate (ZeroDivisionError) cases.'''
    d = rng.choice([1, 2, 3])
    surfaces = []
    for _ in range(d):
        nrm = gen_vec(rng)
        if not any(nrm):
            nrm = (1.0, 0.0, 0.0)
        p1, p2 = gen_vec(rng), gen_vec(rng)
        surfaces.append(((p1, nrm), rng.choice([1, -1])))
        surfaces.append(((p2, tuple(-x for x in nrm) if rng.random() < 0.5
                          else nrm), rng.choice([1, -1])))
    return surfaces


# ---- the check ---------------------------------------------------------------

def tie(res, name, label, case_type, check_fun, cases, metas, describe):
    bad, errs = common.run_case_files(name, HEADER, case_type, check_fun,
                                      cases)
    res.obligation(f'tie:{label} ({len(cases)} cases: model = implementation)',
                   not bad and not errs, f'{len(bad)} disagreements {errs[:1]}')
    if errs and not bad:
        res.violation('correspondence', f'tie:{label}: generated Coq file does '
                      f'not check: {errs[0][-300:]}',
                      {'theorem_or_correspondence': f'tie:{label}',
                       'errors': errs[:2]}, found_input=False)
    for idx in bad[:5]:
        res.violation('correspondence',
                      f'tie:{label}: model and implementation disagree on '
                      f'{describe(metas[idx])}'[:380],
                      {'input': metas[idx], 'coq_case': cases[idx],
                       'theorem_or_correspondence': f'tie:{label}'},
                      found_input=False)
    return bad


def run(res, tier, seed, proofs_ok):
    rng = random.Random(seed)
    quick = tier == 'quick'
    res.rule = (
        'direct calls: range/option strings (valid spellings with signs and '
        'leading zeros + malformed), bounds of 0-4 ranges incl. negative, '
        'one-point and reversed ones, arrays of right/wrong length, to_fillid '
        'keyword combinations, 1-3 vectors / unit cells (orthogonal, rotated, '
        'skew; any pair order, surface order, normal scale and sense; dyadic '
        'degenerate ones), random 12-number transformations; whole conversions '
        'of generated LAT=1 decks (1-3 D, px/py/pz, general planes, RPP; array '
        'fills with 0 / own universe / two filler universes, homogeneous '
        'FILL=n with --lattice, fill translations and rotations, TRCL on the '
        'lattice cell, transformed container) + broken decks (odd/extra '
        'surfaces, coincident or parallel pairs, ranges in padding positions); '
        'non-trivial = more than one element or a fault; distinct by input')

    # ---- 1. known-finding witnesses ----
    why = witness_rotation()
    if why:
        res.violation('impl-violation', why,
                      {'input': {'deck': WITNESS_ROTATION,
                                 'args': WITNESS_ROTATION_ARGS}},
                      cls=None, found_input=True)   # repaired in a82b50a
    why = witness_degenerate()
    if why:
        res.violation('impl-violation', why,
                      {'input': {'deck': WITNESS_DEGENERATE, 'args': []}},
                      cls=None, found_input=True)   # repaired in 9b5a8f0

    import time
    t0 = time.time()
    why = witness_entry_tr()
    if why:
        res.violation('impl-violation', why,
                      {'input': {'deck': WITNESS_ENTRY_TR, 'args': []}},
                      cls='array_entry_transformation', found_input=True)

    # line coverage of the anchored functions: information only, never raises
    # (a rewrite may rename or remove helpers; names that are gone are recorded)
    global COV
    COV = None
    try:
        import c06_cov
        COV = c06_cov.LineCov(c06_cov.anchored_functions())
        if c06_cov.MISSING:
            res.extra['coverage_names_missing'] = list(c06_cov.MISSING)
    except Exception as exc:       # pylint: disable=broad-except
        COV = None
        res.extra['coverage_error'] = f'{type(exc).__name__}: {exc}'
    if COV is not None:
        with COV:
            direct_ties(res, rng, quick)
    else:
        direct_ties(res, rng, quick)
    t1 = time.time()
    deck_stream(res, rng, quick)
    try:
        if COV is not None:
            total, missing = COV.missing(c06_cov.UNREACHABLE)
            res.obligation('coverage: the tied calls and the traced part of '
                           'the deck stream execute every reachable line of '
                           f'the anchored functions ({total} lines of '
                           f'{len(COV.codes)} code objects)', not missing,
                           f'never executed: {missing[:6]}')
            res.extra['anchored_lines'] = total
    except Exception as exc:       # pylint: disable=broad-except
        res.extra['coverage_error'] = f'{type(exc).__name__}: {exc}'
    res.extra['family_members'] = MEMBERS
    res.extra['tier_depth'] = (
        'quick: 1x direct-call streams (150-300 cases each), bounds '
        'exhaustive for 1-2 ranges (156), 240 random + 32 corpus valid decks, '
        '60 broken decks, 3 inner points per element'
        if quick else
        'thorough: 8x direct-call streams, bounds exhaustive for 1-3 ranges '
        '(1884), 3000 random + 96 corpus valid decks, 600 broken decks, 5 '
        'inner points per element')
    res.extra['phase_seconds'] = {'direct_ties': round(t1 - t0, 1),
                                  'deck_stream': round(time.time() - t1, 1)}


def direct_ties(res, rng, quick):
    from t4_geom_convert.Kernel.Volume import Lattice as L
    from t4_geom_convert.main import parse_lattice
    from t4_geom_convert.Kernel.FileHandlers.Parser.ParseMCNPCell import \
        ParseMCNPCell
    from t4_geom_convert.Kernel.Transformation.Transformation import \
        compose_transform
    mult = 1 if quick else 8

    # -- parse_ranges --
    cases, metas = [], []
    for k in range(250 * mult):
        n = rng.choice([1, 2, 3, 3, 4, 0])
        strs = [gen_range_string(rng, valid=(k % 3 != 0 or rng.random() < 0.6))
                for _ in range(n)]
        out = call(lambda s: [tuple(b) for b in L.parse_ranges(s).bounds], strs)
        cases.append(cpair(clist(cstr(s) for s in strs), cres(out, cbounds)))
        metas.append({'strings': strs, 'impl': out})
        res.seen(('ranges', strs), nontrivial=n > 1)
        res.count('parse_ranges:' + out[0])
        if out[0] == 'ok':
            # oracle: independent reading of lo:hi
            want = [tuple(int(x) for x in s.split(':')) for s in strs]
            if out[1] != want:
                res.violation('impl-violation',
                              f'parse_ranges({strs}) = {out[1]}, expected '
                              f'{want}', {'input': {'strings': strs}},
                              found_input=True)
    res.sample({'parse_ranges': metas[1]})
    tie(res, 'c06_ranges', 'parse_ranges', 'list string * res bounds',
        'check_ranges', cases, metas, lambda m: f'{m["strings"]}: {m["impl"]}')

    # -- parse_lattice --
    cases, metas = [], []
    for k in range(150 * mult):
        opts = []
        for _ in range(rng.choice([0, 1, 1, 2, 3])):
            cell = rng.choice(['3', '3', '10', '200', '-5', '+7', '007',
                               'three', '', '1.0'])
            if rng.random() < 0.8:
                cell = rng.choice(['3', '10', '200', '5902', '10'])
            nr = rng.choice([1, 2, 3, 3, 0, 4])
            if rng.random() < 0.8:
                nr = rng.choice([1, 2, 3])
            rngs = [gen_range_string(rng, valid=rng.random() < 0.9)
                    for _ in range(nr)]
            opts.append(','.join([cell] + rngs))
        out = call(lambda o: [(c, [tuple(b) for b in bs.bounds])
                              for c, bs in parse_lattice(o).items()], opts)
        cases.append(cpair(
            clist(cstr(s) for s in opts),
            cres(out, lambda l: clist(cpair(cz(c), cbounds(b))
                                      for c, b in l))))
        metas.append({'options': opts, 'impl': out})
        res.seen(('lattice_opt', opts), nontrivial=len(opts) > 0)
        res.count('parse_lattice:' + out[0])
    res.sample({'parse_lattice': metas[2]})
    tie(res, 'c06_platt', 'parse_lattice',
        'list string * res (list (Z * bounds))', 'check_parse_lattice',
        cases, metas, lambda m: f'{m["options"]}: {m["impl"]}')

    # -- LatticeBounds: size, dims, indices, __getitem__ --
    cases, metas, gcases, gmetas = [], [], [], []
    # exhaustive small domain first: every list of 1-2 (quick) / 1-3 (thorough)
    # ranges with lo in -2..1 and 1-3 points, then the random stream
    small = [(lo, lo + n - 1) for lo in (-2, -1, 0, 1) for n in (1, 2, 3)]
    exhaustive = [list(t) for r in ((1, 2) if quick else (1, 2, 3))
                  for t in itertools.product(small, repeat=r)]
    res.count('bounds:exhaustive small domain', len(exhaustive))
    for k in range(len(exhaustive) + 200 * mult):
        bs = exhaustive[k] if k < len(exhaustive) else gen_bounds(rng)
        obj = L.LatticeBounds(list(bs))
        idx = call(lambda o: [list(t) for t in o.indices()], obj)
        cases.append(cpair(
            cbounds(bs),
            cpair(cz(obj.size()), cz(obj.dims()),
                  cres(idx, lambda l: clist(clist(cz(i) for i in t)
                                            for t in l)))))
        metas.append({'bounds': bs, 'size': obj.size(), 'dims': obj.dims(),
                      'indices': idx})
        res.seen(('bounds', bs), nontrivial=len(bs) > 1)
        res.count(f'bounds:len{len(bs)}')
        valid = bs and all(lo <= hi for lo, hi in bs)
        if valid:
            # oracle: Fortran order, first index fastest
            want = [list(reversed(t)) for t in itertools.product(
                *[range(lo, hi + 1) for lo, hi in reversed(bs)])]
            if idx != ('ok', want) or obj.size() != len(want):
                res.violation(
                    'impl-violation',
                    f'LatticeBounds({bs}): indices/size differ from the '
                    'first-index-fastest enumeration of the declared ranges',
                    {'input': {'bounds': bs}, 'observed': idx,
                     'expected': want}, found_input=True)
        i = rng.randint(-len(bs) - 2, len(bs) + 1)
        got = call(lambda o, j: tuple(o[j]), obj, i)
        gcases.append(cpair(cbounds(bs), cz(i),
                            cres(got, lambda b: cpair(cz(b[0]), cz(b[1])))))
        gmetas.append({'bounds': bs, 'i': i, 'impl': got})
    res.sample({'bounds': metas[0]})
    tie(res, 'c06_bounds', 'LatticeBounds.size/dims/indices',
        'bounds * (Z * Z * res (list (list Z)))', 'check_bounds', cases,
        metas, lambda m: str(m)[:300])
    tie(res, 'c06_getitem', 'LatticeBounds.__getitem__',
        'bounds * Z * res (Z * Z)', 'check_getitem', gcases, gmetas,
        lambda m: str(m)[:300])

    # -- LatticeSpec + items --
    cases, metas = [], []
    for k in range(200 * mult):
        bs = gen_bounds(rng)
        size = L.LatticeBounds(list(bs)).size()
        n = size if rng.random() < 0.8 else size + rng.choice([-1, 1, 2])
        spec = [rng.choice([0, 1, 2, 3, 5, 17]) for _ in range(max(n, 0))]
        out = call(lambda b, s: [(list(i), u) for i, u in L.LatticeSpec(
            L.LatticeBounds(list(b)), s).items()], bs, spec)
        cases.append(cpair(
            cbounds(bs), clist(cz(u) for u in spec),
            cres(out, lambda l: clist(cpair(clist(cz(i) for i in idx), cz(u))
                                      for idx, u in l))))
        metas.append({'bounds': bs, 'spec': spec, 'impl': out})
        res.seen(('items', bs, spec), nontrivial=len(spec) > 1)
        res.count('items:' + out[0])
        if out[0] == 'ok' and bs and all(lo <= hi for lo, hi in bs):
            # oracle: Fortran-order array
            arr = np.array(spec).reshape([hi - lo + 1 for lo, hi in bs],
                                         order='F')
            for idx, u in out[1]:
                pos = tuple(i - lo for i, (lo, _) in zip(idx, bs))
                if int(arr[pos]) != u:
                    res.violation(
                        'impl-violation',
                        f'LatticeSpec({bs}, {spec}).items(): element {idx} '
                        f'gets {u}, the array read first-index-fastest has '
                        f'{int(arr[pos])}',
                        {'input': {'bounds': bs, 'spec': spec}},
                        found_input=True)
                    break
            if len(out[1]) != len(spec):
                res.violation('impl-violation',
                              f'LatticeSpec({bs}, ...).items() yields '
                              f'{len(out[1])} elements for {len(spec)} entries',
                              {'input': {'bounds': bs, 'spec': spec}},
                              found_input=True)
    res.sample({'items': metas[0]})
    tie(res, 'c06_items', 'LatticeSpec + items',
        'bounds * list Z * res (list (list Z * Z))', 'check_items', cases,
        metas, lambda m: str(m)[:300])

    # -- LatticeSpec.__getitem__ (tuple and int) --
    cases, metas = [], []
    for k in range(150 * mult):
        bs = gen_bounds(rng, allow_weird=rng.random() < 0.15) or [(0, 1)]
        size = L.LatticeBounds(list(bs)).size()
        n = size if rng.random() < 0.9 else size + 1
        spec = [rng.randint(0, 40) for _ in range(max(n, 0))]
        if rng.random() < 0.8:
            arg = tuple(rng.randint(lo - 1, max(hi, lo) + 1) if rng.random() < 0.2
                        else rng.randint(min(lo, hi), max(lo, hi))
                        for lo, hi in bs)
            if rng.random() < 0.1:
                arg = arg[:-1] if rng.random() < 0.5 else arg + (0,)
            carg = f'(inl {clist(cz(i) for i in arg)})'
        else:
            arg = rng.randint(-len(spec) - 2, len(spec) + 1)
            carg = f'(inr {cz(arg)})'
        out = call(lambda b, s_, a: int(L.LatticeSpec(
            L.LatticeBounds(list(b)), s_)[a]), bs, spec, arg)
        cases.append(cpair(cbounds(bs), clist(cz(u) for u in spec), carg,
                           cres(out, cz)))
        metas.append({'bounds': bs, 'spec': spec, 'arg': arg, 'impl': out})
        res.seen(('getitem', bs, spec, arg), nontrivial=len(bs) > 1)
        res.count('spec_getitem:' + (out[0] if out[0] == 'ok' else out[1]))
    tie(res, 'c06_specget', 'LatticeSpec.__getitem__',
        'bounds * list Z * (list Z + Z) * res Z', 'check_spec_getitem', cases,
        metas, lambda m: str(m)[:300])

    # -- parse_fill_kw: tokens after FILL -> (bounds, universes, parameters) --
    from t4_geom_convert.Kernel.FileHandlers.Parser import ParseMCNPCell as pm
    parser = make_cell_parser()
    seen_consumed = []
    # module-level names of the parser module (imports of helpers): a rewrite
    # may import them differently; without them the tie still runs through the
    # public parse_fill_kw, only the parameter count is not compared
    orig_expand = getattr(pm, 'expand_data_card', None)
    orig_norm = getattr(pm, 'normalize_transform', None)
    spies_ok = orig_expand is not None and orig_norm is not None
    if not spies_ok:
        res.extra.setdefault('skipped', []).append(
            'helper ParseMCNPCell.expand_data_card/normalize_transform not '
            'present as module names: parameter counts of parse_fill_kw not '
            'compared: the direct parse_fill_kw tie is skipped; parse_fill_kw is '
            'still exercised through whole conversions (develop tie, sweep)')

    def spy_expand(tokens, **kwargs):
        out = orig_expand(tokens, **kwargs)
        seen_consumed.append(out[1])
        return out
    cases, metas = [], []
    if spies_ok:
        pm.expand_data_card = spy_expand
        pm.normalize_transform = list    # numeric normalisation: C04's subject
    try:
        for k in range(220 * mult if spies_ok else 0):
            first, stack, shape = gen_fill_tokens(rng)
            kw_list = list(reversed([first] + stack))
            del seen_consumed[:]
            out = call(lambda e, kw: parser.parse_fill_kw(e, kw),
                       rng.choice(['fill', '*fill']), kw_list)
            if out[0] == 'ok':
                f_bounds, f_univs, _ = out[1]
                rest = list(reversed(kw_list))
                if f_bounds is None:
                    n_par = len(stack) - len(rest)
                    cb, cu = 'None', f'(FInt {cz(f_univs)})'
                else:
                    n_more = len(f_bounds.bounds) - 1
                    consumed = seen_consumed[-1]
                    n_par = 0 if consumed == 0 else \
                        len(stack) - n_more - consumed - len(rest)
                    cb = f'(Some {cbounds([tuple(b) for b in f_bounds.bounds])})'
                    cu = f'(FArr {clist(cz(u) for u in f_univs)})'
                expected = (f'(Ok ({cb}, {cu}, {common.cnat(n_par)}, '
                            f'{clist(cstr(t) for t in rest)}))')
                summary = ('ok', f_bounds and [tuple(b) for b in f_bounds.bounds],
                           f_univs, n_par, rest)
            else:
                expected = cres(out, None)
                summary = out
            cases.append(cpair(cstr(first), clist(cstr(t) for t in stack),
                               expected))
            metas.append({'first': first, 'stack': stack, 'shape': shape,
                          'impl': summary})
            res.seen(('fill_kw', first, stack), nontrivial=True)
            res.count('parse_fill_kw:' + shape + ':'
                      + (out[0] if out[0] == 'ok' else out[1]))
            # oracle (well-formed arrays): exactly `size` universes in order,
            # every following numeric token swallowed as a parameter
            if shape.startswith('array:exact'):
                want_u = summary[2] if out[0] == 'ok' else None
                truth = fill_tokens_truth(first, stack)
                if out[0] != 'ok' or summary[1] != truth[0] \
                        or want_u != truth[1] or summary[3] != truth[2]:
                    res.violation(
                        'impl-violation',
                        f'parse_fill_kw({first!r}, {stack}) = {summary}, '
                        f'expected bounds/universes/params {truth}',
                        {'input': {'first': first, 'stack': stack}},
                        found_input=True)
    finally:
        if spies_ok:
            pm.expand_data_card, pm.normalize_transform = orig_expand, orig_norm
    if metas:
        res.sample({'parse_fill_kw': metas[0]})
    if spies_ok:
        tie(res, 'c06_fillkw', 'parse_fill_kw',
            'string * list string * res (option bounds * funivs * nat * list string)',
            'check_fill_kw', cases, metas, lambda m: str(m)[:300])

    # -- parse_one_cell_worker: option string -> keyword tokens --
    class _Captured(Exception):
        pass
    worker = make_cell_parser()

    def capture(kw_list):
        worker.captured = list(reversed(kw_list))
        raise _Captured()
    worker.parse_keywords = capture
    cases, metas = [], []
    pieces = ['imp:n=1', 'IMP : N = 1', 'imp:n,p=1', 'u=3', 'U = 3', 'lat=1',
              'fill=5', 'FILL=5 (1 0 0)', '*fill=5(0 0 0 90 0 90 180 90 90 90 '
              '90 0)', 'fill=0:1 0:0 0:0 2 3', 'fill= -1 : 1  0:0 0 : 0 5 5 5('
              '0 1 0)', 'trcl=(1 2 3)', 'TRCL=7', '*TRCL = ( 0 0 1 )', 'vol=1.5',
              'tmp=2.5E-8', 'fill=2(3)', 'imp:n= 0', ':', ' : ', '=', '()',
              'Fill=1:2 3 : 4 7 7 7 7']
    for k in range(150 * mult):
        text = rng.choice(['', ' ', '  ']).join(
            rng.choice(pieces) + rng.choice([' ', '  ', ' ', ''])
            for _ in range(rng.randint(0, 5)))
        if rng.random() < 0.3:
            text = ''.join(rng.choice([ch, ch, ch, ch.upper(), ' ' + ch])
                           if ch in ':=()' or ch.isalpha() else ch
                           for ch in text)
        try:
            worker.parse_one_cell_worker(0, None, ('0', '-1', text))
            got = None
        except _Captured:
            got = worker.captured
        except Exception:       # pylint: disable=broad-except
            got = None           # the tokens never reached parse_keywords
        if got is None:
            continue
        cases.append(cpair(cstr(text), clist(cstr(t) for t in got)))
        metas.append({'option': text, 'impl': got})
        res.seen(('options', text), nontrivial=len(got) > 1)
        res.count('tokenize:tokens' + str(min(len(got), 12)))
        # oracle: independent re-implementation with re.split
        import re as _re
        want = _re.sub(' *: *', ':', text).lower()
        want = [t for t in _re.split(r'[\s()=]+', want) if t]
        if got != want:
            res.violation('impl-violation',
                          f'option string {text!r} tokenised as {got}, '
                          f'expected {want}', {'input': {'option': text}},
                          found_input=True)
    if cases:
        res.sample({'tokenize': metas[0]})
        tie(res, 'c06_tokens', 'parse_one_cell_worker tokenisation',
            'string * list string', 'check_tokenize', cases, metas,
            lambda m: str(m)[:300])
    else:
        res.extra.setdefault('skipped', []).append(
            'parse_one_cell_worker no longer hands its tokens to '
            'self.parse_keywords: tokenisation tie skipped (the tokens are '
            'still exercised through whole conversions)')

    # -- to_fillid --
    cases, metas = [], []
    fill_worker = make_cell_parser()
    try:
        dict_ok = ParseMCNPCell.to_fillid(
            {'f_bounds': None, 'f_univs': None, 'lattice': None}, None) is None
    except Exception:       # pylint: disable=broad-except
        dict_ok = False
    if not dict_ok:
        res.extra.setdefault('skipped', []).append(
            'to_fillid no longer takes a plain keyword dict: the helper-level '
            'call is skipped, to_fillid is tied through parse_one_cell_worker')
    for k in range(150 * mult):
        shape = rng.choice(['nofill', 'plain', 'plain_lat_noopt', 'hom',
                            'hom', 'array', 'array', 'array_nolat',
                            'array_badlen'])
        bs = gen_bounds(rng, allow_weird=rng.random() < 0.3) or [(0, 1)]
        size = L.LatticeBounds(list(bs)).size()
        univ = rng.choice([1, 2, 5, 0, 17])
        f_bounds = f_univs = lattice = lat_opt = None
        if shape == 'nofill':
            lattice = rng.choice([None, 1, 2])
            lat_opt = rng.choice([None, bs])
        elif shape == 'plain':
            f_univs = univ
            lat_opt = rng.choice([None, bs])
        elif shape == 'plain_lat_noopt':
            f_univs, lattice = univ, rng.choice([1, 2])
        elif shape == 'hom':
            f_univs, lattice, lat_opt = univ, rng.choice([1, 1, 2]), bs
        else:
            f_bounds = bs
            n = max(size, 0)
            if shape == 'array_badlen':
                n = max(size + rng.choice([-1, 1]), 0)
            f_univs = [rng.choice([0, 1, 2, 3]) for _ in range(n)]
            lattice = None if shape == 'array_nolat' else rng.choice([1, 2])
            lat_opt = rng.choice([None, None, [(0, 1)]])
        kws = {'f_bounds': None if f_bounds is None
               else L.LatticeBounds(list(f_bounds)),
               'f_univs': list(f_univs) if isinstance(f_univs, list)
               else f_univs, 'lattice': lattice}
        opt = None if lat_opt is None else L.LatticeBounds(list(lat_opt))

        def canon(val):
            if val is None:
                return ('none',)
            if isinstance(val, int):
                return ('univ', val)
            return ('spec', [tuple(b) for b in val.bounds], list(val.spec))
        # public route: the keywords as text of a cell card, through
        # parse_one_cell_worker (which calls to_fillid); the helper-level call
        # with a hand-built keyword dict only while to_fillid takes a dict
        text_opts = fillid_card_options(shape, f_bounds, f_univs, lattice)
        if text_opts is not None:
            out = call(lambda t, o: canon(fill_worker.parse_one_cell_worker(
                0, o, ('0', '-1', t)).fillid), text_opts, opt)
            if out[0] == 'err' and out[1] == 'ParseMCNPCellError':
                out = None       # the parser refused the card before to_fillid
        elif dict_ok:
            out = call(lambda a, b: canon(ParseMCNPCell.to_fillid(a, b)),
                       kws, opt)
        else:
            out = None
        if out is None:
            continue
        if text_opts is not None and dict_ok:
            direct = call(lambda a, b: canon(ParseMCNPCell.to_fillid(a, b)),
                          kws, opt)
            if direct != out:
                res.violation('correspondence',
                              f'to_fillid on a keyword dict gives {direct}, '
                              f'through the cell card {text_opts!r}: {out}',
                              {'input': {'options': text_opts},
                               'theorem_or_correspondence': 'tie:to_fillid'},
                              found_input=False)

        def cfill(val):
            if val[0] == 'none':
                return 'FNone'
            if val[0] == 'univ':
                return f'(FUniv {cz(val[1])})'
            return f'(FSpec {cbounds(val[1])} {clist(cz(u) for u in val[2])})'
        fu = 'None' if f_univs is None else (
            f'(Some (FInt {cz(f_univs)}))' if isinstance(f_univs, int)
            else f'(Some (FArr {clist(cz(u) for u in f_univs)}))')
        cases.append(cpair(copt(f_bounds, cbounds), fu, copt(lattice, cz),
                           copt(lat_opt, cbounds), cres(out, cfill)))
        metas.append({'shape': shape, 'f_bounds': f_bounds,
                      'f_univs': f_univs, 'lattice': lattice,
                      'lat_opt': lat_opt, 'impl': out})
        res.seen(('fillid', shape, bs, f_univs), nontrivial=True)
        res.count('to_fillid:' + shape + ':' + out[0])
        if shape == 'array' and all(lo <= hi for lo, hi in bs):
            # oracle: an explicit array keeps the ranges written on the card,
            # whatever --lattice says for that cell
            if out != ('ok', ('spec', [tuple(b) for b in bs], list(f_univs))):
                res.violation('impl-violation',
                              f'explicit FILL array over {bs} (--lattice '
                              f'{lat_opt}): to_fillid gives {out}',
                              {'input': metas[-1]}, found_input=True)
        if shape == 'hom' and all(lo <= hi for lo, hi in bs):
            # oracle: one entry per element of the --lattice ranges, all = n
            if out != ('ok', ('spec', [tuple(b) for b in bs], [univ] * size)):
                res.violation('impl-violation',
                              f'FILL={univ} with --lattice {bs}: to_fillid '
                              f'gives {out}', {'input': metas[-1]},
                              found_input=True)
    res.sample({'to_fillid': metas[0]})
    tie(res, 'c06_fillid', 'to_fillid',
        'option bounds * option funivs * option Z * option bounds * res fillid',
        'check_fillid', cases, metas, lambda m: str(m)[:300])

    # -- latticeReciprocal / latticeVector / compose_transform --
    def cvecs(out):
        return cres(out, lambda l: clist(cvec(v) for v in l))
    cases, metas, vcases, vmetas, ccases, cmetas = [], [], [], [], [], []
    for k in range(250 * mult):
        n = rng.choice([1, 2, 2, 3, 3, 3])
        if rng.random() < 0.05:
            n = rng.choice([0, 4])
        if rng.random() < 0.5:
            vecs = [gen_vec(rng) for _ in range(n)]       # dyadic, maybe singular
        else:
            vecs = [tuple(float(x) for x in v) for v in c06_gen.gen_basis(
                rng, min(max(n, 1), 3), rng.choice(['ortho', 'rot', 'skew']))]
        out = call(lambda v: [tuple(float(x) for x in r)
                              for r in L.latticeReciprocal(v)], list(vecs))
        cases.append(cpair(clist(cvec(v) for v in vecs), cvecs(out)))
        metas.append({'vectors': vecs, 'impl': out})
        res.seen(('reciprocal', vecs), nontrivial=len(vecs) > 1)
        res.count('latticeReciprocal:' + (out[0] if out[0] == 'ok'
                                          else out[1]))
        if out[0] == 'ok' and abs(np.linalg.det(
                np.array(vecs) @ np.array(vecs).T)) > 1e-6:
            gram = np.array(out[1]) @ np.array(vecs).T
            if np.abs(gram - np.eye(len(vecs))).max() > 1e-9:
                res.violation('impl-violation',
                              f'latticeReciprocal({vecs}) is not the dual '
                              f'basis: rec.v = {gram.tolist()}',
                              {'input': {'vectors': vecs}}, found_input=True)
        base = [gen_vec(rng) for _ in range(rng.choice([1, 2, 3]))]
        index = tuple(rng.randint(-4, 4) for _ in range(rng.choice([1, 2, 3])))
        lv = tuple(float(x) for x in L.latticeVector(base, index))
        vcases.append(cpair(clist(cvec(v) for v in base),
                            clist(cz(i) for i in index), cvec(lv)))
        vmetas.append({'base': base, 'index': index, 'impl': lv})
        want = sum((i * np.array(v) for i, v in zip(index, base)),
                   np.zeros(3))
        if len(index) == len(base) and np.abs(want - np.array(lv)).max() > 1e-12:
            res.violation('impl-violation',
                          f'latticeVector({base}, {index}) = {lv}',
                          {'input': vmetas[-1]}, found_input=True)
        t1 = [rng.choice(c06_gen.COMPONENTS) for _ in range(3)] + \
            [float(x) for row in deckmod.rotation(
                rng.randrange(3), rng.choice([0, 30, 90, 180, -60]))
             for x in row]
        t2 = [rng.choice(c06_gen.COMPONENTS) for _ in range(3)] + \
            [float(x) for row in deckmod.rotation(
                rng.randrange(3), rng.choice([0, 45, 90, 270, 120]))
             for x in row]
        if rng.random() < 0.3:
            t1 = [rng.uniform(-2, 2) for _ in range(12)]
        if rng.random() < 0.05:
            t2 = t2[:rng.choice([3, 11])]
        comp = call(lambda a, b: [float(x) for x in compose_transform(a, b)],
                    t1, t2)
        ccases.append(cpair(clist(cfloat(x) for x in t1),
                            clist(cfloat(x) for x in t2),
                            cres(comp, lambda l: clist(cfloat(x) for x in l))))
        cmetas.append({'t1': t1, 't2': t2, 'impl': comp})
    res.sample({'latticeReciprocal': metas[0]})
    tie(res, 'c06_rec', 'latticeReciprocal',
        'list fvec * res (list fvec)', 'check_reciprocal', cases, metas,
        lambda m: str(m)[:300])
    tie(res, 'c06_latvec', 'latticeVector', 'list fvec * list Z * fvec',
        'check_latvec', vcases, vmetas, lambda m: str(m)[:300])
    tie(res, 'c06_compose', 'compose_transform',
        'list float * list float * res (list float)', 'check_compose',
        ccases, cmetas, lambda m: str(m)[:300])

    # -- squareLatticeReciprocalVecs / squareLatticeBaseVectors --
    rcases, bcases, metas = [], [], []
    for k in range(300 * mult):
        truth = None
        mode = rng.random()
        if mode < 0.7:
            surfaces, truth = gen_unit_cell(rng)
            fault = None
        elif mode < 0.85:
            surfaces, truth = gen_unit_cell(rng)
            surfaces, fault = break_unit_cell(rng, surfaces)
            if fault == 'side0':
                pass
            truth = None
            if fault in ('same_plane', 'parallel'):
                surfaces, fault = dyadic_unit_cell(rng), 'dyadic_' + fault
                if rng.random() < 0.5:
                    surfaces[1] = (surfaces[0][0], surfaces[1][1])
                elif len(surfaces) >= 4:
                    surfaces[2:4] = surfaces[0:2]
        else:
            surfaces, fault = dyadic_unit_cell(rng), 'dyadic'
        rec = call(lambda s: [tuple(float(x) for x in v) for v in
                              L.squareLatticeReciprocalVecs(s)],
                   list(surfaces))
        bas = call(lambda s: [tuple(float(x) for x in v) for v in
                              L.squareLatticeBaseVectors(s)], list(surfaces))
        # near-singular results of degenerate cells are not comparable
        if bas[0] == 'ok' and max(abs(x) for v in bas[1] for x in v) > 1e6:
            continue
        if rec[0] == 'ok' and max(abs(x) for v in rec[1] for x in v) > 1e6:
            continue
        # linearly dependent reciprocal vectors with non-dyadic components:
        # the code's den = a*b - c**2 and the model's a*b - c*c are both
        # rounding noise (libm pow(c, 2) may differ from c*c by an ulp), one
        # side may divide by an exact zero and the other by 1e-18.  Not
        # comparable; the exact-zero branches are tied on dyadic inputs.
        if rec[0] == 'ok' and len(rec[1]) > 1:
            sing = np.linalg.svd(np.array(rec[1]), compute_uv=False)
            exact = all(float(x * 1024).is_integer()
                        for v in rec[1] for x in v)
            if sing[-1] < 1e-9 * sing[0] and not exact:
                res.count('unit_cell:dependent non-dyadic reciprocal '
                          'vectors (not compared)')
                continue
        csurfs = clist(csurf(s) for s in surfaces)
        rcases.append(cpair(csurfs, cvecs(rec)))
        bcases.append(cpair(csurfs, cvecs(bas)))
        metas.append({'surfaces': surfaces, 'fault': fault, 'reciprocal': rec,
                      'base': bas, 'truth': truth})
        res.seen(('unitcell', surfaces), nontrivial=len(surfaces) > 2
                 or fault is not None)
        res.count(f'unit_cell:{len(surfaces)}surf:'
                  + (bas[0] if bas[0] == 'ok' else bas[1]))
        if truth is not None:
            # oracle: ground truth of the generator
            ok = bas[0] == 'ok' and len(bas[1]) == len(truth) and all(
                abs(a - b) <= 1e-9 * max(1.0, abs(b))
                for v, w in zip(bas[1], truth) for a, b in zip(v, w))
            if not ok:
                res.violation(
                    'impl-violation',
                    'squareLatticeBaseVectors differs from the vectors the '
                    f'unit cell was built from: {bas} vs {truth}',
                    {'input': {'surfaces': surfaces}, 'expected': truth,
                     'observed': bas}, found_input=True)
    res.sample({'unit_cell': metas[0]})
    tie(res, 'c06_sqrec', 'squareLatticeReciprocalVecs',
        'list (fplane * Z) * res (list fvec)', 'check_square_rec', rcases,
        metas, lambda m: str(m)[:300])
    tie(res, 'c06_sqbase', 'squareLatticeBaseVectors',
        'list (fplane * Z) * res (list fvec)', 'check_square_base', bcases,
        metas, lambda m: str(m)[:300])


def classify(deck, meta, failure):
    '''Narrow class of a sweep failure, or None.  The generated decks never
    carry per-entry transformations, so the open class
    array_entry_transformation only matches its witness deck;
    lattice_fill_rotation was repaired in /repo a82b50a,
    degenerate_range_rejected in 9b5a8f0.'''
    return None


COV = None      # line-coverage tracer (c06_cov.LineCov) of the current run


def run_deck(deck, args, trace=False, text=None):
    '''(conv, records of develop_lattice calls)'''
    records = []
    if text is None:
        text = deckmod.render(deck)
    with spy_develop(records):
        if trace and COV is not None:
            with COV:
                conv = impl.convert(text, args, keep_stdout=False)
        else:
            conv = impl.convert(text, args, keep_stdout=False)
    return conv, records


def deck_stream(res, rng, quick):
    n_valid = 240 if quick else 3000
    n_broken = 60 if quick else 600
    cases, metas = [], []
    n_points = n_checked = 0
    stats_total = {}
    # corpus: forced shapes generated from fixed seeds (the same decks whatever
    # --seed is), so that the shapes that matter are always present
    corpus = []
    for j, force in enumerate(CORPUS_SHAPES):
        for rep in range(2 if quick else 6):
            corpus.append((dict(force), random.Random(4242 + 97 * j + rep)))
    n_valid += len(corpus)
    # broken corpus: the malformed shapes a mutation of the dimension checks or
    # of the base-vector code needed, from fixed seeds (same decks every run)
    broken_corpus = [(fault, random.Random(777 + 31 * j))
                     for j, fault in enumerate(BROKEN_CORPUS)]
    n_broken += len(broken_corpus)
    for k in range(n_valid + n_broken):
        broken = k >= n_valid
        force = {}
        gen_rng = rng
        forced_fault = None
        if k < len(corpus):
            force, gen_rng = corpus[k]
        elif broken and k - n_valid < len(broken_corpus):
            forced_fault, gen_rng = broken_corpus[k - n_valid]
            force = {'d': 2, 'kind': 'ortho', 'rpp': False,
                     'homogeneous': False, 'nested': False}
        deck, meta = c06_gen.gen_deck(gen_rng, force)
        fault = None
        if broken:
            fault = c06_gen.break_deck(gen_rng if forced_fault else rng, deck,
                                       meta, forced_fault)
        # FILL arrays written with the repeat shorthand (u nR), followed on the
        # card by TRCL / IMP keywords: the corpus alternates, 35 % otherwise
        text, short = c06_gen.render_text(
            deck, rng, shorthand=(k % 2 == 0) if k < len(corpus) else None)
        if short:
            res.count('FILL array written with the nR shorthand')
        # conversion options: pot_fill builds the geometry of a filled element
        # differently under the inlining options (the filler's tree is inlined
        # AFTER its fill transformation / element translation); the corpus
        # cycles through all of them, half of the random decks draw one
        if k < len(corpus):
            opts = OPTION_SETS[k % len(OPTION_SETS)]
        elif broken:
            opts = []
        else:
            opts = rng.choice(OPTION_SETS) if rng.random() < 0.5 else []
        args = deckmod.lattice_args(deck) + meta.get('extra_args', []) + opts
        if meta.get('extra_args'):
            res.count('explicit FILL array on a cell also named in --lattice')
        res.count('options:' + (' '.join(opts) or 'default'))
        # the corpus, 40 random decks and every broken deck run under the
        # line-coverage tracer (tracing every conversion would double the time)
        conv, records = run_deck(deck, args,
                                 trace=k < len(corpus) + 40 or broken,
                                 text=text)
        payload = {'deck': text, 'args': args, 'abstract': deck, 'meta': meta,
                   'fault': fault}
        res.seen(text, nontrivial=meta['n_elements'] > 1 or broken)
        res.count(f'deck:d{meta["d"]}:{meta["kind"]}'
                  + (':rpp' if meta['rpp'] else ''))
        res.count('fill:' + ('homogeneous' if meta['homogeneous'] else 'array')
                  + (':rot' if meta['fill_rot'] else ':transl'
                     if meta['fill_tr'] else ''))
        if meta['lat_trcl']:
            res.count('lattice TRCL')
        if meta['cont_tr']:
            res.count('container transformed')
        if meta['both_tr'] and not broken:
            res.count('lattice with TRCL and a fill transformation (swept)')
        if meta['nested']:
            res.count('nested lattice as filler')
        if meta['degenerate_low_dim']:
            res.count('one-point range in an own dimension of a 1-D/2-D '
                      'lattice with three ranges')
        if fault:
            res.count('fault:' + fault)
        if k in (0, n_valid):
            res.sample({'deck': text, 'args': args, 'fault': fault})
        # ---- tie: every recorded develop_lattice call ----
        for rec in records:
            if 'snapshot_error' in rec:
                res.violation('correspondence',
                              'tie:develop: cannot read the lattice cell '
                              f'handed to develop_lattice: '
                              f'{rec["snapshot_error"]}',
                              {'input': payload,
                               'theorem_or_correspondence': 'tie:develop'},
                              found_input=False)
                continue
            case, problems = develop_case(rec)
            if fault == 'parallel_pairs':
                # linearly dependent reciprocal vectors: the determinant is
                # rounding noise on both sides (see direct_ties), the outcome
                # (ZeroDivisionError or garbage) is not comparable
                res.count('develop: parallel pairs (not compared)')
                continue
            cases.append(case)
            metas.append({'deck': text, 'args': args, 'fault': fault,
                          'out': repr(rec['out'])[:600]})
            for what in problems[:2]:
                res.violation('correspondence',
                              f'tie:develop: {what}',
                              {'input': payload,
                               'theorem_or_correspondence': 'tie:develop'},
                              found_input=False)
            if not meta['lat_trcl'] and not broken and \
                    rec['key'] == c06_gen.LAT_CELL and \
                    rec['ids'] != lits_of(deck):
                res.violation('correspondence',
                              'tie:develop: surfaces are not handed over in '
                              f'card order: {rec["ids"]} vs {lits_of(deck)}',
                              {'input': payload,
                               'theorem_or_correspondence': 'tie:develop'},
                              found_input=False)
        # ---- sweep: the property on the written file ----
        if broken:
            res.count('broken:' + ('converted' if conv.ok else str(conv.exc)))
            continue
        if not conv.ok or conv.text is None:
            res.violation('impl-violation',
                          f'valid lattice deck rejected: {conv.exc}: '
                          f'{conv.msg[:200]}', {'input': payload},
                          found_input=True)
            continue
        if len(records) != 1 + int(meta['nested']):
            res.violation('correspondence',
                          f'develop_lattice called {len(records)} times for '
                          'one lattice cell',
                          {'input': payload,
                           'theorem_or_correspondence': 'tie:develop'},
                          found_input=False)
        t4 = impl.T4File(conv.text)
        if t4.errors:
            res.violation('impl-violation',
                          f'written file not readable: {t4.errors[:2]}',
                          {'input': payload}, found_input=True)
            continue
        pts = c06_gen.sample_points(rng, deck,
                                    n_inner=3 if quick else 5)
        checked, failures, stats = c06_gen.compare(deck, t4, pts)
        n_points += len(pts)
        n_checked += checked
        for key, val in stats.items():
            stats_total[key] = stats_total.get(key, 0) + val
        reported = set()
        for failure in failures:
            cls = classify(deck, meta, failure)
            if cls in reported:
                continue
            reported.add(cls)
            pay = dict(payload)
            pay['failure'] = failure
            res.violation('impl-violation',
                          f'd={meta["d"]} {meta["kind"]} lattice: '
                          f'{failure["why"]} at {failure["point"]}',
                          {'input': pay}, cls=cls, found_input=True)
    for key, val in stats_total.items():
        res.count('points:' + key, val)
    res.obligation(f'sweep: {n_valid} lattice decks converted, {n_checked} of '
                   f'{n_points} points decided by both evaluators',
                   n_checked > 10 * n_valid, f'{stats_total}')
    bad = tie(res, 'c06_develop', 'develop_lattice', 'develop_case',
              'check_develop', cases, metas,
              lambda m: f'fault={m["fault"]} out={m["out"]} deck=\n{m["deck"]}')
    return bad


OPTION_SETS = [['--always-inline-filling'], [],
               ['--always-inline-filling', '--always-inline-filled'],
               ['--always-inline-filled'], ['--max-inline-score', '0']]

BROKEN_CORPUS = ['padding_nonzero', 'too_few_ranges', 'range_in_padding',
                 'shifted_ranges', 'too_many_ranges', 'same_plane',
                 'drop_surface', 'extra_pair']

CORPUS_SHAPES = [
    # rotating fill transformation on 1-D, 2-D, 3-D lattices (a82b50a)
    {'d': 1, 'kind': 'rot', 'homogeneous': True, 'fill_tr': True,
     'fill_tr_mode': 'rot', 'lat_trcl': False},
    {'d': 2, 'kind': 'skew', 'homogeneous': True, 'fill_tr': True,
     'fill_tr_mode': 'rot', 'lat_trcl': False},
    {'d': 3, 'kind': 'ortho', 'rpp': False, 'homogeneous': True,
     'fill_tr': True, 'fill_tr_mode': 'rot', 'lat_trcl': False},
    # TRCL and a rotating fill transformation on the same lattice cell
    {'d': 2, 'kind': 'rot', 'homogeneous': True, 'fill_tr': True,
     'fill_tr_mode': 'rot', 'lat_trcl': True, 'both_tr': True},
    {'d': 1, 'kind': 'ortho', 'homogeneous': True, 'fill_tr': True,
     'fill_tr_mode': 'transl', 'lat_trcl': True, 'both_tr': True},
    # TRCL on the lattice cell, array fill
    {'d': 2, 'kind': 'skew', 'homogeneous': False, 'lat_trcl': True},
    {'d': 3, 'kind': 'rot', 'homogeneous': False, 'lat_trcl': True,
     'cont_tr': True},
    {'d': 1, 'kind': 'ortho', 'homogeneous': True, 'fill_tr': False,
     'lat_trcl': True},
    # skew cells, array fills, no transformation
    {'d': 2, 'kind': 'skew', 'homogeneous': False, 'lat_trcl': False,
     'cont_tr': False},
    {'d': 3, 'kind': 'skew', 'homogeneous': False, 'lat_trcl': False,
     'cont_tr': False},
    # a lattice nested in the elements of the lattice
    {'d': 2, 'kind': 'ortho', 'homogeneous': False, 'nested': True},
    {'d': 1, 'kind': 'rot', 'homogeneous': True, 'fill_tr': True,
     'fill_tr_mode': 'rot', 'lat_trcl': False, 'nested': True},
    # explicit FILL array on a cell that is also named in a --lattice option
    {'d': 2, 'kind': 'ortho', 'homogeneous': False, 'shadow_opt': True,
     'ranges': [(-1, 1), (0, 1)], 'lat_trcl': False},
    {'d': 1, 'kind': 'rot', 'homogeneous': False, 'shadow_opt': True,
     'ranges': [(-1, 1)]},
    # RPP macrobody unit cell
    {'d': 3, 'kind': 'ortho', 'rpp': True, 'homogeneous': False},
    {'d': 3, 'kind': 'ortho', 'rpp': True, 'homogeneous': True,
     'fill_tr': True, 'fill_tr_mode': 'transl'},
    # one-point ranges in the lattice's own dimensions (9b5a8f0)
    {'d': 2, 'kind': 'ortho', 'homogeneous': False, 'keep_degenerate': True,
     'ranges': [(-1, 1), (2, 2)]},
    {'d': 1, 'kind': 'rot', 'homogeneous': False, 'keep_degenerate': True,
     'ranges': [(-2, -2)]},
    # negative ranges, 3-D, transformed container
    {'d': 3, 'kind': 'rot', 'homogeneous': False, 'cont_tr': True,
     'ranges': [(-3, -2), (-1, 0), (1, 2)]},
]


def lits_of(deck):
    cell = next(c for c in deck['cells'] if c['id'] == c06_gen.LAT_CELL)
    expr = cell['expr']
    return [e[1] for e in expr[1:]] if expr[0] == '*' else [expr[1]]


def revive(obj):
    '''Undo what JSON does to an abstract deck: expression / ('num', n) nodes
    are tuples, transformation and material numbers are ints.'''
    if isinstance(obj, list):
        items = [revive(x) for x in obj]
        if items and isinstance(items[0], str) and items[0] in (
                's', 'f', '*', ':', '#', '#c', 'num'):
            return tuple(items)
        return items
    if isinstance(obj, dict):
        out = {}
        for key, val in obj.items():
            if isinstance(key, str) and key.lstrip('-').isdigit():
                key = int(key)
            out[key] = revive(val)
        if 'ranges' in out and out['ranges'] is not None:
            out['ranges'] = [tuple(r) for r in out['ranges']]
        return out
    return obj


def replay(path):
    '''Re-run the recorded input through the implementation and the oracle.'''
    data = json.load(open(path))
    inp = data.get('input', {})
    if 'abstract' in inp:
        inp['abstract'] = revive(inp['abstract'])
    print('recorded:', data.get('what'))
    if 'deck' in inp:
        records = []
        with spy_develop(records):
            conv = impl.convert(inp['deck'], inp.get('args', []))
        print('conversion:', conv)
        for rec in records:
            print('develop_lattice:', {k: v for k, v in rec.items()
                                       if k != 'dic'})
            if 'snapshot_error' not in rec:
                case, problems = develop_case(rec)
                print('harness-level problems:', problems)
                ids, dic, cell, _ = split_case(case)
                model, _ = common.coq_eval(
                    HEADER + 'From T4V Require Import Base.Cases.\n'
                    'Import ListNotations.\n',
                    f'let \'(u, fill, ftr, trcl) := {cell} in develop_lattice '
                    f'FS (dic_of {dic}) {ids} (mkLatCell u fill ftr trcl)')
                print('model:', model)
        if conv.text and 'abstract' in inp:
            t4 = impl.T4File(conv.text)
            rng = random.Random(data.get('seed', 0))
            pts = c06_gen.sample_points(rng, inp['abstract'])
            if 'failure' in inp:
                pts.insert(0, (np.array(inp['failure']['point']), None))
            checked, failures, stats = c06_gen.compare(inp['abstract'], t4,
                                                       pts)
            print(f'oracle: {checked} points checked, {len(failures)} '
                  f'failures, {stats}')
            for failure in failures[:5]:
                print('  ', failure)
    else:
        print('input:', json.dumps(inp)[:2000])
        if 'coq_case' in data:
            print('coq case:', data['coq_case'][:2000])
    return 0


def split_case(case):
    '''Top-level components of a rendered tuple "(a, b, c, d)".'''
    body = case[1:-1]
    parts, depth, cur = [], 0, ''
    for ch in body:
        if ch in '([':
            depth += 1
        elif ch in ')]':
            depth -= 1
        if ch == ',' and depth == 0:
            parts.append(cur.strip())
            cur = ''
        else:
            cur += ch
    parts.append(cur.strip())
    return parts
